"""C15 — UDP datagrams keep their boundaries and contents through the tunnel (structural clauses)."""
from engine.anl.casts import narrowing_casts, check_cast, const_value
from engine.anl.origin import fmt, subterms, strip_bb
from .common import S, co, calls_norm, is_call_term, var_name, render_path, phi_alts, const_strs

EXPLANATION = (
    "Static decision of the datagram framing in both directions and on both sides: (R15.1) the two encoders and the two readers agree "
    "on a 2-byte big-endian length prefix; the `len() as u16` casts are guarded by the `> MAX_UDP_PACKET_SIZE -> Err` check with an "
    "evaluated constant <= 65535; the reader's payload buffer has exactly the decoded length; (R15.2) prefix and payload are read with "
    "read_exact — never a bare read, which may stop inside the prefix when a frame boundary falls there; (R15.3) one datagram <-> one "
    "record: in each direction's loop exactly one send_to per read_udp_packet and one send_data per recv_from; what is sent is the whole "
    "freshly decoded payload (the reader's own return value) resp. buf[..len] with len from the same recv_from; (R15.4) a prefixed record "
    "can be 65537 bytes and is delivered intact only because write_data_frame splits (dependency on R01.2, re-checked here); (R15.5) the "
    "server's dispatch literal is a substring of the client's magic address. Not decided: kernel datagram semantics, loss."
)
RULE_TEXT = "one obligation per codec function and field, per read, per loop; non-trivial = needed an origin, range or cycle query"

READERS = ("client::udp_client::read_udp_packet", "server::udp_proxy::read_udp_packet")
ENCODERS = ("client::udp_client::encode_udp_packet", "server::udp_proxy::encode_udp_packet_simple")


def r1_prefix_agreement(ctx):
    for path in ENCODERS:
        body = ctx.body("R15.1", path)
        if body is None:
            continue
        name = path.split("::")[-1] + "@" + path.split("::")[1]
        cfg, conds, o = ctx.cfg(body), ctx.conds(body), ctx.origins(body)
        pu = calls_norm(body, "BufMut::put_u16")
        ps = calls_norm(body, "BufMut::put_slice", "BufMut>::put_slice", "BytesMut::extend_from_slice")
        if not ctx.floor("R15.1", "%s: put_u16 + put_slice" % name, min(len(pu), len(ps)), 1):
            continue
        lt = o.of_operand(pu[0].args[1])
        ok = isinstance(lt, tuple) and lt[0] == "cast" and (is_call_term(lt[3], "::len") or lt[3][0] == "len") and var_name((lt[3][3][0] if lt[3][0] == "call" else lt[3][1])) == "payload"
        src = o.of_operand(ps[0].args[1])
        oks = var_name(src) == "payload"
        order = cfg.dominates(pu[0].bb, ps[0].bb)
        ctx.ob("R15.1", "%s:prefix=len(payload),then-payload" % name, ok and oks and order, pu[0].site, "put_u16(payload.len()) then put_slice(payload)" if ok and oks and order else
               "encoder writes prefix %s then %s" % (fmt(lt)[:60], fmt(src)[:40]))
        for c in [c for c in narrowing_casts(body) if c["to"] == "u16"]:
            okc, det, _ = check_cast(body, cfg, conds, o, c)
            ctx.ob("R15.1", "%s:length-cast-guarded" % name, okc, "%s:%s" % (path.split("::")[1], c["line"]), det)
    for path in READERS:
        body = co(ctx, "R15.1", path)
        if body is None:
            continue
        name = "read_udp_packet@" + path.split("::")[1]
        cfg, conds, o = ctx.cfg(body), ctx.conds(body), ctx.origins(body)
        allreads = [c for c in body.calls() if (c.norm or "").split("::")[-1] in ("read", "read_exact", "read_buf", "read_to_end") and ("StreamReader" in c.norm or "AsyncRead" in c.norm)]
        exact = [c for c in allreads if c.norm.endswith("::read_exact")]
        bare = [c for c in allreads if c not in exact]
        for c in bare:
            ctx.ob("R15.2", "%s:only-read_exact|%s" % (name, c.norm.split("::")[-1]), False, c.site,
                   "`%s` may return fewer bytes than the buffer holds: when a frame boundary falls inside the 2-byte prefix (or the payload) the length is computed from a half-filled buffer and every later datagram is out of sync" % c.norm.split("::")[-1])
        if not bare:
            ctx.ob("R15.2", "%s:only-read_exact" % name, True, "", "%d reads, all read_exact" % len(exact))
        if not ctx.floor("R15.1", "%s: read_exact calls" % name, len(exact), 2):
            continue
        b0 = o.of_operand(exact[0].args[1])
        ok0 = isinstance(b0, tuple) and b0[0] == "var" and len(b0) > 2 and body.lty(b0[2]).get("s") == "[u8; 2]"
        ctx.ob("R15.1", "%s:prefix-buffer" % name, ok0, exact[0].site, "prefix read into a [u8; 2]" if ok0 else "prefix buffer is %s" % fmt(b0))
        fb = calls_norm(body, "::from_be_bytes")
        okbe = bool(fb) and strip_bb(o.of_operand(fb[0].args[0])) == strip_bb(b0) and "u16" in fb[0].callee
        ctx.ob("R15.1", "%s:prefix-big-endian-u16" % name, okbe, fb[0].site if fb else "", "length = u16::from_be_bytes(prefix)" if okbe else "length is not u16::from_be_bytes of the prefix buffer")
        b1 = o.of_operand(exact[1].args[1])
        init = o.init_of(b1[2]) if isinstance(b1, tuple) and b1[0] == "var" and len(b1) > 2 else b1
        L = None
        for s_ in subterms(init):
            if is_call_term(s_, "vec::from_elem") and len(s_[3]) == 2:
                L = s_[3][1]
        okL = L is not None and isinstance(L, tuple) and L[0] == "cast" and is_call_term(L[3], "::from_be_bytes") and not any(isinstance(s_, tuple) and s_[0] == "binop" for s_ in subterms(L))
        ctx.ob("R15.1", "%s:payload-buffer-is-fresh-and-exact" % name, okL, exact[1].site, "payload read_exact into vec![0; len] created for this datagram" if okL else
               "the payload is read into `%s` (initialiser %s): not a fresh buffer of exactly the decoded length, so a datagram can carry a stale tail or be cut" % (fmt(b1), fmt(init)[:80]))
        # the function returns that buffer
        rets = [o.of_operand(rv["ops"][0]) for kind, bi, si, rv in body.defs().get(0, []) if kind == "assign" and rv["r"] == "aggregate" and rv["kind"].get("variant") == "Ok"]
        okr = any(strip_bb(r) == strip_bb(b1) for r in rets)
        ctx.ob("R15.1", "%s:returns-the-payload-buffer" % name, okr, "", "Ok(data)" if okr else "the reader does not return the buffer it filled: %s" % [fmt(r)[:40] for r in rets])
        mx = [c for c in conds.all() if c.kind == "bool" and isinstance(c.term, tuple) and c.term[0] == "binop" and c.term[1] == "Gt" and const_value(c.term[3]) is not None and const_value(c.term[3]) <= 65535 and L is not None and strip_bb(c.term[2]) == strip_bb(L)]
        ctx.ob("R15.1", "%s:max-size-check" % name, bool(mx), "", "len > MAX_UDP_PACKET_SIZE (<= 65535) is rejected" if mx else "no upper bound check on the decoded length", nontrivial=bool(mx))


def _loops(ctx, path, src_pat, sink_pat):
    body = co(ctx, "R15.3", path)
    if body is None:
        return None
    cfg = ctx.cfg(body)
    src = calls_norm(body, src_pat)
    snk = calls_norm(body, sink_pat)
    return body, cfg, src, snk


def r3_one_to_one(ctx):
    # stream -> UDP (both sides)
    for path, tgt in (("client::udp_client::stream_to_udp", "last_peer"), ("server::udp_proxy::stream_to_udp", "target_addr")):
        r = _loops(ctx, path, "::read_udp_packet", "UdpSocket::send_to")
        if r is None:
            continue
        body, cfg, src, snk = r
        name = "stream_to_udp@" + path.split("::")[1]
        o = ctx.origins(body)
        if not ctx.floor("R15.3", "%s: read_udp_packet / send_to" % name, min(len(src), len(snk)), 1):
            continue
        one = len(src) == 1 and len(snk) == 1 and cfg.in_cycle(src[0].bb) and snk[0].bb in cfg.cycle_blocks(src[0].bb) and snk[0].bb not in cfg.reach_after(snk[0].bb, avoid_blocks=[src[0].bb])
        ctx.ob("R15.3", "%s:one-send_to-per-record" % name, one, snk[0].site, "one send_to per read_udp_packet per loop iteration" if one else "records and datagrams are not one-to-one in this loop (%d reads, %d send_to)" % (len(src), len(snk)))
        data = o.of_operand(snk[0].args[1])
        whole = is_call_term(data, "::read_udp_packet")
        ctx.ob("R15.3", "%s:datagram-is-the-decoded-payload" % name, whole, snk[0].site, "send_to sends exactly the Vec returned by read_udp_packet" if whole else
               "send_to sends `%s`, not the freshly decoded payload: a reused or re-sliced buffer delivers a datagram of the wrong size (stale tail of an earlier, larger datagram)" % fmt(data)[:100])
        t = o.of_operand(snk[0].args[2])
        okt = tgt in fmt(t)
        ctx.ob("R15.3", "%s:target" % name, okt, snk[0].site, "sent to %s" % tgt if okt else "sent to %s" % fmt(t)[:60])
    # UDP -> stream (both sides)
    for path, enc in (("client::udp_client::udp_to_stream", "encode_udp_packet"), ("server::udp_proxy::udp_to_stream", "encode_udp_packet_simple")):
        r = _loops(ctx, path, "UdpSocket::recv_from", "Stream::send_data")
        if r is None:
            continue
        body, cfg, src, snk = r
        name = "udp_to_stream@" + path.split("::")[1]
        o = ctx.origins(body)
        if not ctx.floor("R15.3", "%s: recv_from / send_data" % name, min(len(src), len(snk)), 1):
            continue
        one = len(src) == 1 and len(snk) == 1 and cfg.in_cycle(src[0].bb) and snk[0].bb in cfg.cycle_blocks(src[0].bb) and snk[0].bb not in cfg.reach_after(snk[0].bb, avoid_blocks=[src[0].bb])
        ctx.ob("R15.3", "%s:one-record-per-datagram" % name, one, snk[0].site, "one send_data per recv_from per loop iteration" if one else "datagrams and records are not one-to-one in this loop")
        data = o.of_operand(snk[0].args[1])
        ok = is_call_term(data, "::" + enc) and data[3] and is_call_term(data[3][0], "::index") and var_name(data[3][0][3][0]) == "buf"
        if ok:
            rng = data[3][0][3][1]
            n = rng[3][0] if isinstance(rng, tuple) and rng[0] == "agg" and "RangeTo" in rng[1] and rng[3] else None
            ok = isinstance(n, tuple) and n[0] == "field" and n[2] == "0" and is_call_term(n[1], "UdpSocket::recv_from") and n[1][2] == src[0].bb
        ctx.ob("R15.3", "%s:record-is-buf[..len]-of-this-datagram" % name, ok, snk[0].site, "send_data(encode(&buf[..len])) with len returned by this recv_from" if ok else
               "the record is built from %s" % fmt(data)[:120])
        bufty = o.of_operand(src[0].args[1])
        init = o.init_of(bufty[2]) if isinstance(bufty, tuple) and len(bufty) > 2 else None
        big = init is not None and any(is_call_term(s_, "vec::from_elem") and const_value(s_[3][1]) is not None and const_value(s_[3][1]) >= 65507 for s_ in subterms(init))
        ctx.ob("R15.3", "%s:receive-buffer-holds-max-datagram" % name, big, src[0].site, "recv buffer >= 65507 bytes" if big else "the receive buffer is smaller than the largest datagram: large datagrams are truncated by the kernel")


def r6_reply_peer(ctx):
    """the client remembers the sender of *every* datagram it forwards (replies go to the most recent local peer)"""
    body = co(ctx, "R15.6", "client::udp_client::udp_to_stream")
    if body is None:
        return
    cfg, o = ctx.cfg(body), ctx.origins(body)
    from .common import stores_through
    rf = calls_norm(body, "UdpSocket::recv_from")
    sd = calls_norm(body, "Stream::send_data")
    if not ctx.floor("R15.6", "recv_from / send_data in the client's udp_to_stream", min(len(rf), len(sd)), 1):
        return
    sts = []
    for bi, line, base, v, place in stores_through(body, o):
        named_guard = isinstance(base, tuple) and base[0] == "var" and len(base) > 2 and body.lty(base[2]).get("adt") == "tokio::sync::MutexGuard" and "SocketAddr" in body.lty(base[2])["args"][0]["s"]
        temp_guard = any(is_call_term(s, "Mutex::<T>::lock") for s in subterms(base)) and isinstance(v, tuple) and v[0] == "agg" and v[2] in ("Some", "None")
        if named_guard or temp_guard:
            sts.append((bi, line, v))
    if not sts:
        ctx.ob("R15.6", "udp_to_stream:remembers-sender", False, "", "the sender of a forwarded datagram is never stored: replies cannot be delivered")
        return
    ok, p = cfg.must_pass(cfg.succ(rf[0].bb), [sd[0].bb], via_blocks=[s[0] for s in sts])
    v = sts[0][2]
    from_this = isinstance(v, tuple) and v[0] == "agg" and v[2] == "Some" and any(isinstance(s, tuple) and s[0] == "call" and s[2] == rf[0].bb for s in subterms(v))
    ctx.ob("R15.6", "udp_to_stream:remembers-sender-of-every-datagram", ok and from_this, "src/client/udp_client.rs:%s" % sts[0][1],
           "every forwarded datagram stores Some(sender) of that recv_from before it is sent on" if ok and from_this else
           "the stored reply address is not refreshed unconditionally with the sender of each datagram (a 'peer unchanged' shortcut, or a value other than this recv_from's address): the reply to a request from a second "
           "local socket is delivered to the first one", path=None if ok else render_path(body, p))


def r4_r5(ctx):
    from . import C01
    C01.r2_chunking(ctx)
    hb = ctx.P.bodies.get("<server::handler::TcpProxyHandler as server::handler::StreamHandler>::handle_stream::{closure#0}")
    magic = None
    for n, c in ctx.P.consts.items():
        if n.endswith("UDP_OVER_TCP_MAGIC_ADDR"):
            magic = c
    if hb is None:
        ctx.missing("R15.5", "TcpProxyHandler::handle_stream async block")
        return
    o = ctx.origins(hb)
    lit = None
    for c in calls_norm(hb, "str::contains"):
        cs = const_strs(c, o)
        if cs:
            lit = cs[0]
    magic_val = magic.get("str") if magic else None
    if magic_val is None:
        ctx.missing("R15.5", "const UDP_OVER_TCP_MAGIC_ADDR (string value)")
        return
    # the client dials the magic constant
    dialled = False
    for key, body in ctx.P.scan():
        if "create_udp_proxy" not in key:
            continue
        oc = ctx.origins(body)
        for c in calls_norm(body, "Client::create_proxy_stream"):
            if "UDP_OVER_TCP_MAGIC_ADDR" in fmt(oc.of_operand(c.args[1])):
                dialled = True
    ok = lit is not None and lit in magic_val and dialled
    ctx.ob("R15.5", "magic-address-agreement", ok, "", "the server dispatches on \"%s\", a substring of the client's magic destination \"%s\"" % (lit, magic_val) if ok else
           "server dispatch literal %r vs client magic %r (client dials it: %s): UDP streams are not recognised by the server" % (lit, magic_val, dialled))


def _loop_header(cfg, bb):
    """the header of the outermost loop through block bb: the block of that cycle set which dominates all the others"""
    cyc = cfg.cycle_blocks(bb)
    for h in sorted(cyc):
        if all(cfg.dominates(h, b) for b in cyc):
            return h, cyc
    return None, cyc


def r8_every_turn_consumes(ctx):
    """each turn of a relay loop takes one item off its source before it does anything else that can send it round again:
    a turn that goes back to the top without having consumed (a peek and `continue`, a filter ahead of the receive) meets the same
    item next time — the loop spins on it and every datagram queued behind it is never relayed"""
    for path, src_pat in (("client::udp_client::stream_to_udp", "::read_udp_packet"), ("server::udp_proxy::stream_to_udp", "::read_udp_packet"),
                          ("client::udp_client::udp_to_stream", "UdpSocket::recv_from"), ("server::udp_proxy::udp_to_stream", "UdpSocket::recv_from")):
        body = co(ctx, "R15.8", path)
        if body is None:
            continue
        cfg = ctx.cfg(body)
        src = calls_norm(body, src_pat)
        name = path.split("::")[-1] + "@" + path.split("::")[1]
        if not ctx.floor("R15.8", "%s: source call" % name, len(src), 1):
            continue
        h, cyc = _loop_header(cfg, src[0].bb)
        if h is None:
            ctx.missing("R15.8", "%s: loop around the source call" % name)
            continue
        ok, p = (True, None) if h == src[0].bb else cfg.must_pass([b for b in cfg.succ(h) if b in cyc], [h], via_blocks=[c.bb for c in src])
        ctx.ob("R15.8", "%s:every-turn-consumes-from-the-source" % name, ok, src[0].site, "no way round the loop avoids `%s`" % src_pat.strip(":") if ok else
               "the loop can go round without calling `%s` (a `continue` ahead of it): the item that caused it is still at the head of the queue, the task spins on it and nothing behind it is relayed any more" % src_pat.strip(":"),
               path=None if ok else render_path(body, p)[:14])


def r7_reply_peer_has_one_writer(ctx):
    """the remembered local peer is written only by the direction that learns it (udp_to_stream, from each datagram's sender):
    the reply direction reads it.  A reply path that consumes or resets it loses every further datagram the target sends before
    the application speaks again (multi-part answers, retransmits)."""
    writers = []
    n = 0
    for key, body in ctx.P.scan():
        if not key.startswith("client::udp_client::"):
            continue
        o = ctx.origins(body)

        def is_peer_guard(t):
            return any(is_call_term(s_, "Mutex::<T>::lock", "Mutex::lock", "Mutex::<T>::try_lock", "Mutex::<T>::blocking_lock") and "last_peer" in fmt(s_) for s_ in subterms(t)) or \
                (isinstance(t, tuple) and t and t[0] == "var" and len(t) > 2 and body.lty(t[2]).get("adt") == "tokio::sync::MutexGuard" and "SocketAddr" in body.lty(t[2])["args"][0]["s"])
        for c in body.calls():
            if (c.norm or "").endswith("::deref_mut") and c.args and is_peer_guard(o.of_operand(c.args[0])):
                n += 1
                writers.append((ctx.P.owner(key), c.site))
            elif (c.norm or "").endswith(("Mutex::lock", "Mutex::<T>::lock")) and "last_peer" in fmt(o.of_operand(c.args[0])):
                n += 1
    ctx.floor("R15.7", "lock / write sites of the remembered peer in client::udp_client", n, 2)
    bad = [w for w in writers if "udp_to_stream" not in w[0]]
    ctx.ob("R15.7", "last_peer:written-only-by-udp_to_stream", not bad, bad[0][1] if bad else "", "only udp_to_stream takes the remembered peer mutably" if not bad else
           "%s takes the remembered peer mutably (take/replace/assignment): after one reply the address is gone until the application sends again, and further datagrams from the target are dropped" % bad[0][0].split("::")[-1])


def run(ctx):
    from . import effects
    effects.check_property(ctx, "C15")    # R15.E: no operation on shared protocol state outside the reviewed table
    from . import C07, C01
    C07.r4_plumbing(ctx)         # the relay sends to the destination decoded from the request, for the whole life of the association
    C07.r3_atyp_tables(ctx)      # ... and the bytes that follow the destination in the same frame (the first datagrams) are not eaten by the destination decoder
    C01.r13_no_cancel_and_retry_of_framed_reads(ctx)   # a length prefix / datagram body read that is dropped half-way and retried desynchronises the datagram stream
    C07.r1_port_dependence(ctx)    # a domain-typed initial request is resolved through the same cache: the port is the requested one, not a cached one
    from . import C01 as _C01f, C03 as _C03f, C09 as _C09f
    _C01f.r8_single_forwarder(ctx)     # the forwarder passes each queued chunk on unchanged and in order: the length-prefixed datagram stream is neither merged nor reordered on its way to the wire
    _C01f.r3_r4_recv_buffer(ctx)      # every complete frame in the receive buffer is dispatched before the loop waits for more input: the tail of a burst of datagrams does not wait for later traffic
    _C03f.r2_peek_then_consume(ctx)   # the decoder answers `None` only when nothing was consumed: a frame behind a padding frame in the same read is handed out
    _C03f.r3_totality(ctx)            # a frame of any legal size is decoded: a maximum-size datagram travels in a frame of up to 65535 bytes
    _C09f.r3_recv_exits(ctx)
    _C01f.r17_fill_loops_write_at_the_cursor(ctx)   # a length prefix or datagram body cut by a frame boundary is reassembled in order
    r1_prefix_agreement(ctx)
    r3_one_to_one(ctx)
    r6_reply_peer(ctx)
    r7_reply_peer_has_one_writer(ctx)
    r8_every_turn_consumes(ctx)
    r4_r5(ctx)
