"""C09 — a dying session releases everyone waiting on it (structural clauses)."""
from engine.anl.locks import find_cycles, lock_fields
from engine.anl.origin import fmt, subterms
from .common import S, co, call_label, never_err, render_path, is_call_term, const_strs, atomic_method, ATOMIC_WRITE_METHODS

from engine.anl.casts import const_value as const_value_

EXPLANATION = (
    "Static decision of the pairing / lock / flag discipline behind session teardown, over every path of the "
    "exported MIR of the current tree: (R09.1) no acquisition, direct or through any callee, of a lock class whose "
    "guard is still live, per Session role, and an acyclic global lock-order graph; (R09.2) the closed flag has one "
    "writer, Session::close; (R09.3) every exit of the receive loop passes through close()/handle_io_error or the "
    "true edge of is_closed(); (R09.4) what close() does after the swap guard; (R09.5) heartbeat give-up and "
    "heartbeat write failure reach close(); (R09.6) open_stream refuses a closed session before allocating; "
    "(R09.7) no lost wake-up between close_notify.notify_waiters() and the forwarder's wait; (R09.8) "
    "handle_io_error always reaches close(). Not decided: wall-clock promptness."
)
RULE_TEXT = (
    "one obligation per (rule, instance): R09.1 instances are all call sites executed while a lock guard is live "
    "(per role) plus lock-order edges; path rules have one instance per entry/exit pair; an instance is non-trivial "
    "when its verdict needed a dataflow or path query over at least one matched site"
)

ATOMIC_WRITES = ("::store", "::swap", "::fetch_or", "::fetch_and", "::fetch_xor", "::fetch_nand", "::compare_exchange",
                 "::compare_exchange_weak", "::fetch_update")


def r1_locks(ctx):
    P = ctx.P
    lf = lock_fields(P)

    def name(cls):
        return "/".join(lf.get(cls, [cls[:60]]))

    n_sites = 0
    for role in ("client", "server"):
        la = ctx.locks(role)
        bad = {}
        for c in la.conflicts():
            body = P.bodies[c["body"]]
            bad.setdefault((c["body"], c["bb"]), c)
        # every call site executed with a live guard is an instance
        for key, body in P.bodies.items():
            if key in P.inlined_away:
                continue
            h = la.held(key)
            if not h.guards:
                continue
            o = ctx.origins(body)
            for call in body.calls(True):
                if call.bb not in h.reached or call.is_tracing:
                    continue
                held = h.held_at_call(call.bb)
                if not held:
                    continue
                # only calls that can acquire something (local callees or direct acquires) are obligations
                dst = ctx.cg.resolve(body, call.callee)
                direct = [a for a in la.direct[key] if a[0] == call.bb]
                if dst is None and not direct:
                    continue
                if call.generic and call.generic.endswith("Future>::poll") or (call.generic == "std::future::Future::poll"):
                    continue
                n_sites += 1
                inst = "%s|%s|%s" % (role, key, call_label(body, call, o))
                c = bad.get((key, call.bb))
                heldtxt = ", ".join("%s:%s(%s)" % (body.local_name(l), m, name(cl)) for l, m, cl in held)
                if c is None:
                    ctx.ob("R09.1", inst, True, call.site, "holds [%s]; callee acquires none of them" % heldtxt)
                else:
                    ctx.ob("R09.1", inst, False, call.site,
                           "re-acquisition of %s (%s) while its guard `%s` (%s) is live -> the task blocks on itself forever; chain: %s"
                           % (name(c["class"]), c["acq_mode"], c["held_local"], c["held_mode"], " ; ".join(c["via"])),
                           path=c["via"])
    ctx.floor("R09.1", "call sites executed with a live lock guard", n_sites, 20)
    # lock order per Session role (a session object is either a client or a server session for its whole life;
    # the role-insensitive union would join the server-only Settings arm with the client-only shaping path)
    all_edges = set()
    for role in ("client", "server"):
        la = ctx.locks(role)
        edges = la.order_edges()
        all_edges |= set(edges)
        cyc = find_cycles(edges)
        ctx.floor("R09.1", "lock-order edges (%s role)" % role, len(edges), 8)
        if not cyc:
            ctx.ob("R09.1", "%s|lock-order-graph" % role, True, "", "%d held->acquired edges between %d lock classes, acyclic" % (len(edges), len({x for e in edges for x in e})))
        for cy in cyc:
            names = [name(c) for c in cy]
            wit = []
            for i in range(len(cy)):
                wit.append(edges.get((cy[i], cy[(i + 1) % len(cy)]), "?"))
            ctx.ob("R09.1", "%s|lock-order-cycle:%s" % (role, ">".join(sorted(names))), False, "", "lock-order cycle " + " -> ".join(names + names[:1]) + ": two tasks taking the locks in opposite orders block each other for ever", path=wit)
    ctx.extra["lock_order_edges"] = sorted("%s -> %s" % (name(a), name(b)) for (a, b) in all_edges)


def r2_flag_writer(ctx):
    P = ctx.P
    n = 0
    for key, body in P.bodies.items():
        if not key.startswith("session::session::"):
            continue
        o = None
        for call in body.calls(True):
            if atomic_method(call) not in ATOMIC_WRITE_METHODS:
                continue
            o = o or ctx.origins(body)
            recv = o.of_operand(call.args[0]) if call.args else None
            if not (isinstance(recv, tuple) and recv[0] == "var" and recv[1].endswith(".is_closed")):
                continue
            n += 1
            ok = key == S + "close::{closure#0}"
            ctx.ob("R09.2", "%s|%s" % (key, call.callee.split("::")[-1]), ok, call.site,
                   "write to Session.is_closed in Session::close" if ok else
                   "Session.is_closed is written outside Session::close: the flag is then already set when close() runs, so close() "
                   "returns at its swap guard and skips notify_waiters, the stream drain (pending opens, inbound queues) and the transport shutdown")
    ctx.floor("R09.2", "writes to Session.is_closed", n, 1)


def _close_like_blocks(body):
    return [c.bb for c in body.calls(True) if c.callee in (S + "close", S + "handle_io_error")]


def r3_recv_exits(ctx):
    body = co(ctx, "R09.3", S + "recv_loop")
    if body is None:
        return
    cfg = ctx.cfg(body)
    conds = ctx.conds(body)
    via_blocks = set(_close_like_blocks(body))
    via_edges = set()
    pruned = set()
    closed_checks = 0
    for c in conds.all():
        if c.kind == "bool" and is_call_term(c.term, S + "is_closed"):
            via_edges.update(c.edges_for(True))
            closed_checks += 1
        # `?` on a callee that cannot return Err has no Break edge in reality
        if c.kind == "variant" and "Break" in sum(c.by_succ.values(), []) and isinstance(c.term, tuple) and c.term[0] == "call":
            callee = ctx.P.bodies.get(c.term[1])
            if callee is not None and never_err(callee):
                pruned.update(c.edges_for("Break"))
    if not ctx.floor("R09.3", "close()/handle_io_error calls in recv_loop", len(via_blocks), 1):
        return
    rets = body.return_blocks()
    ok, p = cfg.must_pass([0], rets, via_blocks=via_blocks, via_edges=via_edges | pruned)
    if ok:
        ctx.ob("R09.3", "recv_loop:all-exits", True, "", "every path to return passes close()/handle_io_error or the true edge of is_closed() (%d close-like calls, %d flag checks)" % (len(via_blocks), closed_checks))
    else:
        # name the offending exit: last `?`/break edge on the witness path
        exit_desc = "?"
        for b in reversed(p):
            c = conds.at(b)
            if c is not None and c.kind == "variant" and isinstance(c.term, tuple) and c.term[0] == "call":
                exit_desc = "error exit of `%s(..)?`" % c.term[1].split("::")[-1]
                inst = "recv_loop:exit-after:" + c.term[1].split("::")[-1]
                break
        else:
            inst = "recv_loop:exit"
        ctx.ob("R09.3", inst, False, body.blocks[p[-1]]["tspan"] and "%s" % (render_path(body, p)[-1] if render_path(body, p) else ""),
               "the receive loop can return without closing the session (%s): streams, pending opens and the transport stay as they are while nobody reads the connection any more" % exit_desc,
               path=render_path(body, p))


def r4_close_body(ctx):
    body = co(ctx, "R09.4", S + "close")
    if body is None:
        return
    cfg = ctx.cfg(body)
    conds = ctx.conds(body)
    o = ctx.origins(body)
    swap = [c for c in body.calls(True) if atomic_method(c) == "swap"]
    raises = [c for c in body.calls(True) if atomic_method(c) in ("swap", "store", "fetch_or", "compare_exchange")]
    # the early return is on the true edge of the swap result (or of a plain test of the flag)
    guard_edges = []
    for c in conds.all():
        if c.kind == "bool" and is_call_term(c.term, ">::swap"):
            guard_edges = c.edges_for(False)
    if not guard_edges:
        for c in conds.all():
            if c.kind == "bool" and is_call_term(c.term, S + "is_closed", ">::load"):
                guard_edges = c.edges_for(False)
                break
    if not guard_edges or not raises:
        ctx.missing("R09.4", "already-closed guard / write of the closed flag in Session::close")
        return
    start = [e[1] for e in guard_edges]
    rets = body.return_blocks()
    # the flag goes up before the first teardown step: from then on is_closed() is true for everybody else (the pool's reuse path
    # and reaper, open_stream, a second close())
    teardown = [c.bb for c in body.calls(True) if c.callee and (c.callee.endswith(("Notify::notify_waiters", "AsyncWriteExt::shutdown", "Stream::close_with_error")) or (c.callee.endswith("::drain") and "HashMap" in c.callee))]
    if teardown:
        okf, pf = cfg.must_pass([0], teardown, via_blocks=[c.bb for c in raises])
        ctx.ob("R09.4", "close:flag-raised-before-teardown", okf, raises[0].site, "the closed flag is written before any stream is released or the transport touched" if okf else
               "close() starts tearing the session down before it raises the closed flag: while that close is in flight (up to the bounded transport shutdown, longer if a write is stuck) is_closed() is still false — "
               "the pool hands the dying session to a new request and the reaper counts it as live; a concurrent close() runs the teardown a second time", path=None if okf else render_path(body, pf))

    def must(label, pats, detail):
        blocks = [c.bb for c in body.calls(True) if c.callee and c.callee.endswith(pats)]
        if not blocks:
            ctx.ob("R09.4", "close:" + label, False, "", "Session::close never calls %s: %s" % (label, detail))
            return
        ok, p = cfg.must_pass(start, rets, via_blocks=blocks)
        ctx.ob("R09.4", "close:" + label, ok, body.calls_to(*[x.lstrip(":") for x in pats])[0].site if ok else "",
               ("every path after the swap guard calls %s" % label) if ok else ("a path through close() skips %s: %s" % (label, detail)),
               path=None if ok else render_path(body, p))

    must("notify_waiters", ("Notify::notify_waiters",), "the forwarding task is not woken")
    must("writer-shutdown", ("AsyncWriteExt::shutdown",), "the transport is not shut down")
    must("timeout(shutdown)", ("tokio::time::timeout",), "the shutdown is not bounded")
    # per drained stream: close_with_error, notify_synack(Err), remove from the receive map — all in one cycle with drain's next()
    nxt = [c for c in body.calls(True) if c.callee and c.callee.endswith("Iterator>::next")]
    drain = [c for c in body.calls(True) if c.callee and c.callee.endswith("::drain") and "HashMap" in c.callee]
    if not drain or not nxt:
        ctx.ob("R09.4", "close:drain-streams", False, "", "Session::close does not drain the stream table: readers and pending opens of open streams are never released")
        return
    ok_d, p = cfg.must_pass(start, rets, via_blocks=[d.bb for d in drain])
    ctx.ob("R09.4", "close:drain-streams", ok_d, drain[0].site, "stream table drained on every path after the guard" if ok_d else "a path skips the stream-table drain", path=None if ok_d else render_path(body, p))
    loop = cfg.cycle_blocks(nxt[0].bb)
    # the loop body proper: blocks of the cycle reached from the `Some` edge
    for label, pat, why in (("close_with_error", "Stream::close_with_error", "writers on the stream are not failed"),
                            ("notify_synack(Err)", "Stream::notify_synack", "a pending open on the stream is never resolved"),
                            ("receive_map.remove", "::remove", "the inbound queue of the stream stays open, its reader never sees EOF")):
        cs = [c for c in body.calls(True) if c.callee and c.callee.endswith(pat) and c.bb in loop]
        if not cs:
            ctx.ob("R09.4", "close:per-stream:" + label, False, "", "the drain loop of close() does not call %s: %s" % (label, why))
            continue
        # every trip round the loop (from next()'s Some edge back to next()) passes the call
        some_edges = []
        for c in conds.all():
            if c.kind == "variant" and is_call_term(c.term, "Iterator>::next") and c.block in loop:
                some_edges = c.edges_for("Some")
        starts = [e[1] for e in some_edges]
        ok, p = cfg.must_pass(starts, [nxt[0].bb], via_blocks=[c.bb for c in cs])
        det = "called on every iteration of the drain loop"
        if ok and label.startswith("notify_synack"):
            arg = o.of_operand(cs[0].args[1]) if len(cs[0].args) > 1 else None
            is_err = isinstance(arg, tuple) and arg[0] == "agg" and arg[2] == "Err"
            ok = is_err
            det = "resolves the pending open with Err" if is_err else "notify_synack is not given an Err value: %s" % fmt(arg)
        ctx.ob("R09.4", "close:per-stream:" + label, ok, cs[0].site, det if ok else (det if not ok and label.startswith("notify") else "an iteration of the drain loop can skip %s: %s" % (label, why)),
               path=None if ok else (render_path(body, p) if p else None))


def _spawned_bodies_of(ctx, parent_key):
    return [e.dst for e in ctx.cg.out.get(parent_key, []) if e.kind == "spawn"]


def r5_heartbeat(ctx):
    parent = S + "start_client::{closure#0}"
    if ctx.body("R09.5", parent) is None:
        return
    hb = None
    for k in _spawned_bodies_of(ctx, parent):
        b = ctx.P.bodies[k]
        if b.calls_to("tokio::time::interval") or any(c.callee and c.callee.endswith("Interval::tick") for c in b.calls(True)):
            hb = b
    if hb is None:
        ctx.missing("R09.5", "heartbeat task (spawned body of start_client that ticks an interval)")
        return
    cfg = ctx.cfg(hb)
    conds = ctx.conds(hb)
    closes = [c.bb for c in hb.calls(True) if c.callee == S + "close"]
    rets = hb.return_blocks()
    # (a) give-up: the true edge of `elapsed > timeout` must pass close before return
    give = []
    werr = []
    for c in conds.all():
        if c.kind == "bool" and isinstance(c.term, tuple) and c.term[0] == "call" and c.term[1].endswith(("PartialOrd>::lt", "PartialOrd::lt")):
            if any("timeout" in v for v in _vars(c.term)):
                give = c.edges_for(True)
        if c.kind == "variant" and is_call_term(c.term, S + "write_control_frame", S + "write_frame") and "Err" in sum(c.by_succ.values(), []):
            werr = c.edges_for("Err")
    for label, edges, why in (("give-up", give, "a silent peer is detected but the session is left open"),
                              ("write-failure", werr, "a failed keep-alive write leaves the session open")):
        if not edges:
            ctx.missing("R09.5", "heartbeat %s branch" % label)
            continue
        ok, p = cfg.must_pass([e[1] for e in edges], rets, via_blocks=closes)
        ctx.ob("R09.5", "heartbeat:" + label, ok, "", "the %s branch reaches Session::close on every path" % label if ok else why,
               path=None if ok else render_path(hb, p))
    ctx.extra["heartbeat_body"] = hb.name


def _vars(t):
    return [s[1] for s in subterms(t) if isinstance(s, tuple) and s and s[0] == "var"]


def r6_open_refuses_closed(ctx):
    body = co(ctx, "R09.6", S + "open_stream")
    if body is None:
        return
    cfg = ctx.cfg(body)
    conds = ctx.conds(body)
    edges_false = []
    for c in conds.all():
        if c.kind == "bool" and is_call_term(c.term, S + "is_closed"):
            edges_false += c.edges_for(False)
            true_succ = c.succs_for(True)
    if not edges_false:
        ctx.ob("R09.6", "open_stream:closed-check", False, "", "open_stream does not test is_closed(): an open on a dead session allocates a stream and waits")
        return
    effects = [c for c in body.calls(True) if c.callee and (c.callee.endswith(("::fetch_add", "::insert", S + "write_frame")) or "unbounded_channel" in c.callee)]
    bad = [c for c in effects if not cfg.edges_dominate(edges_false, c.bb)]
    ctx.ob("R09.6", "open_stream:closed-check", not bad, effects[0].site if effects else "",
           "%d allocating/sending calls are all dominated by the false edge of is_closed()" % len(effects) if not bad else
           "%s runs on a path that has not passed the is_closed() check" % bad[0].callee)
    # the true edge returns Err(SessionClosed) without any such effect
    reach = cfg.reach(true_succ)
    bad2 = [c for c in effects if c.bb in reach]
    ctx.ob("R09.6", "open_stream:closed-branch-inert", not bad2, "", "the closed branch allocates nothing and sends nothing" if not bad2 else "the closed branch still reaches %s" % bad2[0].callee)


def r7_lost_wakeup(ctx):
    """close_notify is signalled with notify_waiters (no permit): a waiter must create+enable its Notified before
    re-checking the flag, and check the flag before awaiting; otherwise a close() that lands while the waiter is busy
    elsewhere is missed."""
    P = ctx.P
    n = 0
    for key, body in P.bodies.items():
        cs = [c for c in body.calls(True) if c.callee and c.callee.endswith("Notify::notified")]
        if not cs:
            continue
        o = ctx.origins(body)
        cfg = ctx.cfg(body)
        conds = ctx.conds(body)
        for c in cs:
            recv = o.of_operand(c.args[0])
            if "close_notify" not in fmt(recv):
                continue
            n += 1
            # owner function (closures of select! are nested in the waiter)
            owner = key
            en = [x for x in body.calls(True) if x.norm.endswith("Notified::enable")]
            # between creating the future and the await there must be an enable() and then an is_closed() check
            flag_after = False
            # where the future is finally waited on: the select!/await whose operands include this notified()
            waits = []
            for x in body.calls(True):
                if x.bb == c.bb or not (x.norm.endswith("future::poll_fn") or x.norm.endswith("Future::poll") or x.norm.endswith("IntoFuture::into_future")):
                    continue
                ts = []
                for a in x.args:
                    front = [o.of_operand(a)]
                    seen_l = set()
                    for _ in range(4):      # look through pinned / tuple-packed locals (tokio::pin!, select!'s `futures`)
                        nxt = []
                        for t0 in front:
                            ts.append(t0)
                            for s in subterms(t0):
                                if isinstance(s, tuple) and s and s[0] == "var" and len(s) > 2 and s[2] not in seen_l:
                                    seen_l.add(s[2])
                                    nxt.append(o.init_of(s[2]))
                        front = nxt
                if any(isinstance(s, tuple) and s and s[0] == "call" and s[2] == c.bb and s[1].endswith("Notify::notified") for t in ts for s in subterms(t)):
                    waits.append(x.bb)
            checks = [cc.block for cc in conds.all() if cc.kind == "bool" and is_call_term(cc.term, S + "is_closed")]
            for e in en:
                if cfg.dominates(c.bb, e.bb) and waits and checks:
                    okp, _p = cfg.must_pass(cfg.succ(e.bb), waits, via_blocks=checks)
                    if okp:
                        flag_after = True
            in_loop = cfg.in_cycle(c.bb)
            ok = bool(en) and flag_after
            ctx.ob("R09.7", "%s|notified(close_notify)" % owner, ok, c.site,
                   "Notified is created and enabled before the closed flag is re-checked" if ok else
                   "the waiter creates a fresh `notified()` %s without enable()+flag re-check: `notify_waiters()` stores no permit, so a close() that runs while this task is "
                   "between two waits (e.g. inside write_data_frame) is lost and the task, which owns an Arc<Session>, waits for ever unless another chunk arrives" % ("on every loop iteration" if in_loop else ""))
    ctx.floor("R09.7", "waiters on close_notify", n, 1)


def r8_io_error_closes(ctx):
    body = co(ctx, "R09.8", S + "handle_io_error")
    if body is None:
        return
    cfg = ctx.cfg(body)
    closes = [c.bb for c in body.calls(True) if c.callee == S + "close"]
    ok, p = cfg.must_pass([0], body.return_blocks(), via_blocks=closes)
    ctx.ob("R09.8", "handle_io_error:reaches-close", ok and bool(closes), "", "every path calls Session::close" if ok and closes else "handle_io_error can return without closing the session",
           path=None if ok else render_path(body, p))


def r9_write_errors_funnel(ctx):
    """every failed transport write/flush of the session write path closes the session (through handle_io_error) before the
    error is returned"""
    body = co(ctx, "R09.9", S + "write_with_padding")
    if body is None:
        return
    cfg, conds = ctx.cfg(body), ctx.conds(body)
    funnel = [c.bb for c in body.calls(True) if c.callee in (S + "handle_io_error", S + "close")]
    n = 0
    for c in conds.all():
        if c.kind != "variant" or not is_call_term(c.term, "AsyncWriteExt::write_all", "AsyncWriteExt::flush", "AsyncWriteExt::write", "AsyncWriteExt::write_buf"):
            continue
        vals = sum(c.by_succ.values(), [])
        bad_val = "Err" if "Err" in vals else ("Break" if "Break" in vals else None)
        if bad_val is None:
            continue
        n += 1
        ok, p = cfg.must_pass(c.succs_for(bad_val), body.return_blocks(), via_blocks=funnel)
        ctx.ob("R09.9", "write_with_padding:%s-error-closes#%d" % (c.term[1].split("::")[-1], n), ok, "src/session/session.rs:%s" % body.blocks[c.block]["tspan"]["line"],
               "a failed %s reaches handle_io_error before returning" % c.term[1].split("::")[-1] if ok else
               "a failed transport %s is returned to the caller (`?`) without going through handle_io_error/close(): the failing caller gets its error but the session stays open — readers, pending opens and the "
               "forwarder are never released" % c.term[1].split("::")[-1], path=None if ok else render_path(body, p)[-8:])
    ctx.floor("R09.9", "error edges of transport writes in write_with_padding", n, 11)


def r5b_giveup_goes_straight_to_close(ctx):
    """once the monitor has decided that the peer is dead it must not wait on that peer: no frame write between the give-up
    decision and close()"""
    parent = S + "start_client::{closure#0}"
    hb = None
    for k in _spawned_bodies_of(ctx, parent):
        b = ctx.P.bodies[k]
        if any(c.callee and c.callee.endswith("Interval::tick") for c in b.calls(True)):
            hb = b
    if hb is None:
        return
    cfg, conds = ctx.cfg(hb), ctx.conds(hb)
    give = []
    for c in conds.all():
        if c.kind == "bool" and isinstance(c.term, tuple) and c.term[0] == "call" and c.term[1].endswith(("PartialOrd>::lt", "PartialOrd::lt")) and any("timeout" in v for v in _vars(c.term)):
            give = c.edges_for(True)
    closes = [c.bb for c in hb.calls(True) if c.callee == S + "close"]
    writes = [c for c in hb.calls(True) if c.callee in (S + "write_frame", S + "write_control_frame", S + "write_data_frame")]
    if not give or not closes:
        return
    region = cfg.reach([e[1] for e in give], stop_at=closes)
    bad = [w for w in writes if w.bb in region]
    ctx.ob("R09.5", "heartbeat:give-up-does-not-wait-on-the-dead-peer", not bad, bad[0].site if bad else "",
           "nothing is written to the transport between the give-up decision and close()" if not bad else
           "after deciding that the peer is dead the monitor first awaits a frame write (%s) with no deadline: if the transport is exerting back-pressure (the usual state of a stalled peer) the write never completes, close() "
           "is never reached and nobody is released" % bad[0].site)


def r10_constructor_siblings(ctx):
    """sibling cross-check: Session::new_client and Session::new_server start a session in the same state — open, unbuffered,
    packet counter 0, empty tables, stream ids from 1 — and differ only in the role fields (is_client, send_padding) and the
    keep-alive monitor, which only the client has"""
    from engine.anl.origin import strip_bb
    vals = {}
    for fn in ("new_client", "new_server"):
        b = ctx.body("R09.10", S + fn)
        if b is None:
            return
        o = ctx.origins(b)
        for bi in sorted(b.reachable()):
            for st in b.blocks[bi]["stmts"]:
                if st["s"] == "assign" and st["rv"]["r"] == "aggregate" and str(st["rv"]["kind"].get("adt", "")).endswith("session::Session") and st["rv"]["kind"].get("fields"):
                    vals[fn] = {n: o.of_operand(op) for n, op in zip(st["rv"]["kind"]["fields"], st["rv"]["ops"])}
    if len(vals) != 2:
        ctx.missing("R09.10", "Session{..} literal in new_client / new_server")
        return
    role = {"is_client", "send_padding", "heartbeat"}
    fields = sorted(set(vals["new_client"]) | set(vals["new_server"]))
    ctx.floor("R09.10", "fields of Session compared between the two constructors", len(fields), 15)
    for f in fields:
        if f in role:
            continue
        a, b_ = vals["new_client"].get(f), vals["new_server"].get(f)
        import re as _re
        same = _re.sub(r"@bb\d+", "", fmt(a)) == _re.sub(r"@bb\d+", "", fmt(b_)) if a is not None and b_ is not None else False
        ctx.ob("R09.10", "constructors-agree:%s" % f, same, "", "both constructors initialise `%s` alike" % f if same else
               "Session::new_client initialises `%s` with `%s`, Session::new_server with `%s`: the two roles start from different states in a field that is not a role field" % (f, fmt(a)[:50], fmt(b_)[:50]))
    okrole = const_value_(vals["new_client"].get("is_client")) == 1 and const_value_(vals["new_server"].get("is_client")) == 0
    ctx.ob("R09.10", "constructors:role-flag", okrole, "", "is_client is true in new_client and false in new_server" if okrole else "is_client is not the constant true / false in the two constructors")


def r11_only_write_locks_across_transport_writes(ctx):
    """while a task waits for the transport to take its bytes it holds the two locks that order writers (Session.buffer, taken by
    its caller, and Session.writer) and nothing else: a guard of any other session lock kept across that wait blocks the receive
    loop as soon as it needs that lock (a padding push needs `padding` exclusively), and a receive loop that is parked never sees
    the Alert / EOF that should end the session"""
    from engine.anl.locks import Held, lock_fields
    body = co(ctx, "R09.11", S + "write_with_padding")
    if body is None:
        return
    names = {cls: n[0] for cls, n in lock_fields(ctx.P).items()}
    may = Held(body, must=False)
    ws = [c for c in body.calls() if (c.norm or "").endswith(("AsyncWriteExt::write_all", "AsyncWriteExt::flush", "AsyncWriteExt::write", "AsyncWriteExt::write_buf"))]
    if not ctx.floor("R09.11", "transport writes in write_with_padding", len(ws), 4):
        return
    bad = None
    for w in ws:
        held = {names.get(cls, cls) for (l, m, cls) in may.held_at_call(w.bb)}
        extra = sorted(h for h in held if h not in ("Session.writer", "Session.buffer"))
        if extra and bad is None:
            bad = (w, extra)
    ctx.ob("R09.11", "write_with_padding:only-writer-locks-held-across-transport-writes", bad is None, (bad[0] if bad else ws[0]).site,
           "at each of the %d transport writes only Session.writer (and the caller's Session.buffer) can be held" % len(ws) if bad is None else
           "a guard of %s is still alive at a transport write: when that write is stuck on a peer that stopped reading, the receive loop blocks on the same lock at the next frame that needs it and never processes "
           "the Alert / EOF that follows — the session is never closed and nobody is released" % bad[1])


def r12_close_is_never_cancelled(ctx):
    """close() sets the closed flag first and does the rest (drain the streams, shut the transport down) afterwards, and it is
    one-shot on that flag: a caller that drops its future part-way (a timeout around it, a select! branch) leaves a session that
    says it is closed, whose transport stays open for good and that no later close() can finish"""
    from .C11 import _future_calls
    n = 0
    for key, body in ctx.P.scan():
        o = None
        for c in body.calls():
            nm = c.norm or ""
            if nm.endswith(("time::timeout", "time::timeout_at")) and len(c.args) > 1:
                o = o or ctx.origins(body)
                terms = [o.of_operand(c.args[1])]
                what = "time::timeout"
            elif nm.endswith("future::poll_fn") and c.args:
                o = o or ctx.origins(body)
                t = o.of_operand(c.args[0])
                terms = [t] + [o.init_of(s_[2]) for s_ in subterms(t) if isinstance(s_, tuple) and s_ and s_[0] == "var" and len(s_) > 2]
                what = "select!"
            else:
                continue
            n += 1
            reg = [s_ for tt in terms for s_ in _future_calls(tt) if is_call_term(s_, "SessionPool::add_idle_session")]
            if reg:
                ctx.ob("R09.12", "%s|%s#%d:registration" % (key.split("::{closure")[0], what, n), False, c.site,
                       "the registration of a session in the pool (add_idle_session) is raced against %s: when the pool lock is busy for longer (a reaper pass waiting for a slow close), the new session is used "
                       "but never enters the idle map — it is never reused and never reaped, and stays open for the life of the process" % what)
            hit = [s_ for tt in terms for s_ in _future_calls(tt) if is_call_term(s_, "Session::close")]
            ctx.ob("R09.12", "%s|%s#%d" % (key.split("::{closure")[0], what, n), not hit, c.site, "the raced future is not Session::close()" if not hit else
                   "Session::close() is raced against %s: close() flags the session closed before it waits for the writer, so a cancelled close() leaves a session that reports closed, is dropped by its owner, "
                   "and whose TLS connection is never shut down (close() is one-shot on the flag; nothing can finish the job)" % what)
    ctx.floor("R09.12", "timeout / select! sites examined", n, 5)


def r13_dispatcher_never_waits_for_a_consumer(ctx):
    """a stream's consumer holds `Stream.reader` while it is parked in read(), waiting for the dispatcher to deliver data or to
    drop the sender (end-of-stream).  The receive task therefore never queues for that mutex — anywhere below recv_loop /
    handle_frame / close: it would wait for the consumer, which waits for it, and no further frame of the session (data of other
    streams, keep-alives, the Alert) is ever processed"""
    names = {cls: n[0] for cls, n in lock_fields(ctx.P).items()}
    n = 0
    for role in ("client", "server"):
        la = ctx.locks(role)
        for fn in ("recv_loop", "handle_frame", "close", "handle_io_error"):
            key = S + fn + "::{closure#0}"
            if key not in ctx.P.bodies:
                continue
            n += 1
            hit = [(cls, mode, chain) for (cls, mode), chain in la.summary.get(key, {}).items() if names.get(cls) == "Stream.reader"]
            ctx.ob("R09.13", "%s|%s:never-queues-for-Stream.reader" % (role, fn), not hit, "",
                   "nothing reachable from %s acquires Stream.reader" % fn if not hit else
                   "%s can queue for Stream.reader (%s): a consumer parked in read() holds that mutex until the receive task delivers data or drops the sender, so the two wait for each other and the session "
                   "processes no further frame" % (fn, " ; ".join(hit[0][2])[:260]), path=None if not hit else hit[0][2])
    ctx.floor("R09.13", "receive-side functions examined for Stream.reader", n, 6)


def run(ctx):
    r13_dispatcher_never_waits_for_a_consumer(ctx)
    r12_close_is_never_cancelled(ctx)
    from . import C20 as _C20e
    _C20e.r10_read_loops(ctx, _C20e.input_reachable(ctx))   # end of the connection ends the receive loop (and so closes the session) even in the middle of a frame
    from . import C11 as _C11q
    _C11q.r6_every_write_under_buffer_lock(ctx)   # writers queue on Session.buffer, so close() is the only waiter on Session.writer and gets it as soon as the write in flight ends
    r11_only_write_locks_across_transport_writes(ctx)
    from . import C20 as _C20p
    _C20p.r17_panicking_index_methods(ctx, _C20p.input_reachable(ctx))   # the Alert / error text of the peer cannot panic the task that is about to release everybody
    from . import C11 as _C11o
    _C11o.r3_open_order(ctx)      # a stream is in the tables before its SYN is written: a close() that lands during that write drains it like any other
    r10_constructor_siblings(ctx)
    from . import effects
    effects.check_property(ctx, "C09")    # R09.E: no operation on shared protocol state outside the reviewed table
    from . import C08
    C08.r2_single_sender_owner(ctx)   # close() drops *the* inbound sender of every stream: a second owner (a cached clone) keeps a blocked reader from ever seeing end-of-stream
    r9_write_errors_funnel(ctx)
    r5b_giveup_goes_straight_to_close(ctx)
    r1_locks(ctx)
    r2_flag_writer(ctx)
    r3_recv_exits(ctx)
    r4_close_body(ctx)
    r5_heartbeat(ctx)
    r6_open_refuses_closed(ctx)
    r7_lost_wakeup(ctx)
    r8_io_error_closes(ctx)
