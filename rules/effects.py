"""Effect tables: which state-changing operations each function (and each arm of the frame dispatcher) performs on the
protocol-relevant state, and who may call the handful of functions that end or publish things.

An *effect* is a call whose receiver resolves to shared protocol state: data behind one of the crate's locks (identified by the
lock's struct field, e.g. `Session.streams`), an atomic / channel / Notify field of `self`, the transport or a socket, a task
handle. Local scratch state (a Vec built in the function, a counter local) is not an effect. Effects are collected per *owner*
function — closures and async blocks belong to the function that contains them, helper functions that are not in the rules'
vocabulary are spliced into their callers by the inliner first — so the table does not change under extraction / inlining of
helpers, renaming of locals, or re-shaping of control flow.

The tables in rules/effects_baseline.json were produced from the pinned tree (with the repairs of DESIGN 11.2) and read through
by hand; they are the reference (guidance: "the instances confirmed on today's tree are the reference for any later change").
The rule is one-sided: an effect that is *not in the table* is reported (a new way of touching the state from that place);
missing effects are the business of the must-pass-through rules of each property.
"""
import json
import re
import os

from engine.anl.locks import guard_info, lock_fields
from engine.anl.origin import subterms, fmt

HERE = os.path.dirname(os.path.abspath(__file__))
TABLE = os.path.join(HERE, "effects_baseline.json")

MUTATORS = {"insert", "remove", "clear", "push", "pop", "drain", "retain", "extend", "extend_from_slice", "truncate", "split_off", "take", "replace", "swap", "append", "entry",
            "get_mut", "iter_mut", "values_mut", "push_back", "push_front", "pop_front", "pop_back", "pop_last", "pop_first", "remove_entry", "get_or_insert", "get_or_insert_with",
            "insert_with", "swap_remove", "dedup", "sort", "reserve", "resize", "set_len", "split_to", "advance", "put_slice", "put_u8", "put_u16", "put_u32", "unsplit", "as_mut"}
ATOMIC_W = {"store", "swap", "fetch_or", "fetch_and", "fetch_xor", "fetch_nand", "fetch_add", "fetch_sub", "compare_exchange", "compare_exchange_weak", "fetch_update", "fetch_max", "fetch_min"}
IO_METHODS = {"read", "read_exact", "read_buf", "read_to_end", "read_u8", "read_u16", "write", "write_all", "write_buf", "write_all_buf", "flush", "shutdown", "connect", "accept", "bind",
              "send_to", "recv_from", "send", "recv", "try_recv", "try_send", "try_recv_from", "peek", "poll_read", "poll_write", "poll_flush", "poll_shutdown", "lookup_host", "lookup_ip",
              "set_nodelay", "into_split", "split"}
IO_TYPES = ("TcpStream", "UdpSocket", "TlsStream", "ReadHalf", "WriteHalf", "TcpListener", "AsyncWrite", "AsyncRead", "OwnedReadHalf", "OwnedWriteHalf", "TlsAcceptor", "TlsConnector", "DuplexStream")
CHAN_TYPES = ("UnboundedSender", "UnboundedReceiver", "mpsc::Sender", "mpsc::Receiver", "oneshot::Sender", "oneshot::Receiver", "broadcast::", "watch::")


def _ty_str(ty):
    return ty.get("s", "") if isinstance(ty, dict) else ""


def _strip(ty):
    for _ in range(5):
        if isinstance(ty, dict) and ty.get("k") in ("ref", "ptr") and "inner" in ty:
            ty = ty["inner"]
        else:
            break
    return ty


def static_label(P, path):
    """a name for a `static` that survives renaming it or moving it between a function body and its module: the module that
    defines it and its type (two statics of one type in one module fall back to their names)"""
    path = str(path)
    st = P.statics.get(path)
    if st is None:
        cands = [k for k in P.statics if k.endswith("::" + path.split("::")[-1])]
        st = P.statics.get(cands[0]) if len(cands) == 1 else None
        path = cands[0] if len(cands) == 1 else path
    if st is None:
        return path.split("::")[-1]
    mod = "::".join(path.split("::")[:2])
    ty = re.sub(r"\b(?:[a-z_][a-z0-9_]*::)+", "", st["ty"]["s"])[:60]
    same = [k for k, v in P.statics.items() if "::".join(k.split("::")[:2]) == mod and v["ty"]["s"] == st["ty"]["s"] and "__CALLSITE" not in k]
    return "%s#%s" % (mod, ty) if len(same) == 1 else path.split("::")[-1]


class Effects:
    def __init__(self, ctx):
        self.ctx = ctx
        self.names = {cls: n[0] for cls, n in lock_fields(ctx.P).items()}
        self._direct = {}
        self._callees = {}

    def _target(self, body, o, op):
        """a stable name for the shared state an operand denotes, or None for local / unknown state"""
        if op["o"] not in ("copy", "move"):
            if op["o"] == "const" and "static" in op.get("c", {}) and "__CALLSITE" not in str(op["c"]["static"]):
                return "static " + static_label(self.ctx.P, op["c"]["static"])
            return None
        l = op["place"]["local"]
        ty = _strip(body.lty(l))
        gi = guard_info(ty)
        if gi:
            return self.names.get(gi[1], "lock<%s>" % gi[1])
        t = o.of_operand(op)
        for depth in range(3):
            if isinstance(t, tuple) and t and t[0] == "var":
                nm = str(t[1])
                if nm.startswith("self."):
                    return nm
                if len(t) > 2:
                    lt = _strip(body.lty(t[2]))
                    gi = guard_info(lt)
                    if gi:
                        return self.names.get(gi[1], "lock<%s>" % gi[1])
                    init = o.init_of(t[2])
                    if init != t:
                        t = init
                        continue
                break
            break
        for s_ in subterms(t):
            if isinstance(s_, tuple) and s_ and s_[0] == "static":
                return "static " + static_label(self.ctx.P, s_[1])
            if isinstance(s_, tuple) and s_ and s_[0] == "var" and str(s_[1]).startswith("self."):
                return str(s_[1])
            if isinstance(s_, tuple) and s_ and s_[0] == "var" and len(s_) > 2:
                gi = guard_info(_strip(body.lty(s_[2])))
                if gi:
                    return self.names.get(gi[1], "lock<%s>" % gi[1])
        s = _ty_str(ty)
        for k in IO_TYPES:
            if k in s:
                return "io<%s>" % k
        for k in CHAN_TYPES:
            if k in s:
                return "chan<%s>" % k.split("::")[-1]
        if "JoinHandle" in s or "AbortHandle" in s:
            return "task-handle"
        if "Notify" in s:
            return "notify"
        return None

    @staticmethod
    def _canon(e):
        """`self.streams`, `Session.streams` and a guard of that lock are one target: the field"""
        if "@" in e or ":" in e:
            head, sep, tg = e.rpartition("@") if "@" in e else e.rpartition(":")
            for pre in ("self.",):
                if tg.startswith(pre):
                    tg = tg[len(pre):]
            if "." in tg and not tg.startswith(("io<", "chan<", "lock<", "static ")):
                first, rest = tg.split(".", 1)
                if first[:1].isupper():
                    tg = rest
            return head + sep + tg
        return e

    def of_body(self, body, region=None):
        return {self._canon(e) for e in self._of_body(body, region)}

    def _of_body(self, body, region=None):
        """set of effect strings of one body (optionally only calls in the given blocks)"""
        o = self.ctx.origins(body)
        out = set()
        for c in body.calls():
            if region is not None and c.bb not in region:
                continue
            nm = c.norm or ""
            last = nm.split("::")[-1]
            if nm.endswith(("tokio::spawn", "task::spawn", "task::spawn_blocking")):
                out.add("task:spawn")
                continue
            if last in ("abort", "abort_all") and ("JoinHandle" in nm or "AbortHandle" in nm or "JoinSet" in nm):
                out.add("task:abort")
                continue
            if "Notify::" in nm and last in ("notify_waiters", "notify_one", "notify_last"):
                tg = self._target(body, o, c.args[0]) if c.args else None
                out.add("notify:%s@%s" % (last, tg or "?"))
                continue
            if nm.endswith(("time::timeout", "time::timeout_at", "time::sleep", "time::sleep_until", "time::interval", "time::interval_at")):
                out.add("time:%s" % last)       # a deadline / periodic wake-up: a new way for this code to give up or act on its own
                continue
            if not c.args:
                continue
            if ("RwLock" in nm or "Mutex" in nm) and last in ("write", "lock", "try_write", "try_lock", "blocking_write", "blocking_lock", "read", "try_read"):
                tg = self._target(body, o, c.args[0])
                if tg is None:
                    # lock on a field of self: name it by its class
                    from engine.anl.locks import lock_class_of_arg
                    cls = lock_class_of_arg(body, c.args[0])
                    tg = self.names.get(cls)
                if tg and last.startswith("try_"):
                    out.add("trylock:%s" % tg)    # an acquisition that can fail: whoever calls it has a branch for "busy", which is a new behaviour under contention
                if tg and "read" not in last:
                    out.add("lockW:%s" % tg)      # shared (read) acquisitions change nothing and are not effects
                continue
            if "Atomic" in nm and last in ATOMIC_W:
                tg = self._target(body, o, c.args[0])
                if tg:
                    out.add("atomic:%s@%s" % (last, tg))
                continue
            if last in IO_METHODS and any(x in nm for x in ("AsyncReadExt", "AsyncWriteExt", "AsyncWrite", "AsyncRead", "TcpStream", "UdpSocket", "TcpListener", "TlsAcceptor", "TlsConnector",
                                                             "mpsc::", "oneshot::", "net::lookup_host", "io::split", "AsyncResolver")):
                tg = self._target(body, o, c.args[0])
                kind = "chan" if any(x in nm for x in ("mpsc::", "oneshot::")) else "io"
                out.add("%s:%s@%s" % (kind, last, tg or "?"))
                continue
            if last in MUTATORS:
                tg = self._target(body, o, c.args[0])
                if tg and not tg.startswith(("io<", "chan<")):
                    out.add("mut:%s@%s" % (last, tg))
                continue
        # process-wide state the region refers to at all (a static read is how per-object state silently becomes shared)
        for bi in sorted(body.reachable()):
            if region is not None and bi not in region:
                continue
            blk = body.blocks[bi]
            ops = []
            for st in blk["stmts"]:
                if st["s"] == "assign":
                    rv = st["rv"]
                    for k in ("op", "a", "b"):
                        if isinstance(rv.get(k), dict):
                            ops.append(rv[k])
                    ops += rv.get("ops", [])
            t = blk["term"]
            if t["t"] == "call":
                ops += t["args"]
            for op in ops:
                if isinstance(op, dict) and op.get("o") == "const" and "static" in op.get("c", {}) and "__CALLSITE" not in str(op["c"]["static"]):
                    out.add("static:%s" % static_label(self.ctx.P, op["c"]["static"]))
        # stores through guards / self fields
        from .common import stores_through
        for bi, line, base, val, place in stores_through(body, o):
            if region is not None and bi not in region:
                continue
            tg = None
            if isinstance(base, tuple) and base and base[0] == "var":
                if str(base[1]).startswith("self."):
                    tg = str(base[1])
                elif len(base) > 2:
                    gi = guard_info(_strip(body.lty(base[2])))
                    if gi:
                        tg = self.names.get(gi[1], "lock<%s>" % gi[1])
            if tg is None:
                for s_ in subterms(base):
                    if isinstance(s_, tuple) and s_ and s_[0] == "static":
                        tg = "static " + static_label(self.ctx.P, s_[1])
            if tg:
                out.add("store@%s" % tg)
        return out

    def direct(self, owner):
        """effects of a function including its closures / async blocks and the tasks it spawns from inline blocks"""
        if owner not in self._direct:
            out = set()
            for key, body in self.ctx.P.scan():
                if self.ctx.P.owner(key) == owner:
                    out |= self.of_body(body)
            self._direct[owner] = out
        return self._direct[owner]

    def _owner_callees(self, owner):
        if owner not in self._callees:
            out = set()
            for key, body in self.ctx.P.scan():
                if self.ctx.P.owner(key) == owner:
                    for e in self.ctx.cg.out.get(key, []):
                        if e.kind in ("call", "async", "await") and self.ctx.P.owner(e.dst) != owner:
                            out.add(self.ctx.P.owner(e.dst))
            self._callees[owner] = out
        return self._callees[owner]

    def _see_through(self, ow, depth=0):
        """a pure forwarder (no effect of its own, one crate callee) stands for what it forwards to"""
        if depth < 3 and not self.direct(ow):
            cs = self._owner_callees(ow)
            if len(cs) == 1:
                return self._see_through(next(iter(cs)), depth + 1)
        return ow

    def _callee_owners(self, body, region=None):
        out = set()
        for e in self.ctx.cg.out.get(body.name, []):
            if e.kind not in ("call", "async", "await") or (region is not None and e.bb not in region):
                continue
            ow = self.ctx.P.owner(e.dst)
            if ow != self.ctx.P.owner(body.name):
                out.add(self._see_through(ow))
        return out

    def of_owner(self, owner):
        """direct effects plus those of the crate functions it calls directly (one level): moving code between a function and
        a helper it calls does not change the set, a call to a function from another layer does"""
        out = set(self.direct(owner))
        for key, body in self.ctx.P.scan():
            if self.ctx.P.owner(key) == owner:
                for ow in self._callee_owners(body):
                    out |= self.direct(ow)
        return out

    def of_region(self, body, region):
        out = set(self.of_body(body, region))
        for ow in self._callee_owners(body, region):
            out |= self.direct(ow)
        return out


def load_table():
    if not os.path.isfile(TABLE):
        return None
    with open(TABLE) as fh:
        return json.load(fh)


def _target_of(e):
    return e.rpartition("@")[2] if "@" in e else None


def _known_target(tab, e):
    """an operation on a field that did not exist on the reviewed tree (a new counter, a new cache) is new state, not a new way of
    touching the protocol state the properties are about: its *misuse* is caught by the rules on the old state (e.g. a cached
    clone of a stream's sender by R08.2)"""
    tg = _target_of(e)
    return tg is None or tg == "?" or tg in tab.get("targets", ()) or tg.startswith(("io<", "chan<", "lock<"))


def check_regions(ctx, rule, owners, arms=()):
    """obligation per region: its effects are a subset of the reviewed table"""
    tab = load_table()
    if tab is None:
        ctx.missing(rule, "rules/effects_baseline.json")
        return
    ef = Effects(ctx)
    for owner in owners:
        if owner not in ctx.P.bodies and not any(ctx.P.owner(k) == owner for k in ctx.P.bodies):
            continue        # the function is gone: its code now lives in its callers, whose own tables (one call level deep) cover it
        cur = ef.of_owner(owner)
        ref = set(tab["owners"].get(owner, []))
        if owner not in tab["owners"]:
            ctx.missing(rule, "effect table entry for %s" % owner)
            continue
        new = sorted(e for e in cur - ref if _known_target(tab, e))
        ctx.ob(rule, "%s|effects-within-reviewed-table" % owner, not new, "", "%d effects on shared state, all in the reviewed table" % len(cur) if not new else
               "%s now performs `%s` — an operation on shared protocol state that this function did not perform on the reviewed tree (table: rules/effects_baseline.json); it must be shown not to break the property "
               "before the table is extended" % (owner.split("::")[-1], "`, `".join(new[:4])))
    if arms:
        from .common import co, S
        from . import C02
        body = co(ctx, rule, S + "handle_frame")
        if body is None:
            return
        sw, regions = C02.arm_regions(ctx, body)
        for arm in arms:
            if not regions or arm not in regions:
                ctx.missing(rule, "%s arm of handle_frame" % arm)
                continue
            s_, own, allr = regions[arm]
            cur = ef.of_region(body, own)
            ref = set(tab["arms"].get(arm, []))
            new = sorted(e for e in cur - ref if _known_target(tab, e))
            ctx.ob(rule, "handle_frame[%s]|effects-within-reviewed-table" % arm, not new, "", "%d effects, all in the reviewed table" % len(cur) if not new else
                   "the %s arm of the frame dispatcher now performs `%s`, which it did not on the reviewed tree: a received %s frame has a new effect on shared state" % (arm, "`, `".join(new[:4]), arm))


def check_callers(ctx, rule, fns):
    tab = load_table()
    if tab is None:
        ctx.missing(rule, "rules/effects_baseline.json")
        return
    for fn in fns:
        if fn not in ctx.P.bodies:
            ctx.missing(rule, "function %s" % fn)
            continue
        cur = sorted({ctx.P.owner(e.src) for e in ctx.cg.callers(fn, kinds=("call", "spawn")) if e.src not in ctx.P.inlined_away and ctx.P.owner(e.src) != fn})
        ref = set(tab["callers"].get(fn, []))
        new = [c for c in cur if c not in ref]
        ctx.ob(rule, "%s|callers-within-reviewed-table" % fn, not new, "", "%d calling functions, all in the reviewed table" % len(cur) if not new else
               "%s is now also called from %s: on the reviewed tree only %s call it" % (fn.split("::")[-1], new[:3], sorted(x.split("::")[-1] for x in ref)))


def generate(ctx, owners, arms, fns):
    ef = Effects(ctx)
    from .common import co, S
    from . import C02
    out = {"owners": {}, "arms": {}, "callers": {}}
    for owner in owners:
        out["owners"][owner] = sorted(ef.of_owner(owner))
    body = co(ctx, "gen", S + "handle_frame")
    sw, regions = C02.arm_regions(ctx, body)
    for arm in arms:
        if arm in regions:
            s_, own, allr = regions[arm]
            out["arms"][arm] = sorted(ef.of_region(body, own))
    tg = set()
    for v in list(out["owners"].values()) + list(out["arms"].values()):
        for e in v:
            if _target_of(e):
                tg.add(_target_of(e))
    out["targets"] = sorted(tg)
    for fn in fns:
        out["callers"][fn] = sorted({ctx.P.owner(e.src) for e in ctx.cg.callers(fn, kinds=("call", "spawn")) if ctx.P.owner(e.src) != fn})
    return out


SS = "session::session::Session::"
# property -> (owner prefixes, dispatcher arms, functions whose callers are tabulated)
PROPERTY_REGIONS = {
    "C01": ((SS + "write_data_frame", SS + "process_stream_data", "session::stream::", "<session::stream::", "session::stream_reader::", "server::handler::proxy_tcp_connection_data_forwarding",
             "client::socks5::handle_socks5_connection", "client::http_proxy::handle_http_proxy_connection"), ("Push",), (SS + "process_stream_data",)),
    "C02": ((SS + "open_stream", SS + "write_data_frame", SS + "process_stream_data"), ("Push", "Syn", "Fin", "SynAck"), ()),
    "C03": ((), ("Waste",), ()),
    "C04": ((SS + "write_with_padding", "padding::factory::PaddingFactory::generate_record_payload_sizes"), ("Waste",), (SS + "write_with_padding",)),
    "C05": ((SS + "write_with_padding", SS + "write_frame", SS + "close", "util::auth::send_authentication", SS + "start_client", SS + "disable_buffering"), (),
            (SS + "write_with_padding", SS + "disable_buffering", "util::auth::send_authentication")),
    "C06": (("util::auth::authenticate_client", "server::server::handle_connection", "server::server::Server::listen"), (), ("util::auth::authenticate_client", SS + "new_server")),
    "C07": (("server::handler::read_socks_addr", "util::dns_cache::", "client::socks5::read_connection_request", "server::udp_proxy::read_initial_request"), (), ()),
    "C08": ((SS + "close", "<session::stream::", "session::stream_reader::", "server::handler::proxy_tcp_connection_data_forwarding"), ("Fin", "Push"), ()),
    "C09": ((SS + "close", SS + "handle_io_error", SS + "recv_loop", SS + "process_stream_data", SS + "open_stream", "session::stream::Stream::close_with_error"), ("Alert",),
            (SS + "close", SS + "handle_io_error", "session::stream::Stream::close_with_error")),
    "C10": (("session::stream::Stream::notify_synack", "client::client::Client::create_proxy_stream", "server::handler::proxy_tcp_connection_with_synack_internal"), ("SynAck", "Syn"),
            ("session::stream::Stream::notify_synack",)),
    "C11": ((SS + "write_frame", SS + "write_with_padding", SS + "start_client", SS + "open_stream", SS + "write_control_frame"), (), (SS + "write_with_padding", SS + "disable_buffering", SS + "start_client")),
    "C12": (("client::session_pool::", "<client::session_pool::"), (), ("client::session_pool::SessionPool::get_idle_session", "client::session_pool::SessionPool::add_idle_session", SS + "close")),
    "C13": (("client::client::Client::create_stream", "client::client::Client::create_new_session", "client::client::Client::create_proxy_stream", "client::session_pool::SessionPool::get_idle_session",
             "client::session_pool::SessionPool::add_idle_session", "client::session_pool::SessionPool::cleanup_expired", "client::session_pool::SessionPool::start_cleanup_task"),
            ("Fin", "SynAck", "Push", "HeartResponse", "ServerSettings"),      # ordinary traffic does not end the session it arrives on: a pooled session survives the end of its streams
            ("client::session_pool::SessionPool::get_idle_session", "client::session_pool::SessionPool::add_idle_session", SS + "close",
                                                                         "client::client::Client::create_new_session")),
    "C14": ((SS + "start_client", SS + "close", SS + "recv_loop", SS + "process_stream_data"), ("HeartRequest", "HeartResponse"), (SS + "close",)),
    "C15": (("client::udp_client::", "server::udp_proxy::"), (), ("session::stream_reader::StreamReader::buffer_len", "session::stream_reader::StreamReader::is_eof")),
    "C16": (("client::socks5::",), (), (SS + "close",)),      # "ends that connection only": who may close the session that other connections' tunnels run on
    "C17": (("client::http_proxy::",), (), ()),
    "C18": (("util::cert_reloader::", "server::server::Server::listen", "util::tls::"), (), ("util::cert_reloader::CertReloader::reload",
            "util::tls::create_server_config", "util::tls::create_server_config_from_files")),      # who may ask for a generated (self-signed) certificate: the start-up code of the binary, never a loader or reloader
    "C19": (("padding::factory::PaddingFactory::update_default", "padding::factory::PaddingFactory::default", "padding::factory::PaddingFactory::pushed", "padding::factory::PaddingFactory::new",
             "client::client::Client::create_new_session"), ("UpdatePaddingScheme", "Settings", "ServerSettings"), ("padding::factory::PaddingFactory::update_default",)),
    "C20": ((SS + "recv_loop", SS + "handle_frame"), ("Waste", "Syn", "Push", "Fin", "Settings", "Alert", "UpdatePaddingScheme", "SynAck", "HeartRequest", "HeartResponse", "ServerSettings"), ()),
}


def check_property(ctx, pid):
    """rule R<nn>.E of property pid: the regions that implement it perform no operation on shared state outside the reviewed table"""
    prefixes, arms, fns = PROPERTY_REGIONS[pid]
    tab = load_table()
    rule = "R%s.E" % pid[1:]
    if tab is None:
        ctx.missing(rule, "rules/effects_baseline.json")
        return
    owners = sorted(o for o in tab["owners"] if prefixes and (o in prefixes or any(o.startswith(p) for p in prefixes if p.endswith("::"))))
    ctx.floor(rule, "regions of %s in the effect table" % pid, len(owners) + len(arms), 1)
    check_regions(ctx, rule, owners, arms)
    check_callers(ctx, rule, fns)
    from . import refusals
    refusals.check_property(ctx, pid)     # R<nn>.X: no new place where the modules of this property construct an error
