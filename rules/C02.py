"""C02 — streams sharing a session never see each other's bytes (structural clauses)."""
from engine.anl.locks import guard_info, lock_fields
from engine.anl.origin import fmt, subterms, strip_bb
from engine.anl.casts import const_value
from .common import param, effectful_calls, S, co, calls_norm, is_call_term, var_name, render_path, phi_alts, atomic_method, ATOMIC_WRITE_METHODS

EXPLANATION = (
    "Static decision that every table access and every stamp uses *the* stream id: (R02.1) in handle_frame every "
    "get/insert/remove on Session.streams / Session.stream_receive_tx is keyed by frame.stream_id, and bulk mutators of the two "
    "tables occur only in Session::close; (R02.2) Stream::send_data and Stream::poll_write stamp self.id on what they send and "
    "Stream.id is never written after construction; (R02.3) the stream-id allocator is modified only by fetch_add with a constant "
    "increment >= 1, and the id given to StreamReader::new, Stream::new, both table inserts and the SYN frame is that fetch_add's "
    "result; (R02.4) the unknown-stream branches of PSH/SYNACK are inert and the per-stream arms (PSH, SYN, SYNACK, FIN, "
    "ServerSettings, UpdatePaddingScheme, HeartResponse, default) cannot return an error — a frame addressed to a finished or "
    "never-opened stream must not end the session and with it every other stream; (R02.5) write_data_frame stamps the caller's "
    "stream id on every chunk it frames. Not decided: u32 wrap after 2^32 opens; a peer that reuses ids on purpose."
)
RULE_TEXT = "one obligation per table access, per stamp, per id consumer, per dispatch arm; non-trivial = needed an origin/identity, region or who-may-write query"

TABLES = ("Session.streams", "Session.stream_receive_tx")
KEYED = ("get", "get_mut", "insert", "remove", "contains_key", "entry", "remove_entry", "get_key_value")
BULK = ("drain", "clear", "retain", "extract_if", "into_iter", "values_mut", "iter_mut")


def _table(ctx, body, o, recv_term, names):
    """'Session.streams' / 'Session.stream_receive_tx' for a HashMap receiver reached through a lock guard"""
    t = recv_term
    if isinstance(t, tuple) and t and t[0] == "var" and len(t) > 2:
        gi = guard_info(body.lty(t[2]))
        if gi:
            return names.get(gi[1])
    if isinstance(t, tuple) and t and t[0] == "call" and t[1].endswith(("::read", "::write", "::lock")) and t[3]:
        v = var_name(t[3][0]) or ""
        # `self.streams` inside Session; `session.streams` / `(*arc).streams` where a Session method was spliced into a caller
        if v == "self.streams" or v.endswith(".streams"):
            return "Session.streams"
        if v == "self.stream_receive_tx" or v.endswith(".stream_receive_tx"):
            return "Session.stream_receive_tx"
    return None


def r1_table_keys(ctx):
    names = {cls: n[0] for cls, n in lock_fields(ctx.P).items()}
    n_keyed = 0
    for key, body in ctx.P.scan():
        if key.startswith("anytls_"):
            continue
        o = None
        for c in body.calls():
            if "HashMap" not in (c.norm or "") or not c.args:
                continue
            last = c.norm.split("::")[-1]
            if last not in KEYED and last not in BULK:
                continue
            o = o or ctx.origins(body)
            tbl = _table(ctx, body, o, o.of_operand(c.args[0]), names)
            if tbl not in TABLES:
                continue
            # code of a helper that was spliced into a function of another module still reaches the tables: name it by where it runs
            fn = key.replace(S, "").split("::{closure")[0] if key.startswith("session::session::") else ctx.P.owner(key)
            if last in BULK:
                ok = fn == "close"
                ctx.ob("R02.1", "%s|%s.%s" % (fn, tbl, last), ok, c.site, "bulk %s of %s inside Session::close" % (last, tbl) if ok else
                       "%s.%s() outside Session::close: every stream of the session is disturbed at once, bypassing close()'s release protocol" % (tbl, last))
                continue
            n_keyed += 1
            k = o.of_operand(c.args[1])
            if fn == "handle_frame":
                ok = var_name(k) == "frame.stream_id"
                ctx.ob("R02.1", "handle_frame|%s.%s#%d" % (tbl, last, n_keyed), ok, c.site, "keyed by frame.stream_id" if ok else
                       "%s.%s in handle_frame is keyed by `%s`, not by the frame's stream id: a frame for one stream reads/ends/replaces another stream's entry" % (tbl, last, fmt(k)[:80]))
            elif fn == "open_stream":
                ok = is_call_term(k, "::fetch_add") and var_name(k[3][0]) == "self.stream_id"
                ctx.ob("R02.1", "open_stream|%s.%s" % (tbl, last), ok, c.site, "keyed by the freshly allocated id" if ok else "%s.%s in open_stream is keyed by %s" % (tbl, last, fmt(k)[:80]))
            elif fn == "close":
                ok = any(is_call_term(s, "Iterator>::next") for s in subterms(k))
                ctx.ob("R02.1", "close|%s.%s" % (tbl, last), ok, c.site, "keyed by the drained stream's id" if ok else "%s.%s in close is keyed by %s" % (tbl, last, fmt(k)[:80]))
            else:
                ctx.ob("R02.1", "%s|%s.%s" % (fn, tbl, last), False, c.site, "unexpected access to %s from %s (not one of handle_frame/open_stream/close)" % (tbl, fn))
    ctx.floor("R02.1", "keyed accesses to the two stream tables", n_keyed, 9)


def r2_stamps(ctx):
    for path, label in (("session::stream::Stream::send_data", "send_data"),
                        ("<session::stream::Stream as tokio::io::AsyncWrite>::poll_write", "poll_write")):
        body = ctx.body("R02.2", path)
        if body is None:
            continue
        o = ctx.origins(body)
        snd = calls_norm(body, "UnboundedSender::send")
        if label == "poll_write" and not snd:
            dl = calls_norm(body, "Stream::send_data")
            okd = bool(dl) and var_name(o.of_operand(dl[0].args[0])) == "self" and any(is_call_term(s, "Bytes::copy_from_slice") for s in subterms(o.of_operand(dl[0].args[1])))
            ctx.ob("R02.2", "poll_write:stamps-self.id", okd, dl[0].site if dl else "", "poll_write delegates to self.send_data(copy of buf), which stamps self.id" if okd else "poll_write neither sends (self.id, data) nor delegates to send_data")
            continue
        if not ctx.floor("R02.2", "writer_tx.send in %s" % label, len(snd), 1):
            continue
        for c in snd:
            t = o.of_operand(c.args[1])
            ok = isinstance(t, tuple) and t[0] == "agg" and len(t[3]) == 2 and var_name(t[3][0]) == "self.id" and var_name(o.of_operand(c.args[0])) == "self.writer_tx"
            ctx.ob("R02.2", "%s:stamps-self.id" % label, ok, c.site, "sends (self.id, data) on self.writer_tx" if ok else "%s sends %s" % (label, fmt(t)[:100]))
    # Stream.id has no writer: no assignment through a projection ending in field `id` in session::stream
    bad = []
    for key, body in ctx.P.scan():
        if not key.startswith(("session::stream::", "<session::stream::")):
            continue
        for bi in body.reachable():
            for st in body.blocks[bi]["stmts"]:
                if st["s"] == "assign" and st["place"]["proj"]:
                    fl = [e for e in st["place"]["proj"] if e["p"] == "field"]
                    if fl and fl[-1].get("name") == "id" and key.split("::")[-1] != "new":
                        bad.append("%s:%s" % (key, st["span"]["line"]))
    ctx.ob("R02.2", "Stream.id:immutable", not bad, "", "Stream.id is only set by the struct literal in Stream::new" if not bad else "Stream.id is assigned at %s" % bad[:2])
    nb = ctx.body("R02.2", "session::stream::Stream::new")
    if nb is not None:
        o = ctx.origins(nb)
        ok = False
        for bi in nb.reachable():
            for st in nb.blocks[bi]["stmts"]:
                if st["s"] == "assign" and st["rv"]["r"] == "aggregate" and st["rv"]["kind"].get("adt", "").endswith("stream::Stream"):
                    for f, op in zip(st["rv"]["kind"]["fields"], st["rv"]["ops"]):
                        if f == "id":
                            ok = var_name(o.of_operand(op)) == "id"
        ctx.ob("R02.2", "Stream::new:id-from-parameter", ok, "", "Stream{id: id, ..}" if ok else "Stream::new does not store its id parameter")


def r3_allocator(ctx):
    n = 0
    for key, body in ctx.P.scan():
        if not key.startswith("session::session::"):
            continue
        o = None
        for c in body.calls():
            m = atomic_method(c)
            if m not in ATOMIC_WRITE_METHODS:
                continue
            o = o or ctx.origins(body)
            if var_name(o.of_operand(c.args[0])) != "self.stream_id":
                continue
            n += 1
            inc = const_value(o.of_operand(c.args[1])) if len(c.args) > 1 else None
            ok = m == "fetch_add" and inc is not None and inc >= 1 and key == S + "open_stream::{closure#0}"
            ctx.ob("R02.3", "stream_id:%s|%s" % (m, key.replace(S, "").split("::{closure")[0]), ok, c.site, "fetch_add(%s) in open_stream" % inc if ok else
                   "the stream-id allocator is modified by %s(%s) in %s: ids can repeat within a session, and two streams then share one table entry" % (m, inc, key))
    ctx.floor("R02.3", "writes to Session.stream_id", n, 1)
    body = co(ctx, "R02.3", S + "open_stream")
    if body is None:
        return
    o = ctx.origins(body)

    def is_id(t):
        return is_call_term(t, "::fetch_add") and var_name(t[3][0]) == "self.stream_id"

    for pat, argi, label in (("StreamReader::new", 0, "StreamReader::new"), ("Stream::new", 0, "Stream::new"), ("Frame::control", 1, "SYN frame")):
        cs = calls_norm(body, pat)
        if not cs:
            ctx.missing("R02.3", "%s call in open_stream" % label)
            continue
        t = o.of_operand(cs[0].args[argi])
        ctx.ob("R02.3", "open_stream:id->%s" % label, is_id(t), cs[0].site, "%s gets the allocated id" % label if is_id(t) else "%s gets %s" % (label, fmt(t)[:80]))
    # server side: ids come from the SYN frame
    hb = co(ctx, "R02.3", S + "handle_frame")
    if hb is not None:
        oh = ctx.origins(hb)
        for pat, argi, label in (("StreamReader::new", 0, "StreamReader::new"), ("Stream::new", 0, "Stream::new")):
            cs = calls_norm(hb, pat)
            if not cs:
                ctx.missing("R02.3", "%s call in the SYN arm" % label)
                continue
            t = oh.of_operand(cs[0].args[argi])
            ok = var_name(t) == "frame.stream_id"
            ctx.ob("R02.3", "handle_frame[SYN]:id->%s" % label, ok, cs[0].site, "%s gets frame.stream_id" % label if ok else "%s gets %s" % (label, fmt(t)[:80]))


NO_ERR_ARMS = ("Push", "Syn", "SynAck", "Fin", "ServerSettings", "UpdatePaddingScheme", "HeartResponse", "Waste")


def arm_regions(ctx, body):
    """{variant: own blocks of its arm} for the match on frame.cmd"""
    cfg, conds = ctx.cfg(body), ctx.conds(body)
    sw = [c for c in conds.all() if c.kind == "variant" and c.enum and c.enum.endswith("frame::Command")]
    if not sw:
        return None, None
    sw = sw[0]
    reach = {s: cfg.reach([s]) for s in sw.by_succ}
    out = {}
    for s, vals in sw.by_succ.items():
        others = set()
        for s2, r in reach.items():
            if s2 != s:
                others |= r
        own = reach[s] - others
        for v in vals:
            out[v] = (s, own, reach[s])
    return sw, out


def r4_inert_branches(ctx):
    body = co(ctx, "R02.4", S + "handle_frame")
    if body is None:
        return
    cfg, conds, o = ctx.cfg(body), ctx.conds(body), ctx.origins(body)
    sw, arms = arm_regions(ctx, body)
    if sw is None:
        ctx.missing("R02.4", "match on frame.cmd")
        return
    ctx.floor("R02.4", "Command variants dispatched", len(arms), 11)
    err_blocks = set()
    for kind, bi, si, rv in body.defs().get(0, []):
        if not (kind == "assign" and rv["r"] == "aggregate" and rv["kind"].get("variant") == "Ok"):
            err_blocks.add(bi)
    for v in NO_ERR_ARMS:
        if v not in arms:
            ctx.ob("R02.4", "arm[%s]:cannot-fail" % v, False, "", "Command::%s reaches no arm" % v)
            continue
        s, own, allr = arms[v]
        bad = sorted(own & err_blocks)
        ctx.ob("R02.4", "arm[%s]:cannot-fail" % v, not bad, "src/session/session.rs:%s" % body.blocks[s]["tspan"]["line"],
               "the arm has no error return: a stray/duplicate/unknown-id %s frame cannot end the session" % v if not bad else
               "the %s arm can return Err (line %s): recv_loop treats that as fatal and closes the session, so a %s frame for a finished or never-opened stream ends every other stream" %
               (v, body.blocks[bad[0]]["tspan"]["line"], v))
    # unknown-stream branches: the None edge of the table lookup leads to no call at all (tracing aside) before the arms join
    for v, tbl in (("Push", "stream_receive_tx"), ("SynAck", "streams")):
        if v not in arms:
            continue
        s, own, allr = arms[v]
        none_succ = []
        for c in conds.all():
            if c.block in own and c.kind == "variant" and is_call_term(c.term, "::get") and "None" in sum(c.by_succ.values(), []):
                none_succ += c.succs_for("None")
                some_succ = c.succs_for("Some")
        if not none_succ:
            ctx.missing("R02.4", "lookup miss branch in the %s arm" % v)
            continue
        some_reach = cfg.reach(some_succ)
        region = (cfg.reach(none_succ) & own) - some_reach
        calls = effectful_calls(body, region)
        ctx.ob("R02.4", "arm[%s]:unknown-stream-inert" % v, not calls, "src/session/session.rs:%s" % body.blocks[none_succ[0]]["tspan"]["line"],
               "a %s for an id without an entry touches nothing" % v if not calls else "the unknown-stream branch of %s calls %s" % (v, calls[0].norm))


def r5_write_data_frame(ctx):
    body = co(ctx, "R02.5", S + "write_data_frame")
    if body is None:
        return
    o = ctx.origins(body)
    fd = calls_norm(body, "Frame::data")
    if not ctx.floor("R02.5", "Frame::data calls in write_data_frame", len(fd), 1):
        return
    p_sid, p_data = param(body, 1), param(body, 2)

    def is_data(t, depth=0):
        # the data parameter itself, a local it was moved into, or a piece split off it
        if var_name(t) == p_data:
            return True
        if isinstance(t, tuple) and t[0] == "var" and len(t) > 2 and depth < 3:
            return any(is_data(a, depth + 1) for a in phi_alts(o.init_of(t[2])))
        if is_call_term(t, "::split_to", "::split_off") and depth < 3:
            return is_data(t[3][0], depth + 1)
        return False

    for i, c in enumerate(fd):
        sid = o.of_operand(c.args[0])
        dat = o.of_operand(c.args[1])
        ok1 = var_name(sid) == p_sid
        ok2 = all(is_data(a) for a in phi_alts(dat))
        ctx.ob("R02.5", "write_data_frame:stamp#%d" % i, ok1 and ok2, c.site, "Frame::data(stream_id, data|data.split_to(..))" if ok1 and ok2 else "Frame::data(%s, %s)" % (fmt(sid)[:40], fmt(dat)[:60]))
    fb = ctx.body("R02.5", "protocol::frame::Frame::data")
    if fb is not None:
        of = ctx.origins(fb)
        ok = False
        for bi in fb.reachable():
            for st in fb.blocks[bi]["stmts"]:
                if st["s"] == "assign" and st["rv"]["r"] == "aggregate" and st["rv"]["kind"].get("adt", "").endswith("frame::Frame"):
                    ops = {f: of.of_operand(op) for f, op in zip(st["rv"]["kind"]["fields"], st["rv"]["ops"])}
                    ok = var_name(ops.get("stream_id")) == param(fb, 0) and var_name(ops.get("data")) == param(fb, 1) and isinstance(ops.get("cmd"), tuple) and ops["cmd"][0] == "agg" and ops["cmd"][2] == "Push"
        if not ok:
            # Frame::data may delegate to with_data
            wd = calls_norm(fb, "Frame::with_data")
            if wd:
                a = [of.of_operand(x) for x in wd[0].args]
                ok = isinstance(a[0], tuple) and a[0][0] == "agg" and a[0][2] == "Push" and var_name(a[1]) == param(fb, 0) and var_name(a[2]) == param(fb, 1)
        ctx.ob("R02.5", "Frame::data:fields", ok, "", "Frame::data(id, d) = Frame{Push, id, d}" if ok else "Frame::data does not build Frame{Push, stream_id, data}")


def r6_no_alert_for_one_stream(ctx):
    """an Alert is the session-wide "I am going away": the receiver closes the session and with it every stream on it.  A
    condition that concerns one stream (a destination that cannot be parsed, resolved or reached) is answered on that stream
    (a SYNACK carrying the reason) — nothing outside the codec builds an Alert frame"""
    n = 0
    bad = []
    for key, body in ctx.P.scan():
        if key.startswith(("protocol::", "<protocol::", "anytls_")):
            continue
        for bi in sorted(body.reachable()):
            for st in body.blocks[bi]["stmts"]:
                if st["s"] == "assign" and st["rv"]["r"] == "aggregate" and str(st["rv"]["kind"].get("adt", "")).endswith("frame::Command"):
                    n += 1
                    if st["rv"]["kind"].get("variant") == "Alert":
                        bad.append((key, st["span"]["line"], st["span"].get("file", "?")))
    ctx.floor("R02.6", "Command values constructed outside the codec", n, 10)
    ctx.ob("R02.6", "crate:no-Alert-frame-is-sent-for-a-stream-level-condition", not bad, "%s:%s" % (bad[0][2], bad[0][1]) if bad else "",
           "%d command values are built outside the codec, none of them Alert" % n if not bad else
           "%s builds an Alert frame: the peer treats every Alert as fatal for the session, so a problem with one stream (e.g. a destination the server cannot parse) tears down every other stream on the session — "
           "and the client's pooled session with it, so that the next request dials a new TLS connection" % ctx.P.owner(bad[0][0]).split("::")[-1])


def run(ctx):
    r6_no_alert_for_one_stream(ctx)
    from . import C09 as _C09s
    _C09s.r10_constructor_siblings(ctx)   # both roles start a session in the same state (counter 0, unbuffered, ids from 1): sibling cross-check of the constructors
    from . import C09 as _C09y, C13 as _C13y, C03 as _C03y
    _C09y.r9_write_errors_funnel(ctx)            # a write that fails part-way ends the session: the next stream's frame never lands inside the truncated one
    _C13y.r5_request_path_never_closes(ctx)      # one stream's refusal gives up that stream, not the session its siblings run on
    _C03y.r2_peek_then_consume(ctx)              # every complete frame in the buffer is handed out before decode asks for more input
    from . import C20 as _C20q
    _C20q.r6_containment(ctx)     # every stream is served by a task of its own: the loop that hands out new streams waits for nothing that one stream has yet to send
    from . import C20 as _C20p
    _C20p.r17_panicking_index_methods(ctx, _C20p.input_reachable(ctx))   # text from the peer cannot panic the dispatcher: a panic there ends every stream of the session, not the one the frame was for
    from . import C01 as _C01x, C20 as _C20x
    _C20x.r14_gauges_released_on_every_exit(ctx)    # a session-wide mode switched on for one request is switched off on every way out of it (the other streams' frames are not held back for ever)
    _C01x.r3_r4_recv_buffer(ctx)     # every complete frame in the receive buffer is dispatched before the loop waits for more input (no stream waits behind another stream's burst)
    from . import effects
    effects.check_property(ctx, "C02")    # R02.E: no operation on shared protocol state outside the reviewed table
    from . import C01, C09, C11
    # frame integrity: a frame whose announced length is not its real length, or that is abandoned half written, makes the bytes
    # that follow (usually another stream's) parse under the wrong id
    C01.r1_encode_cast(ctx)
    from . import C04
    C04.r1_waste_frames(ctx)
    C01.r2_chunking(ctx)
    C01.r9_complete_writes(ctx)
    C11.r7_cancellation(ctx)
    C01.r8_single_forwarder(ctx)   # the forwarder passes each (id, chunk) pair on unchanged: a chunk cannot leave under another stream's id
    C09.r1_locks(ctx)              # one stream's event cannot wedge the dispatch of all the others (no self-deadlock on the stream tables)
    r1_table_keys(ctx)
    r2_stamps(ctx)
    r3_allocator(ctx)
    r4_inert_branches(ctx)
    r5_write_data_frame(ctx)
