"""Helpers shared by the per-property rule modules."""
from engine.anl.mir import span_is_tracing, span_str
from engine.anl.origin import fmt, subterms, strip_bb

S = "session::session::Session::"


def co(ctx, rule, fn_path):
    """coroutine body of an async fn (fails closed)"""
    return ctx.body(rule, fn_path + "::{closure#0}")


def const_strs(call, o):
    out = []
    for a in call.args:
        t = o.of_operand(a)
        if isinstance(t, tuple) and t[0] == "const" and t[1] is None and isinstance(t[3], str):
            d = t[3]
            if d.startswith("const "):
                d = d[6:]
            if len(d) >= 2 and d[0] == '"' and d[-1] == '"':
                out.append(d[1:-1])
    return out


def call_label(body, call, o):
    """stable (line-free) label of a call site: callee + string-literal args, else callee + ordinal in the body"""
    cs = const_strs(call, o)
    short = (call.callee or "<indirect>").split("::")[-1]
    if cs:
        return "%s(%s)" % (short, ",".join(cs))
    same = [c for c in body.calls(True) if c.callee == call.callee]
    idx = [c.bb for c in same].index(call.bb) if call.bb in [c.bb for c in same] else -1
    return "%s#%d" % (short, idx)


def never_err(body):
    """True iff every assignment to the return place builds `Result::Ok{..}` (the function cannot return Err)"""
    found = 0
    for kind, bi, si, payload in body.defs().get(0, []):
        if kind == "assign" and payload["r"] == "aggregate" and payload["kind"].get("variant") == "Ok":
            found += 1
        else:
            return False
    return found > 0


def render_path(body, blocks, limit=60):
    """block path as source-level lines (tracing-only blocks skipped, consecutive duplicates merged)"""
    out = []
    last = None
    for b in blocks:
        sp = body.blocks[b]["tspan"]
        if span_is_tracing(sp):
            continue
        t = body.blocks[b]["term"]["t"]
        if t in ("goto", "false_edge", "false_unwind", "drop") and not body.blocks[b]["stmts"]:
            continue
        desc = body.term_str(b)
        line = "bb%d %s: %s" % (b, span_str(sp), desc[:150])
        key = (span_str(sp), desc[:40])
        if key != last:
            out.append(line)
            last = key
    if len(out) > limit:
        out = out[:limit // 2] + ["..."] + out[-limit // 2:]
    return out


def cond_edges(conds, pred, value):
    """edges (b,s) of every switch whose condition term satisfies pred and whose label includes `value`"""
    out = []
    for c in conds.all():
        if pred(c):
            out.extend(c.edges_for(value))
    return out


_NOGEN = {}


def _no_generics(name):
    """`BTreeMap::<K, V, A>::last_key_value` -> `BTreeMap::last_key_value` (turbofish segments removed, nesting respected)"""
    r = _NOGEN.get(name)
    if r is None:
        out, depth, i = [], 0, 0
        while i < len(name):
            if depth == 0 and name.startswith("::<", i):
                depth, i = 1, i + 3
                continue
            ch = name[i]
            if depth:
                if ch == "<":
                    depth += 1
                elif ch == ">" and name[i - 1] != "-":
                    depth -= 1
            else:
                out.append(ch)
            i += 1
        r = _NOGEN[name] = "".join(out)
    return r


def is_call_term(t, *suffixes):
    if not (isinstance(t, tuple) and t and t[0] == "call"):
        return False
    if any(t[1] == s or t[1].endswith(s) for s in suffixes):
        return True
    n = _no_generics(t[1])
    return n != t[1] and any(n == s or n.endswith(s) for s in suffixes)


def term_has_call(t, *suffixes):
    return any(is_call_term(s, *suffixes) for s in subterms(t))


def same_expr(a, b):
    return strip_bb(a) == strip_bb(b)


ATOMIC_WRITE_METHODS = ("store", "swap", "fetch_or", "fetch_and", "fetch_xor", "fetch_nand", "fetch_add", "fetch_sub",
                        "compare_exchange", "compare_exchange_weak", "fetch_update", "fetch_max", "fetch_min")


def atomic_method(call):
    """method name if the call is a method of std::sync::atomic::Atomic*, else None"""
    n = call.callee or ""
    if "sync::atomic::Atomic" in n:
        return n.split("::")[-1]
    return None


def is_method(callee, type_part, method):
    """`std::collections::HashMap::<K, V, S, A>::remove` matches ("HashMap", "remove") whatever the generic list"""
    if not callee:
        return False
    return callee.split("::")[-1] == method and (type_part + "::<" in callee or type_part + "::" in callee or ("<" + type_part) in callee or (type_part + "<") in callee or type_part in callee)


def calls_norm(body, *suffixes, include_tracing=False):
    """calls whose generic-stripped callee path ends with one of the suffixes"""
    return [c for c in body.calls(include_tracing) if c.norm and c.norm.endswith(suffixes)]


def var_name(t):
    return t[1] if isinstance(t, tuple) and t and t[0] == "var" else None


def is_var(t, *names):
    return var_name(t) in names


def contains_var(t, *names):
    return any(isinstance(s, tuple) and s and s[0] == "var" and s[1] in names for s in subterms(t))


def phi_alts(t):
    """alternatives of a phi term (a non-phi term is its own single alternative)"""
    if isinstance(t, tuple) and t and t[0] == "phi":
        out = []
        for a in t[1]:
            out.extend(phi_alts(a))
        return out
    return [t]


def table_of(ctx, body, term):
    """which lock-protected field a map receiver term denotes, e.g. 'Session.streams' (via guard type or lock call)"""
    from engine.anl.locks import guard_info, lock_fields, norm_class
    lf = ctx.extra.get("_lock_fields")
    if lf is None:
        lf = lock_fields(ctx.P)
        ctx.extra["_lock_fields"] = None  # keep evidence clean
        ctx._lf = lf
    lf = getattr(ctx, "_lf", lf)
    if isinstance(term, tuple) and term and term[0] == "var" and len(term) > 2:
        gi = guard_info(body.lty(term[2]))
        if gi:
            names = lf.get(gi[1], [])
            return names[0] if names else None
    if isinstance(term, tuple) and term and term[0] == "call" and term[1].endswith(("::read", "::write", "::lock")) and term[3]:
        v = var_name(term[3][0])
        if v and v.startswith("self."):
            owner = "Session" if body.name.startswith("session::session::Session") else body.name.split("::")[-3] if "::" in body.name else "?"
            return "%s.%s" % (owner, v[5:])
    return None


PURE_SUFFIXES = ("Deref>::deref", "DerefMut>::deref_mut", "::keys", "::values", "::iter", "::len", "::is_empty", "Iterator::collect", "Iterator>::collect",
                 "mem::drop", "Argument::new_debug", "Argument::new_display", "Argument::new_lower_hex", "Arguments::new", "Arguments::new_const", "fmt::format", "hint::must_use",
                 "Clone>::clone", "::as_ref", "::as_str", "::to_string", "ToString>::to_string", "::id", "Into>::into", "From>::from", "IntoIterator>::into_iter",
                 "::from_utf8_lossy", "::is_closed", "::as_bytes", "::to_owned", "::to_vec", "::into_owned", "::into_boxed_str", "::into_string", "::as_slice", "Cow<'_, B>>::into_owned",
                 "::trim", "::trim_end", "::trim_start", "::chars", "::bytes", "::char_indices", "::is_char_boundary", "::floor_char_boundary", "str::get", "::starts_with", "::ends_with", "::contains", "::elapsed", "::as_secs_f64", "::as_secs", "::as_millis", "Display>::fmt", "Debug>::fmt")


def effectful_calls(body, region):
    """non-tracing calls inside `region` that are not on the pure/log-argument whitelist"""
    out = []
    for c in body.calls():
        if c.bb not in region:
            continue
        n = c.norm or ""
        if n.endswith(PURE_SUFFIXES):
            continue
        out.append(c)
    return out


def upvar_sources(ctx, child):
    """{captured variable name: origin term in the parent body} for a closure / async block"""
    parent = ctx.P.bodies.get(child.parent) if child.parent else None
    if parent is None and child.parent:
        # parent recorded by def path; bin crates are keyed with a crate prefix
        for k, b in ctx.P.scan():
            if b.name == child.parent and b.crate == child.crate:
                parent = b
    if parent is None:
        return {}, None
    o = ctx.origins(parent)
    for bi in sorted(parent.reachable()):
        for st in parent.blocks[bi]["stmts"]:
            if st["s"] == "assign" and st["rv"]["r"] == "aggregate" and st["rv"]["kind"]["a"] in ("closure", "coroutine", "coroutine_closure") and st["rv"]["kind"].get("def") == child.name:
                out = {}
                for i, op in enumerate(st["rv"]["ops"]):
                    nm = child.upvars.get(i, "upvar#%d" % i)
                    out[nm] = o.of_operand(op)
                return out, parent
    return {}, parent


def spawned_children(ctx, parent_key):
    """bodies that run as tasks spawned by parent_key; `spawn(named_async_fn(..))` contributes the function's coroutine body"""
    out = []
    for e in ctx.cg.out.get(parent_key, []):
        if e.kind != "spawn":
            continue
        b = ctx.P.bodies[e.dst]
        out.append(b)
        co_ = ctx.P.bodies.get(e.dst + "::{closure#0}")
        if co_ is not None and b.j.get("is_async_fn") in (True, "true") and co_ not in out:
            out.append(co_)
    return out


def stores_through(body, o):
    """every write through a dereferenced pointer: yields (bb, line, base term, value term)"""
    out = []
    for bi in sorted(body.reachable()):
        blk = body.blocks[bi]
        for st in blk["stmts"]:
            if st["s"] == "assign" and st["place"]["proj"] and st["place"]["proj"][0]["p"] == "deref":
                base = o.of_place(st["place"]["local"], ())
                val = o._rvalue(st["rv"], (), bi, 0, frozenset())
                out.append((bi, st["span"]["line"], base, val, st["place"]))
        t = blk["term"]
        if t["t"] == "call" and t["dest"]["proj"] and t["dest"]["proj"][0]["p"] == "deref":
            base = o.of_place(t["dest"]["local"], ())
            val = o._call(t, bi, (), 0, frozenset())
            out.append((bi, blk["tspan"]["line"], base, val, t["dest"]))
    return out


def param(body, i):
    """name of the i-th parameter (0-based, `self` included) of a fn body or of the coroutine body of an async fn.
    Rules use positions, not spellings, so that renaming a parameter is not an alarm."""
    from engine.anl.origin import baseline_params
    base = baseline_params().get(body.name)
    if base and i < len(base) and base[i]:
        return base[i]     # origin terms spell parameters as on the reference tree (translated by position)
    if body.is_coroutine:
        return body.upvars.get(i)
    return body.debug.get(i + 1)


def depends_on_var(o, term, name, depth=0):
    """the origin term mentions variable `name`, looking through the initialisers of mutable locals (iterators, guards)"""
    for s in subterms(term):
        if isinstance(s, tuple) and s and s[0] == "var":
            if s[1] == name or s[1].startswith(name + "."):
                return True
            if len(s) > 2 and depth < 3 and depends_on_var(o, o.init_of(s[2]), name, depth + 1):
                return True
    return False


def ok_return_blocks(body, o):
    """blocks in which the function's success value comes into being: `_0 = Ok(..)` in the body itself, or — when the function
    ends with `helper(..).await` / `helper(..)` and simply returns the helper's result — the `Ok(..)` of the spliced helper that
    flows into `_0`. Rules about "every successful return has passed X" look at these blocks, so that moving the tail of a function
    into a helper does not hide its success exits."""
    out = []

    def collect(t, fallback, depth=0):
        if not isinstance(t, tuple) or not t or depth > 6:
            return
        if t[0] == "agg" and len(t) > 2 and t[2] == "Ok":
            out.append(t[4] if len(t) > 4 and isinstance(t[4], int) else fallback)
        elif t[0] == "phi":
            for alt in t[1]:
                collect(alt, fallback, depth + 1)

    for kind, bi, si, rv in body.defs().get(0, []):
        if kind != "assign":
            continue
        if rv["r"] == "aggregate":
            if rv["kind"].get("variant") == "Ok":
                out.append(bi)
        elif rv["r"] == "use" and rv["op"].get("o") in ("move", "copy"):
            collect(o.of_operand(rv["op"]), bi)
    res = []
    for b in out:
        if b not in res:
            res.append(b)
    return res
