"""C19 — a padding scheme pushed by the server takes effect on the client (structural clauses)."""
from engine.anl.origin import fmt, subterms, strip_bb
from .common import S, co, calls_norm, is_call_term, var_name, render_path, stores_through, effectful_calls, const_strs
from . import C02

from .common import ok_return_blocks as _okret

from engine.anl.casts import const_value as const_value_

EXPLANATION = (
    "Static decision of the push/adopt plumbing: (R19.1) the process-wide default is replaceable — PaddingFactory::update_default stores "
    "the parsed scheme through a replaceable cell (not a write-once OnceLock/OnceCell::set, which fails for ever once default() or start-up "
    "code has initialised the cell) and PaddingFactory::default() reads what update_default stored; (R19.2) sessions opened afterwards start "
    "from the pushed scheme: the scheme given to send_authentication and Session::new_client in Client::create_new_session depends on the "
    "process-wide cell, not only on the value frozen at Client construction; (R19.3) the server pushes its raw scheme exactly on the "
    "not-equal edge of the md5 comparison; (R19.4) on the Ok edge of update_default the session's own scheme cell is assigned from the "
    "default, so later packets of that session use the pushed scheme; (R19.5) a scheme that does not parse is inert: the Err edge neither "
    "returns an error nor closes anything."
)
RULE_TEXT = "one obligation per store, per reader of the cell, per consumer of the scheme in session creation, per edge of the update; non-trivial = needed a who-may-write, origin/provenance or region query"

PF = "padding::factory::PaddingFactory::"


def _term_statics(o, t, depth=0):
    """statics a term refers to, looking through the initialisers of mutable locals (lock guards)"""
    out = set()
    for s in subterms(t):
        if isinstance(s, tuple) and s and s[0] == "static":
            out.add(s[1])
        elif depth < 3 and isinstance(s, tuple) and s and s[0] == "var" and len(s) > 2:
            out |= _term_statics(o, o.init_of(s[2]), depth + 1)
    return out


def _statics_in(ctx, body, depth=0):
    """statics read by a body, including through local callees (two levels)"""
    o = ctx.origins(body)
    out = set()
    for c in body.calls(True):
        for a in c.args:
            out |= _term_statics(o, o.of_operand(a))
        if depth < 2:
            k = ctx.cg.resolve(body, c.callee)
            if k is not None and k != body.name:
                out |= _statics_in(ctx, ctx.P.bodies[k], depth + 1)
    return out


def r1_replaceable(ctx):
    up = ctx.body("R19.1", PF + "update_default")
    df = ctx.body("R19.1", PF + "default")
    if up is None or df is None:
        return
    ou, od = ctx.origins(up), ctx.origins(df)
    once = [c for c in up.calls() if (c.norm or "").endswith(("OnceLock::set", "OnceCell::set", "OnceLock::try_insert", "OnceLock::get_or_init", "OnceCell::get_or_init"))]
    stores = [s for s in stores_through(up, ou) if _term_statics(ou, s[2])]
    swaps = [c for c in up.calls() if (c.norm or "").split("::")[-1] in ("store", "swap", "replace", "insert") and any(isinstance(x, tuple) and x[0] == "static" for a in c.args for x in subterms(ou.of_operand(a)))]
    written = set()
    for s in stores:
        written |= _term_statics(ou, s[2])
    for c in swaps:
        written |= {x[1] for a in c.args for x in subterms(ou.of_operand(a)) if isinstance(x, tuple) and x[0] == "static"}
    # callers that reach default() at start-up (makes a write-once cell fail deterministically)
    starters = sorted({e.src.split("::{closure")[0] for e in ctx.cg.callers(PF + "default")})
    ok = not once and bool(written)
    ctx.ob("R19.1", "update_default:store-is-replaceable", ok, once[0].site if once else "",
           "update_default replaces the value of %s" % sorted(written) if ok else
           "update_default stores with `%s`, a write-once operation on the cell that default() initialises; default() is reached first by %s, so every update fails with \"failed to update default factory\" and "
           "every pushed scheme is rejected for the life of the process" % (once[0].norm.split("::")[-2] + "::" + once[0].norm.split("::")[-1] if once else "?", starters[:4]))
    read = _statics_in(ctx, df)
    okr = bool(written & read)
    ctx.ob("R19.1", "default:reads-what-update-stored", okr, "", "default() reads %s, which update_default writes" % sorted(written & read) if okr else
           "default() does not read the cell update_default writes (%s vs %s): a pushed scheme never becomes the default" % (sorted(read), sorted(written)))
    # an accepted push is always installed: every Ok return is preceded by the store
    cfgu = ctx.cfg(up)
    ok_rets = _okret(up, ctx.origins(up))
    store_blocks = [s[0] for s in stores] + [c.bb for c in swaps]
    if store_blocks and ok_rets:
        okall, p = cfgu.must_pass([0], ok_rets, via_blocks=store_blocks)
        ctx.ob("R19.1", "update_default:every-accepted-push-is-stored", okall, "", "every Ok(()) of update_default is preceded by the store" if okall else
               "update_default can return Ok without storing the pushed scheme (an early return, e.g. a 'nothing changed' shortcut): the cell stays empty, so sessions opened afterwards fall back to the "
               "client's configured scheme, announce the old md5 and are pushed the scheme again", path=None if okall else render_path(up, p))
    # a rejected push changes nothing: no write to the cell on a path that ends in the error return
    err_rets = [bi for kind, bi, si, rv in up.defs().get(0, []) if (kind == "assign" and rv["r"] == "aggregate" and rv["kind"].get("variant") == "Err")
                or (kind == "call" and (rv["func"].get("c", {}).get("fn") or "").endswith("from_residual"))]
    muts = list(store_blocks)
    for c in up.calls():
        if (c.norm or "").split("::")[-1] in ("take", "replace", "insert", "get_or_insert", "get_or_insert_with", "clear", "swap") and c.args:
            t0 = ou.of_operand(c.args[0])
            ts = [t0] + [ou.init_of(s_[2]) for s_ in subterms(t0) if isinstance(s_, tuple) and s_ and s_[0] == "var" and len(s_) > 2]
            if any(_term_statics(ou, t_) for t_ in ts):
                muts.append(c.bb)
    if err_rets:
        leak = [m for m in muts if cfgu.reach([m]) & set(err_rets)]
        ctx.ob("R19.1", "update_default:rejected-push-leaves-the-cell-alone", not leak, "",
               "no write to the cell can be followed by the error return (%d writes, %d error exits)" % (len(muts), len(err_rets)) if not leak else
               "the cell is modified (line %s) on a path that can still end in the error return: an unparseable push wipes or replaces the scheme adopted earlier, so sessions opened afterwards fall back to the "
               "configured scheme" % up.blocks[leak[0]]["tspan"]["line"])
    else:
        ctx.missing("R19.1", "error return of update_default")
    # the stored value is the parsed pushed scheme
    newc = calls_norm(up, "PaddingFactory::new")
    okn = bool(newc) and var_name(ou.of_operand(newc[0].args[0])) == "raw_scheme"
    ctx.ob("R19.1", "update_default:stores-the-pushed-scheme", okn, newc[0].site if newc else "", "the stored factory is PaddingFactory::new(raw_scheme)" if okn else "update_default does not parse its argument")
    # ... in every case: the value written is the factory built from *these* bytes — not, under some "same scheme" test, an
    # instance installed earlier (equality of the parsed lines is coarser than equality of the bytes the md5 is taken over: a
    # re-saved scheme file would keep the old md5 installed and be pushed again to every new session)
    if stores and newc:
        def alts(t, depth=0):
            if isinstance(t, tuple) and t and t[0] == "phi" and depth < 4:
                out = []
                for a in t[1]:
                    out += alts(a, depth + 1)
                return out
            if isinstance(t, tuple) and t and t[0] == "agg" and len(t) > 3 and t[2] == "Some" and t[3] and depth < 4:
                return alts(t[3][0], depth + 1)
            if is_call_term(t, "Arc::<T>::new", "Arc::new", "Arc::from", "::clone") and t[3] and depth < 4 and isinstance(t[3][0], tuple) and t[3][0] and t[3][0][0] == "phi":
                return alts(t[3][0], depth + 1)
            return [t]
        va = alts(stores[0][3])
        stale = [a for a in va if not any(is_call_term(s_, "PaddingFactory::new") and len(s_) > 2 and s_[2] == newc[0].bb for s_ in subterms(a))]
        ctx.ob("R19.1", "update_default:what-is-stored-is-built-from-these-bytes", not stale, "src/padding/factory.rs:%s" % stores[0][1],
               "every value the store can write contains PaddingFactory::new(raw_scheme) of this call" if not stale else
               "the store can write `%s`, a value that was not built from the bytes just pushed: after a push whose bytes differ but whose lines compare equal, the process keeps the earlier raw bytes and md5, "
               "announces the old md5 in every later session and is pushed the scheme again each time" % fmt(stale[0])[:80])


def r2_new_sessions(ctx):
    body = co(ctx, "R19.2", "client::client::Client::create_new_session")
    if body is None:
        return
    o = ctx.origins(body)
    global_readers = ("PaddingFactory::default", "PaddingFactory::pushed", "PaddingFactory::current", "PaddingFactory::current_or")
    for pat, argi, label in (("auth::send_authentication", 2, "send_authentication"), ("Session::new_client", 2, "Session::new_client")):
        cs = calls_norm(body, pat)
        if not cs:
            ctx.missing("R19.2", "%s call in create_new_session" % label)
            continue
        t = o.of_operand(cs[0].args[argi])
        terms = [t]
        for s in subterms(t):
            if isinstance(s, tuple) and s[0] == "var" and len(s) > 2:
                terms.append(o.init_of(s[2]))
        here = {c.bb for c in body.calls() if (c.norm or "").endswith(global_readers)}
        fresh = any(is_call_term(s, *global_readers) and s[2] in here for tt in terms for s in subterms(tt))
        cached = [s for tt in terms for s in subterms(tt) if is_call_term(s, "OnceLock::<T>::get_or_init", "OnceLock::<T>::get", "OnceCell::<T>::get_or_init", "OnceCell::<T>::get", "LazyLock", "Lazy::<T>::force")]
        ok = fresh and not cached
        if cached:
            ctx.ob("R19.2", "create_new_session:%s-reads-the-cell-each-time" % label, False, cs[0].site,
                   "the scheme given to %s goes through a write-once cache (`%s`): the first pushed scheme is remembered for the life of the Client, so a second, different push never reaches sessions opened later" % (label, cached[0][1].split("::")[-1]))
            continue
        ctx.ob("R19.2", "create_new_session:%s-uses-current-scheme" % label, ok, cs[0].site,
               "the scheme given to %s depends on the process-wide scheme cell" % label if ok else
               "the scheme given to %s is `%s`, frozen when the Client was built: a session opened after a push still announces the old md5, is pushed the scheme again, and shapes its first packets with the old scheme" % (label, fmt(t)[:60]))
    a = calls_norm(body, "auth::send_authentication")
    n = calls_norm(body, "Session::new_client")
    if a and n:
        same = strip_bb(o.of_operand(a[0].args[2])) == strip_bb(o.of_operand(n[0].args[2]))
        ctx.ob("R19.2", "create_new_session:one-scheme-for-preamble-and-session", same, n[0].site, "the preamble and the session use the same scheme object" if same else "the preamble and the session are given different schemes")


def r3_server_push(ctx):
    body = co(ctx, "R19.3", S + "handle_frame")
    if body is None:
        return
    cfg, conds, o = ctx.cfg(body), ctx.conds(body), ctx.origins(body)
    ne_true = []
    for c in conds.all():
        if c.kind == "bool" and is_call_term(c.term, "::ne", "::eq") and "padding-md5" in fmt(c.term) and any(is_call_term(s, "PaddingFactory::md5") for s in subterms(c.term)):
            ne_true += c.edges_for(True) if c.term[1].endswith("::ne") else c.edges_for(False)
    ws = []
    for c in calls_norm(body, "Session::write_frame", "Session::write_control_frame"):
        t = o.of_operand(c.args[1])
        if is_call_term(t, "Frame::with_data") and isinstance(t[3][0], tuple) and t[3][0][0] == "agg" and t[3][0][2] == "UpdatePaddingScheme":
            ws.append((c, t))
    if not ctx.floor("R19.3", "UpdatePaddingScheme write in the Settings arm", len(ws), 1):
        return
    # whether the client's announced md5 is compared at all must depend on nothing but the presence of that key: not on the
    # protocol version or any other setting the client sent
    cmp_blocks = [c_.block for c_ in conds.all() if c_.kind == "bool" and is_call_term(c_.term, "::ne", "::eq") and "padding-md5" in fmt(c_.term)]
    foreign = []
    for cb in cmp_blocks:
        for d2 in conds.all():
            if d2.block == cb:
                continue
            for lab in {x for v in d2.by_succ.values() for x in v}:
                e = d2.edges_for(lab)
                if not e or not cfg.edges_dominate(e, cb):
                    continue
                for s_ in subterms(d2.term):
                    if is_call_term(s_, "StringMap::get") and len(s_[3]) > 1 and "padding-md5" not in fmt(s_[3][1]):
                        foreign.append((d2, fmt(s_[3][1])))
                    if isinstance(s_, tuple) and s_ and s_[0] == "var" and "peer_version" in str(s_[1]):
                        foreign.append((d2, "self.peer_version"))
    if cmp_blocks:
        ctx.ob("R19.3", "Settings-arm:md5-comparison-independent-of-other-settings", not foreign, "",
               "the comparison is reached whenever the client sent a padding-md5, whatever else it sent" if not foreign else
               "the md5 comparison (and with it the push) is only reached under a test of %s: a client that announces another scheme but a different protocol version (v=1, or no `v`) is never sent the server's scheme" % foreign[0][1])
    c, t = ws[0]
    ok = bool(ne_true) and cfg.edges_dominate(ne_true, c.bb)
    ctx.ob("R19.3", "Settings-arm:push-on-md5-mismatch", ok, c.site, "the push is dominated by the not-equal edge of the md5 comparison" if ok else "the scheme is pushed regardless of / never on an md5 mismatch")
    data = t[3][2]
    okd = any(is_call_term(s, "PaddingFactory::raw_scheme") for s in subterms(data))
    ctx.ob("R19.3", "Settings-arm:pushes-raw-scheme", okd, c.site, "the frame carries raw_scheme() of the server's scheme" if okd else "the pushed payload is %s" % fmt(data)[:80])
    # ... byte for byte: the client computes the md5 it will announce from the bytes it receives, the server compares it with
    # the md5 of raw_scheme(); any transformation on the way (a text round trip, trimming) makes the two differ for some scheme
    # file and the scheme is pushed again on every session for the life of the process
    COPY = ("PaddingFactory::raw_scheme", "Bytes::copy_from_slice", "Bytes::from", "::to_vec", "::clone", "::deref", "::into", "::from", "::as_ref", "::as_slice", "::borrow", "::to_owned",
            "RwLock::read", "RwLock::<T>::read", "Mutex::lock", "Mutex::<T>::lock", "BytesMut::freeze", "Bytes::from_owner")
    other = [s_ for s_ in subterms(data) if isinstance(s_, tuple) and s_ and s_[0] == "call" and not is_call_term(s_, *COPY)]
    if okd:
        ctx.ob("R19.3", "Settings-arm:pushed-bytes-are-raw-scheme-unchanged", not other, c.site, "raw_scheme() reaches the frame through copies only" if not other else
               "the pushed payload is raw_scheme() passed through `%s`: for a scheme file that this does not map to itself (e.g. a non-UTF-8 comment byte through from_utf8_lossy) the client installs and announces the md5 "
               "of different bytes than the server hashes, the server never recognises it and pushes the scheme again on every new session" % other[0][1].split("::")[-1])


def r4_r5_client_adopts(ctx):
    body = co(ctx, "R19.4", S + "handle_frame")
    if body is None:
        return
    cfg, conds, o = ctx.cfg(body), ctx.conds(body), ctx.origins(body)
    ok_e, err_e = [], []
    for c in conds.all():
        if c.kind == "variant" and is_call_term(c.term, "PaddingFactory::update_default"):
            ok_e += c.edges_for("Ok")
            err_e += c.edges_for("Err")
            arg_ok = var_name(c.term[3][0]) == "frame.data"
    if not ok_e:
        ctx.missing("R19.4", "match on PaddingFactory::update_default in the UpdatePaddingScheme arm")
        return
    ctx.ob("R19.4", "UpdatePaddingScheme-arm:installs-frame-data", arg_ok, "", "update_default(frame.data)" if arg_ok else "update_default is not given the frame's payload")
    stores = [s for s in stores_through(body, o) if cfg.edges_dominate(ok_e, s[0])]
    hit = [s for s in stores if is_call_term(s[3], "PaddingFactory::default") and isinstance(s[2], tuple) and s[2][0] == "var" and len(s[2]) > 2 and "padding" in s[2][1]]
    from engine.anl.locks import guard_info, lock_fields
    okc = False
    for s in hit:
        gi = guard_info(body.lty(s[2][2]))
        if gi and gi[0] == "X" and "Session.padding" in lock_fields(ctx.P).get(gi[1], []):
            okc = True
    ctx.ob("R19.4", "UpdatePaddingScheme-arm:session-switches-to-default", okc, "src/session/session.rs:%s" % (hit[0][1] if hit else "?"),
           "on the Ok edge `*self.padding.write() = PaddingFactory::default()`" if okc else "after a successful update the session's own scheme cell is not assigned from the new default")
    sw, arms = C02.arm_regions(ctx, body)
    # every push handled by a client session ends with that session on the new scheme: the only way through the arm (client
    # role) that does not pass the assignment is the parse-failure edge
    if arms and "UpdatePaddingScheme" in arms and hit:
        s0, own0, allr0 = arms["UpdatePaddingScheme"]
        client_e = []
        for c in conds.all():
            if c.block in own0 | {s0} and c.kind == "bool" and var_name(c.term) == "self.is_client":
                client_e += c.succs_for(True)
        exits = [b_ for b_ in allr0 if b_ not in own0 and any(p_ in own0 for p_ in cfg.preds(b_))] or body.return_blocks()
        empty_e = []
        for c in conds.all():
            if c.block in own0 and c.kind == "bool" and is_call_term(c.term, "::is_empty") and "frame.data" in fmt(c.term):
                empty_e += c.succs_for(True)        # a push without payload carries no scheme
        if client_e:
            okall, pth = cfg.must_pass(client_e, exits, via_blocks=[s[0] for s in hit] + [e[1] for e in err_e] + empty_e)
            ctx.ob("R19.4", "UpdatePaddingScheme-arm:every-parsable-push-switches-this-session", okall, "", "from the client-role edge every path through the arm passes the assignment (or the parse-failure edge)" if okall else
                   "a path through the arm leaves this session's scheme unchanged although the push parsed (an early return, e.g. a 'this scheme is already the process default' shortcut): of two sessions opened before "
                   "the first push, the second one to receive it keeps shaping with the old scheme for the rest of its life", path=None if okall else render_path(body, pth))
    region = cfg.reach([e[1] for e in err_e])
    if arms and "UpdatePaddingScheme" in arms:
        region &= arms["UpdatePaddingScheme"][1]
    err_rets = [bi for kind, bi, si, rv in body.defs().get(0, []) if not (kind == "assign" and rv["r"] == "aggregate" and rv["kind"].get("variant") == "Ok") and bi in region]
    eff = [c for c in effectful_calls(body, region) if not (c.norm or "").endswith(("md5::compute", "LowerHex>::fmt", "Argument::new_lower_hex"))]
    ctx.ob("R19.5", "UpdatePaddingScheme-arm:bad-push-is-inert", not err_rets and not eff, "", "the Err edge only logs" if not err_rets and not eff else
           "a scheme that does not parse %s" % ("returns an error (which closes the session)" if err_rets else "triggers %s" % eff[0].norm))


def r9_settings_text_codec_siblings(ctx):
    """sibling cross-check: what StringMap::to_bytes writes, StringMap::from_bytes reads back — one `key=value` per line,
    joined by `\\n`, split at the first `=` (values may contain `=`: base64, md5 never do, but the scheme lines `1=100-400` are
    keys and values of this very format)"""
    fb = ctx.body("R19.9", "util::string_map::StringMap::from_bytes")
    tb = ctx.body("R19.9", "util::string_map::StringMap::to_bytes")
    if fb is None or tb is None:
        return
    def calls_of(b0):
        """(call, origins) over the function and its closures (iterator-chain forms put the work into closures)"""
        out = []
        for k_, b_ in ctx.P.bodies.items():
            if k_ not in ctx.P.inlined_away and (k_ == b0.name or k_.startswith(b0.name + "::")):
                o_ = ctx.origins(b_)
                out += [(c, o_) for c in b_.calls()]
        return out
    tcs, fcs = calls_of(tb), calls_of(fb)
    # writer: join separator and the format pieces
    joins = [(c, o_) for c, o_ in tcs if (c.norm or "").split("::")[-1] in ("join", "concat") and len(c.args) > 1]
    sep = fmt(joins[0][1].of_operand(joins[0][0].args[1])) if joins else None
    fmts = [fmt(o_.of_operand(a)) for c, o_ in tcs if (c.norm or "").endswith(("fmt::format", "Arguments::new", "<'a>::new")) for a in c.args]
    has_eq = any("=" in f for f in fmts)
    # reader: line splitting and first-`=` splitting
    by_lines = any((c.norm or "").split("::")[-1] in ("lines", "split") for c, o_ in fcs)
    so = [(c, o_) for c, o_ in fcs if (c.norm or "").split("::")[-1] in ("split_once", "splitn", "find") and len(c.args) > 1]
    first_eq = bool(so) and any(const_value_(o_.of_operand(c.args[-1])) == 61 or "=" in fmt(o_.of_operand(c.args[-1])) for c, o_ in so)
    last_eq = any((c.norm or "").split("::")[-1] in ("rsplit_once", "rsplitn", "rfind") for c, o_ in fcs)
    ok = sep is not None and "\\n" in sep and has_eq and by_lines and first_eq and not last_eq
    ctx.ob("R19.9", "StringMap:writer-and-reader-agree", ok, (joins[0][0].site if joins else ""), "to_bytes writes `key=value` lines joined by \\n; from_bytes splits into lines and at the first `=`" if ok else
           "StringMap::to_bytes and from_bytes do not describe the same format (separator %s, '=' written: %s, line split: %s, split at first '=': %s, split at last '=': %s): settings and padding schemes do not "
           "survive the trip between the two ends" % (sep, has_eq, by_lines, first_eq, last_eq))
    # every line is read: nothing limits or thins out the iteration over the lines (a pushed scheme longer than a "hardening" limit
    # would be adopted truncated — its md5, taken over all the bytes, still matches, so it is never pushed again either)
    thin = [c for c, o_ in fcs if (c.norm or "").split("::")[-1] in ("take", "skip", "step_by", "take_while", "skip_while", "nth", "truncate", "split_off") and "Iterator" in (c.norm or "") + (c.callee or "")]
    ctx.ob("R19.9", "StringMap:reader-reads-every-line", not thin, thin[0].site if thin else "", "the line iterator is consumed whole" if not thin else
           "from_bytes runs its lines through `%s(..)`: lines beyond the limit are dropped without a trace — a pushed scheme with more lines is adopted truncated (packets of the dropped lines leave unpadded) and, "
           "its md5 being that of the full text, is never corrected by a new push" % thin[0].norm.split("::")[-1])
    # the reader tolerates blanks around `=` (`stop = 8`, `1 = 100-400`): key and value are each trimmed *after* the split, so a
    # scheme laid out that way has the key `stop`, not `stop ` — otherwise a valid pushed scheme counts as unparsable
    ins = [(c, o_) for c, o_ in fcs if (c.norm or "").endswith(("HashMap::insert", "StringMap::insert", "BTreeMap::insert")) and len(c.args) > 2]
    if ins:
        c, o_ = ins[0]
        def trimmed_after_split(t):
            # the last thing done to the piece before it is stored (modulo the conversion to an owned String) is a trim
            for _ in range(4):
                if is_call_term(t, "::to_string", "::to_owned", "String::from", ">::from", ">::into", "::into_owned") and t[3]:
                    t = t[3][0]
                else:
                    break
            return is_call_term(t, "str::trim", "::trim")
        kt, vt = trimmed_after_split(o_.of_operand(c.args[1])), trimmed_after_split(o_.of_operand(c.args[2]))
        ctx.ob("R19.9", "StringMap:reader-trims-key-and-value-separately", kt and vt, c.site, "key and value are trimmed after the split at `=`" if kt and vt else
               "from_bytes stores the %s as split, without trimming it on its own: a scheme written `stop = 8` yields the key `stop ` (or the value ` 8`), PaddingFactory::new reports a missing/invalid stop and the "
               "client treats a valid push as unparsable — the session keeps the old scheme and every later session is pushed again" % ("key" if not kt else "value"))
    else:
        ctx.missing("R19.9", "insertion of the parsed key/value in StringMap::from_bytes")


def r8_announced_md5_is_the_sessions_own(ctx):
    """what a client session announces as padding-md5 is the md5 of the scheme that session shapes with (self.padding), and the
    scheme a write is shaped with is read inside the critical section that numbers the packet"""
    sb = co(ctx, "R19.8", S + "start_client")
    if sb is not None:
        o = ctx.origins(sb)
        ins = [c for c in calls_norm(sb, "StringMap::insert") if len(c.args) > 2 and "padding-md5" in fmt(o.of_operand(c.args[1]))]
        if not ins:
            ctx.missing("R19.8", "insertion of padding-md5 into the client's Settings")
        else:
            v = o.of_operand(ins[0].args[2])
            own = any(isinstance(s_, tuple) and s_ and s_[0] == "var" and str(s_[1]).startswith("self.padding") for s_ in subterms(v)) and any(is_call_term(s_, "PaddingFactory::md5") for s_ in subterms(v))
            glob = any(is_call_term(s_, "PaddingFactory::default", "PaddingFactory::pushed") for s_ in subterms(v))
            ctx.ob("R19.8", "start_client:announces-its-own-scheme", own and not glob, ins[0].site, "padding-md5 = md5 of self.padding" if own and not glob else
                   "the announced padding-md5 is `%s`, not the md5 of the scheme this session shapes with: a client configured with a custom scheme announces the process default, the server sees a match and never "
                   "pushes its scheme, so nothing is ever adopted" % fmt(v)[:80])
    wp = co(ctx, "R19.8", S + "write_with_padding")
    wf = co(ctx, "R19.8", S + "write_frame")
    if wp is not None and wf is not None:
        from engine.anl.locks import Held, lock_fields
        names = {cls: n[0] for cls, n in lock_fields(ctx.P).items()}
        rd_wp = [c for c in calls_norm(wp, "RwLock::read") if str(var_name(ctx.origins(wp).of_operand(c.args[0]))).startswith("self.padding")]
        rd_wf = [c for c in calls_norm(wf, "RwLock::read") if str(var_name(ctx.origins(wf).of_operand(c.args[0]))).startswith("self.padding")]
        early = []
        must = Held(wf, must=True)
        for c in rd_wf:
            held = {names.get(cls, cls) for (l, m, cls) in must.held_at_call(c.bb)}
            if "Session.buffer" not in held:
                early.append(c)
        ok = bool(rd_wp or rd_wf) and not early
        ctx.ob("R19.8", "write-path:scheme-read-inside-the-numbering-section", ok, (early[0] if early else (rd_wp or rd_wf)[0]).site if (early or rd_wp or rd_wf) else "",
               "the session's scheme is read after the buffer lock is taken (in write_with_padding, which every caller enters with Session.buffer held)" if ok else
               "the session's scheme is read before Session.buffer is taken: writes queued behind a stalled one keep the scheme they read while waiting, so a push that arrives in that window does not apply to "
               "packets that are numbered after it")


def r7_scheme_identity(ctx):
    """what is announced (md5), what is pushed (raw_scheme) and what is parsed are the same bytes"""
    body = ctx.body("R19.7", PF + "new")
    if body is None:
        return
    o = ctx.origins(body)
    from .common import param
    raw = param(body, 0)
    md = calls_norm(body, "md5::compute")
    fb = calls_norm(body, "StringMap::from_bytes")
    okm = bool(md) and var_name(o.of_operand(md[0].args[0])) == raw
    okp = bool(fb) and var_name(o.of_operand(fb[0].args[0])) == raw
    stored = None
    for bi in body.reachable():
        for st in body.blocks[bi]["stmts"]:
            if st["s"] == "assign" and st["rv"]["r"] == "aggregate" and st["rv"]["kind"].get("adt", "").endswith("PaddingFactory"):
                ops = {f: o.of_operand(op) for f, op in zip(st["rv"]["kind"]["fields"], st["rv"]["ops"])}
                stored = ops.get("raw_scheme")
    oks = stored is not None and is_call_term(stored, "::to_vec", "::to_owned", "Vec::from", "::into") and var_name(stored[3][0]) == raw
    ok = okm and okp and oks
    ctx.ob("R19.7", "PaddingFactory::new:md5-raw-and-parse-are-the-same-bytes", ok, md[0].site if md else "",
           "md5::compute(raw_scheme), raw_scheme.to_vec() and StringMap::from_bytes(raw_scheme) all take the argument as given" if ok else
           "the bytes hashed (%s), stored for pushing (%s) and parsed (%s) are not all the constructor's argument as given: the server pushes bytes whose md5 differs from the one it compares, so the client's next "
           "session announces a different md5 and is pushed the scheme again, for ever" % (fmt(o.of_operand(md[0].args[0]))[:30] if md else None, fmt(stored)[:40], fmt(o.of_operand(fb[0].args[0]))[:30] if fb else None))
    # the text that is announced is the digest's own 32-digit rendering (`{:x}` of md5::Digest pads every byte to two digits): a
    # rendering through an integer (`{:x}` of u128::from_be_bytes(..)) drops leading zeros — one scheme in sixteen announces a
    # 31-digit md5 that no peer computing the standard form recognises, and is pushed again on every session
    hexes, tys = [], []
    for k_ in [body.name] + sorted(k2 for k2 in ctx.cg.reachable_from([ctx.cg.key_of(body)]) if k2.startswith("padding::factory::") and k2 != body.name):
        b_ = ctx.P.bodies.get(k_)
        if b_ is None:
            continue
        for c in b_.calls(True):
            if (c.callee or "").endswith(("new_lower_hex", "new_upper_hex")) and c.args and c.args[0]["o"] != "const":
                hexes.append(c)
                tys.append(b_.lty(c.args[0]["place"]["local"]).get("s", ""))
    if hexes:
        okh = all("md5::Digest" in t_ for t_ in tys)
        ctx.ob("R19.7", "PaddingFactory::new:md5-text-is-the-digest's-own-rendering", okh, hexes[0].site, "`{:x}` is applied to md5::Digest itself" if okh else
               "the md5 text is produced by formatting `%s` in hex, not the Digest: leading zero digits are dropped, so a scheme whose md5 starts with 0 announces a shorter string than the peer computes — the "
               "scheme is pushed again on every new session" % [t_ for t_ in tys if "md5::Digest" not in t_][0][:40])
    else:
        ctx.missing("R19.7", "hex formatting of the digest in PaddingFactory::new")
    g = ctx.body("R19.7", PF + "raw_scheme")
    if g is not None:
        og = ctx.origins(g)
        rets = [og._rvalue(rv, (), bi, 0, frozenset()) for kind, bi, si, rv in g.defs().get(0, []) if kind == "assign"]
        okg = any("self.raw_scheme" in fmt(r) for r in rets) or any(is_call_term(("call", c.callee, 0, ()), "Deref>::deref") for c in g.calls())
        ctx.ob("R19.7", "PaddingFactory::raw_scheme:returns-the-stored-bytes", okg, "", "raw_scheme() returns the stored field" if okg else "raw_scheme() does not return self.raw_scheme")


def run(ctx):
    from . import effects
    effects.check_property(ctx, "C19")    # R19.E: no operation on shared protocol state outside the reviewed table
    from . import C05
    from . import C20 as _C20s
    _C20s.r17_panicking_index_methods(ctx, _C20s.input_reachable(ctx))   # a pushed scheme that does not parse is refused with an error value: quoting it in the message cannot panic the receive task
    r7_scheme_identity(ctx)
    r8_announced_md5_is_the_sessions_own(ctx)
    r9_settings_text_codec_siblings(ctx)
    from . import C10
    C10.r8_version_independent_of_padding(ctx)   # and conversely: the push does not depend on the protocol version the client announced
    C05.r3_role(ctx)      # what gates shaping besides the packet index is a per-role constant (no sticky per-session latch)
    C05.r2_stop(ctx)      # stop() and the sizes come from the scheme currently installed in the session
    C05.r1_index_origins(ctx)    # the index a packet is shaped under is the session's real packet number (one fetch_add per write): after a push with a larger stop, numbering does not resume from a stale count
    r1_replaceable(ctx)
    r2_new_sessions(ctx)
    r3_server_push(ctx)
    r4_r5_client_adopts(ctx)
