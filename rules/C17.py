"""C17 — the HTTP proxy forwards each request to its authority, unchanged in substance (structural clauses)."""
from engine.anl.casts import const_value
from engine.anl.origin import fmt, subterms, strip_bb
from .common import S, co, calls_norm, is_call_term, var_name, render_path, const_strs, spawned_children, param

from .common import ok_return_blocks as _okret

EXPLANATION = (
    "Static decision of the HTTP front-end's control structure: (R17.1) the 200 reply to CONNECT is dominated by the Ok edge of "
    "create_proxy_stream and the Err edge answers 502 (= R10.6); (R17.2) the bytes that arrived behind the header (request.body) are "
    "forwarded exactly once when non-empty, on every path from the successful open to the start of the forwarding tasks — CONNECT included; "
    "(R17.3) the header accumulation loop has an exit on buf.len() > MAX_HEADER_SIZE (evaluated 65536) that every iteration passes, and an "
    "exit on a 0-byte read; (R17.4) the forwarded request is the request line built from method/path/version followed by a single in-order "
    "pass over the header lines with no reordering/dedup call, replacing only lines that start with `host:` and adding Host when absent; "
    "(R17.5) the destination given to create_proxy_stream is the parsed (host, port) (= R07.4); the accept loop never exits and spawns per "
    "connection. Not decided: correctness of authority parsing for every spelling (value level)."
)
RULE_TEXT = "one obligation per reply, per path class of the early bytes, per loop exit, per append of the rewriter; non-trivial = needed a dominance, must-pass-through, cycle or origin query"

HP = "client::http_proxy::"


def r2_early_bytes(ctx):
    body = co(ctx, "R17.2", HP + "handle_http_proxy_connection")
    if body is None:
        return
    cfg, conds, o = ctx.cfg(body), ctx.conds(body), ctx.origins(body)
    ok_e = []
    for c in conds.all():
        if c.kind == "variant" and is_call_term(c.term, "Client::create_proxy_stream") and c.path == () and "Ok" in sum(c.by_succ.values(), []):
            ok_e += c.edges_for("Ok")
    spawns = [c for c in body.calls() if (c.norm or "") == "tokio::spawn"]
    if not ok_e or not spawns:
        ctx.missing("R17.2", "Ok edge of create_proxy_stream / forwarding spawns in handle_http_proxy_connection")
        return
    bw = []
    for c in calls_norm(body, "Session::write_data_frame"):
        t = o.of_operand(c.args[2])
        if ".body" in fmt(t) and any(is_call_term(s, "http_proxy::parse_http_request") for s in subterms(t)):
            bw.append(c)
    empty_true = []
    for c in conds.all():
        if c.kind == "bool" and is_call_term(c.term, "::is_empty") and ".body" in fmt(c.term):
            empty_true += c.edges_for(True)
    if not bw:
        ctx.ob("R17.2", "early-bytes:forwarded", False, "", "the bytes read behind the header (request.body) are never written to the stream")
        return
    first_spawn = min(spawns, key=lambda c: c.bb)
    targets = [s.bb for s in spawns]
    p = cfg.path([e[1] for e in ok_e], targets, avoid_blocks=[c.bb for c in bw], avoid_edges=empty_true)
    ok = p is None
    what = ""
    if p:
        for b in p:
            cc = conds.at(b)
            if cc is not None and cc.kind == "bool" and "is_connect" in fmt(cc.term):
                what = " (the CONNECT branch)"
    ctx.ob("R17.2", "early-bytes:forwarded-on-every-path", ok, bw[0].site,
           "every path from the successful open to the forwarding tasks writes request.body when it is not empty" if ok else
           "there is a path%s from the successful open to the forwarding tasks that neither forwards request.body nor found it empty: a client that pipelines bytes behind the header "
           "(e.g. its TLS ClientHello right after CONNECT) loses them" % what, path=None if ok else render_path(body, p)[:14])
    twice = [c for c in bw if any(d.bb in cfg.reach_after(c.bb) for d in bw)]
    ctx.ob("R17.2", "early-bytes:at-most-once", not twice, bw[0].site, "no path writes request.body twice" if not twice else "request.body can be forwarded twice")
    # and before the forwarding loop reads more client bytes
    okb = all(cfg.dominates(0, c.bb) and not any(s.bb in cfg.reach([0], avoid_blocks=[c.bb]) and False for s in spawns) for c in bw)
    ctx.ob("R17.2", "early-bytes:before-forwarding-starts", all(not cfg.reach([s.bb for s in spawns]) & {c.bb} for c in bw), "", "request.body is written before the forwarding tasks are spawned (order preserved)")


def r3_bounded_header(ctx):
    body = co(ctx, "R17.3", HP + "read_http_header")
    if body is None:
        return
    cfg, conds, o = ctx.cfg(body), ctx.conds(body), ctx.origins(body)
    rd = calls_norm(body, "AsyncReadExt::read")
    if not ctx.floor("R17.3", "read call in read_http_header", len(rd), 1):
        return
    MAXH = ctx.P.const_int("MAX_HEADER_SIZE")
    lim = [c for c in conds.all() if c.kind == "bool" and isinstance(c.term, tuple) and c.term[0] == "binop" and c.term[1] in ("Gt", "Ge") and is_call_term(c.term[2], "::len") and const_value(c.term[3]) is not None]
    if not lim:
        ctx.ob("R17.3", "read_http_header:size-cap", False, "", "the header accumulation loop has no size limit: a client that never sends the terminator makes the buffer grow without bound")
        return
    c = lim[0]
    cap = const_value(c.term[3])
    ext = calls_norm(body, "Vec::extend_from_slice")
    err_region = cfg.reach(c.succs_for(True))
    ok_rets = _okret(body, ctx.origins(body))
    leaves = not (rd[0].bb in err_region) and not [b for b in ok_rets if b in err_region]
    every = bool(ext) and cfg.must_pass([ext[0].bb], [rd[0].bb], via_blocks=[c.block])[0]
    ok = cap is not None and cap <= 1 << 20 and leaves and every and cap == MAXH
    ctx.ob("R17.3", "read_http_header:size-cap", ok, "src/client/http_proxy.rs:%s" % body.blocks[c.block]["tspan"]["line"],
           "after every append the loop checks buf.len() > %s and fails" % cap if ok else "the size cap (%s) is not checked on every iteration / does not leave the loop" % cap)
    z = [cc for cc in conds.all() if cc.kind == "bool" and isinstance(cc.term, tuple) and cc.term[0] == "binop" and cc.term[1] == "Eq" and is_call_term(cc.term[2], "AsyncReadExt::read") and const_value(cc.term[3]) == 0]
    okz = bool(z) and rd[0].bb not in cfg.reach(z[0].succs_for(True))
    ctx.ob("R17.3", "read_http_header:eof-exit", okz, "", "a 0-byte read leaves the loop with an error" if okz else "a closed connection does not end the header loop (spin)")


def r3c_first_terminator(ctx):
    """the header block ends at the FIRST blank line of what was read; anything behind it is body / the next request"""
    n = 0
    bad = []
    for key, body in ctx.P.bodies.items():
        if not (key == HP + "find_header_end" or key.startswith(HP + "find_header_end::")):
            continue
        for c in body.calls():
            n += 1
            last = (c.norm or "").split("::")[-1]
            if last in ("rposition", "rfind", "rev", "last", "max", "max_by_key", "next_back", "rsplit", "rsplit_once", "rsplitn", "rmatch_indices", "nth_back"):
                bad.append(c)
    if not ctx.floor("R17.3", "calls in find_header_end", n, 1):
        return
    ctx.ob("R17.3", "find_header_end:first-terminator-wins", not bad, bad[0].site if bad else "", "the terminator is searched front to back" if not bad else
           "find_header_end searches with `%s` (from the back): when the bytes that arrived with the header contain another blank line (a multipart or text body, a pipelined second request) the boundary lands on the "
           "last one — body lines are parsed and re-emitted as header lines and the body comes up short" % bad[0].norm.split("::")[-1])


def r3b_scan_window(ctx):
    body = co(ctx, "R17.3", HP + "read_http_header")
    if body is None:
        return
    o = ctx.origins(body)
    fe = calls_norm(body, "http_proxy::find_header_end")
    ext = calls_norm(body, "Vec::extend_from_slice")
    if not ctx.floor("R17.3", "find_header_end / extend_from_slice in read_http_header", min(len(fe), len(ext)), 1):
        return
    acc = o.of_operand(ext[0].args[0])
    arg = o.of_operand(fe[0].args[0])
    whole = isinstance(arg, tuple) and arg[0] == "var" and arg == acc
    ctx.ob("R17.3", "read_http_header:terminator-search-covers-the-whole-buffer", whole, fe[0].site,
           "the terminator is searched in the whole accumulated buffer after every read" if whole else
           "the header terminator is searched in `%s`, not in the whole accumulated buffer: a terminator that straddles two reads (\\r\\n\\r | \\n) is only found if the window backs up at least len(terminator)-1 bytes, "
           "which this rule cannot establish — a request whose reads split there never completes" % fmt(arg)[:100])
    # every byte read is appended, as read: what goes into the accumulated buffer is tmp[..n] of this turn's read — nothing is
    # stripped or rewritten per chunk (a chunk boundary is an accident of the network, not a place in the message)
    from .C01 import exactly_what_was_read
    rd = [c for c in body.calls() if (c.norm or "").endswith(("AsyncReadExt::read", "AsyncReadExt::read_buf"))]
    if rd and len(rd[0].args) > 1:
        data = o.of_operand(ext[0].args[1])
        same = exactly_what_was_read(data, o.of_operand(rd[0].args[1]), rd[0].bb)
        ctx.ob("R17.3", "read_http_header:appends-exactly-what-was-read", same, ext[0].site, "extend_from_slice(&tmp[..n]) with n from this turn's read" if same else
               "what is appended to the header buffer is `%s`, not exactly the bytes this read returned: something is cut or changed per chunk, so the message the parser sees depends on where the network "
               "happened to cut it (a line break at the start of a read disappears: two header lines are glued together, or the blank line is never found)" % fmt(data)[:90])
    # what is returned: header = buf[..end], rest = buf[end..] with the same end
    rets = [o.of_operand(rv["ops"][0]) for kind, bi, si, rv in body.defs().get(0, []) if kind == "assign" and rv["r"] == "aggregate" and rv["kind"].get("variant") == "Ok"]
    ok = False
    for r in rets:
        if isinstance(r, tuple) and r[0] == "agg" and len(r[3]) == 2:
            f0, f1 = fmt(r[3][0]), fmt(r[3][1])
            ok = "RangeTo{" in f0 and "RangeFrom{" in f1 and "find_header_end" in f0 and "find_header_end" in f1
    ctx.ob("R17.3", "read_http_header:split-at-header-end", ok, "", "returns (buf[..end], buf[end..]) with end from find_header_end" if ok else "header/body split does not use one end position")


def r6_target_derivation(ctx):
    body = ctx.body("R17.6", HP + "determine_target")
    if body is None:
        return
    cfg, conds, o = ctx.cfg(body), ctx.conds(body), ctx.origins(body)
    tgt = param(body, 1)
    sw_true = []
    https_true = []
    from .common import const_strs
    for c in conds.all():
        if c.kind == "bool" and is_call_term(c.term, "str::starts_with", "::starts_with") and var_name(c.term[3][0]) == tgt:
            lit = fmt(c.term[3][1])
            if "http://" in lit or "https://" in lit:
                sw_true += c.edges_for(True)
            if "https://" in lit:
                https_true += c.edges_for(True)
    uses = [c for c in body.calls() if ((c.norm or "").endswith(("str::find", "str::rfind")) or (c.callee or "").endswith("Index<I> for str>::index")) and var_name(o.of_operand(c.args[0])) == tgt]
    if not ctx.floor("R17.6", "scheme tests / uses of the request target in determine_target", min(len(sw_true), len(uses)), 1):
        return
    bad = [c for c in uses if not cfg.edges_dominate(sw_true, c.bb)]
    ctx.ob("R17.6", "determine_target:absolute-form-anchored-at-start", not bad, uses[0].site,
           "the target is taken apart as an absolute URI only under starts_with(\"http://\") / starts_with(\"https://\")" if not bad else
           "the request target is searched/sliced for a URI scheme without having been tested with starts_with(\"http://\"|\"https://\") (line %s): an origin-form request whose path or query contains `://` "
           "(e.g. /login?next=http://elsewhere/cb) is routed to the embedded host instead of its Host header" % bad[0].line)
    # on the absolute-form paths the origin-form target that is forwarded is what follows the authority (or `/`), never the
    # whole request target: every way from a scheme edge to the successful return re-assigns the path variable
    path_local = None
    okret = None
    for kind, bi, si, rv in body.defs().get(0, []):
        if kind == "assign" and rv["r"] == "aggregate" and rv["kind"].get("variant") == "Ok" and rv["ops"] and cfg.reach([e[1] for e in sw_true]) & {bi}:
            tup = rv["ops"][0]
            if tup["o"] in ("move", "copy"):
                for d in body.defs().get(tup["place"]["local"], []):
                    if d[0] == "assign" and d[3]["r"] == "aggregate" and len(d[3]["ops"]) >= 3 and d[3]["ops"][2]["o"] in ("move", "copy"):
                        path_local = d[3]["ops"][2]["place"]["local"]
                        okret = d[1]
                        for _ in range(4):      # through the temporaries that carry the variable into the tuple
                            ds_ = [x for x in body.defs().get(path_local, []) if x[0] in ("assign", "call")]
                            if len(ds_) == 1 and ds_[0][0] == "assign" and ds_[0][3]["r"] == "use" and ds_[0][3]["op"].get("o") in ("move", "copy") and not ds_[0][3]["op"]["place"]["proj"]:
                                path_local = ds_[0][3]["op"]["place"]["local"]
                            else:
                                break
    if path_local is not None:
        pdefs = [d[1] for d in body.defs().get(path_local, []) if d[0] in ("assign", "call")]
        in_abs = [b_ for b_ in pdefs if cfg.edges_dominate(sw_true, b_)]
        # the scheme tests that *enter* the absolute-form handling (a later `starts_with("https://")` that only picks the port comes
        # after the path has been assigned)
        before = cfg.reach([0], avoid_blocks=in_abs)
        entry = [e for e in sw_true if e[0] in before]
        okp, pth = cfg.must_pass([e[1] for e in entry], [okret], via_blocks=in_abs) if in_abs and entry else (False, None)
        ctx.ob("R17.6", "determine_target:absolute-form-path-is-what-follows-the-authority", okp, "",
               "on every absolute-form path the forwarded target is re-assigned (the rest after the authority, or `/`)" if okp else
               "an absolute-form request can keep the whole request target as its path (no assignment of the path on some way from the scheme test to the return): `GET http://host HTTP/1.1` is forwarded as "
               "`GET /http://host HTTP/1.1`", path=None if okp or not pth else render_path(body, pth))
    else:
        ctx.missing("R17.6", "the path component of determine_target's Ok tuple")
    # the authority ends at the first `/` of the scheme-less target: the text in which that `/` is looked for has been cut by the
    # scheme and by nothing else — a cut at some other character (`@` for user-info, `?`, `#`) made on the whole rest lets a
    # character of the path or query decide the destination
    SEARCH = ("find", "rfind", "split_once", "rsplit_once", "split", "rsplit", "splitn", "rsplitn", "split_terminator", "trim_start_matches", "trim_end_matches", "trim_matches",
              "strip_suffix", "strip_prefix", "matches", "match_indices", "rmatch_indices", "split_at", "char_indices", "chars", "bytes")
    seps = []
    for c in body.calls():
        if (c.norm or "").endswith(("str::find", "str::split_once", "str::splitn", "str::split")) and len(c.args) > 1 and cfg.edges_dominate(sw_true, c.bb):
            pat = o.of_operand(c.args[1])
            if const_value(pat) == 47 or fmt(pat).strip('"') == "/":
                seps.append(c)
    if seps:
        w = o.of_operand(seps[0].args[0])
        foreign = []
        for s_ in subterms(w):
            if isinstance(s_, tuple) and s_ and s_[0] == "call" and s_[1].split("::")[-1] in SEARCH and len(s_[3]) > 1:
                lit = fmt(s_[3][1]).strip('"')
                if lit not in ("://", "http://", "https://"):
                    foreign.append(s_)
        ctx.ob("R17.6", "determine_target:authority-ends-at-the-first-slash-of-the-scheme-less-target", not foreign, seps[0].site,
               "the text searched for the path separator is the target minus its scheme" if not foreign else
               "before the authority is separated from the path, the scheme-less target is cut with `%s(%s)`: a character of the path or query (`http://host/@alice`, `?email=bob@mail.example`) then decides "
               "which host the request is sent to" % (foreign[0][1].split("::")[-1], fmt(foreign[0][3][1])[:12]))
    else:
        ctx.missing("R17.6", "separation of authority and path (search for `/`) on the absolute-form path of determine_target")
    # the Host header supplies the destination only for a target that is not in absolute form (RFC 7230 5.4: the request
    # target's authority wins)
    sw_false = {}
    for c in conds.all():
        if c.kind == "bool" and is_call_term(c.term, "str::starts_with", "::starts_with") and var_name(c.term[3][0]) == tgt and ("http://" in fmt(c.term[3][1]) or "https://" in fmt(c.term[3][1])):
            lit = "https" if "https://" in fmt(c.term[3][1]) else "http"
            sw_false.setdefault(lit, [])
            sw_false[lit] += c.edges_for(False)
    host_defs = []
    for l in body.debug:
        if body.lty(l).get("s") != "std::string::String":
            continue
        for d in body.defs().get(l, []):
            t_ = o._def(d, (), 0, frozenset())
            from .common import phi_alts
            # the value itself (not something a function of this crate computed from it, like split_host_port's result)
            direct = not any(isinstance(a, tuple) and a[0] == "call" and a[1].startswith(("client::", "server::", "util::", "session::", "padding::", "protocol::")) for a in phi_alts(t_))
            from .common import depends_on_var
            if direct and depends_on_var(o, t_, param(body, 2)) and not depends_on_var(o, t_, tgt) and d[0] in ("assign", "call"):
                # only assignments to the variable that feeds split_host_port (the destination host)
                host_defs.append((l, d))
    shp_all = calls_norm(body, "http_proxy::split_host_port")
    dest_locals = set()
    for c in shp_all:
        for s in subterms(o.of_operand(c.args[0])):
            if isinstance(s, tuple) and s[0] == "var" and len(s) > 2:
                dest_locals.add(s[2])
    dest_alts = [fmt(o.of_operand(c.args[0])) for c in shp_all]
    bad_h = []
    n_h = 0
    for l, d in host_defs:
        # is this String the one handed to split_host_port (possibly through a phi)?
        defs_block = d[1]
        # the destination variable itself is the one whose defs include String::new() and to_string(index(target..))
        others = [o._def(x, (), 0, frozenset()) for x in body.defs().get(l, [])]
        if not any(any(is_call_term(s, "::index") for s in subterms(t2)) or is_call_term(t2, "String::new") for t2 in others):
            continue
        n_h += 1
        if not all(cfg.edges_dominate(e, defs_block) for e in sw_false.values() if e):
            bad_h.append(d)
    # the Host value is everything after the field name (host[:port], IPv6 literals contain colons): not one field of a split
    one_field = []
    for l, d in host_defs:
        t_ = o._def(d, (), 0, frozenset())
        for s_ in subterms(t_):
            if isinstance(s_, tuple) and s_ and s_[0] == "call" and "str::" in s_[1] and "Split" in s_[1] and s_[1].endswith(("::next", "::nth", "::last", "::next_back")):
                one_field.append(s_)
    if host_defs:
        ctx.ob("R17.6", "determine_target:Host-value-is-the-whole-field-value", not one_field, "",
               "the Host header's value is the rest of the line after the field name" if not one_field else
               "the Host header's value is one piece of a split of the line (`%s`): `Host: app.internal:8080` loses its port (the request goes to port 80) and a bracketed IPv6 literal is cut at its first colon" % fmt(one_field[0])[:70])
    if n_h:
        ctx.ob("R17.6", "determine_target:Host-header-only-for-non-absolute-target", not bad_h, "",
               "the destination is taken from the Host header only on the false edges of both scheme tests" if not bad_h else
               "the Host header can overwrite the destination although the request target is in absolute form: `GET http://a:8080/ ` with `Host: b` is dialled at b:80 instead of a:8080")
    else:
        ctx.missing("R17.6", "assignment of the destination host from the Host header in determine_target")
    # ... and on the absolute-form path the header lines are not consulted at all: RFC 7230 5.4 — the proxy follows the request
    # target and rewrites Host; a test of the Host line there can only refuse or divert a request whose target was perfectly clear
    from .common import depends_on_var as _dep
    hdr = param(body, 2)
    looks = []
    for c in conds.all():
        if c.kind in ("bool", "variant", "int") and any(e and cfg.edges_dominate(sw_true, c.block) for e in [sw_true]) and _dep(o, c.term, hdr):
            looks.append(c)
    ctx.ob("R17.6", "determine_target:absolute-form-does-not-consult-the-header-lines", not looks, "src/client/http_proxy.rs:%s" % body.blocks[looks[0].block]["tspan"]["line"] if looks else "",
           "no decision under the scheme edge depends on the header lines" if not looks else
           "under the absolute-form edge a decision depends on the header lines (`%s`): `GET http://example.com:80/` with `Host: example.com` — what curl sends — is refused or routed by the Host line "
           "instead of by its target" % fmt(looks[0].term)[:70])
    # default ports: CONNECT 443; plain 80; https 443
    shp = calls_norm(body, "http_proxy::split_host_port")
    consts = sorted({const_value(o.of_operand(c.args[1])) for c in shp if const_value(o.of_operand(c.args[1])) is not None})
    conn_ok = 443 in consts
    ctx.ob("R17.6", "determine_target:CONNECT-default-port-443", conn_ok, "", "CONNECT authority without a port defaults to 443" if conn_ok else "CONNECT default port constants are %s" % consts)
    # the default-port variable: a u16 local assigned from constants only (its name does not matter)
    pl = [l for l in body.debug if body.lty(l).get("s") == "u16" and len([d for d in body.defs().get(l, []) if d[0] == "assign"]) >= 2
          and all(const_value(o._rvalue(d[3], (), d[1], 0, frozenset())) is not None for d in body.defs().get(l, []) if d[0] == "assign")]
    okp = False
    if pl:
        defs = [d for d in body.defs().get(pl[0], []) if d[0] == "assign"]
        vals = sorted(const_value(o._rvalue(d[3], (), d[1], 0, frozenset())) or -1 for d in defs)
        okp = vals == [80, 443] and any(cfg.edges_dominate(https_true, d[1]) for d in defs if const_value(o._rvalue(d[3], (), d[1], 0, frozenset())) == 443)
    ctx.ob("R17.6", "determine_target:default-ports-80-and-443-for-https", okp, "", "default port 80, 443 under starts_with(\"https://\")" if okp else "default port handling is not {80, 443 for https}")


def r7_parsing_totality(ctx):
    from .common import never_err
    shp = ctx.body("R17.7", HP + "split_host_port")
    if shp is not None:
        ok = never_err(shp)
        ctx.ob("R17.7", "split_host_port:falls-back-to-the-default-port", ok, "", "split_host_port always returns Ok: a suffix that is not a port (the inside of a bracketed IPv6 literal) means 'no port given'" if ok else
               "split_host_port can fail: an authority whose last `:` is not followed by a port — a bracketed IPv6 literal without a port such as [::1] or http://[2001:db8::1]/ — is refused instead of getting the default port")
    if shp is not None:
        # `[v6]:port`: the closing bracket sits *before* the port colon, so brackets are stripped from the host part after the port
        # has been cut off — stripping at the ends of the whole authority first leaves `2001:db8::1]`
        o_ = ctx.origins(shp)
        hosts = []
        for kind, bi, si, rv in shp.defs().get(0, []):
            if kind == "assign" and rv["r"] == "aggregate" and rv["kind"].get("variant") == "Ok" and rv["ops"]:
                t = o_.of_operand(rv["ops"][0])
                if isinstance(t, tuple) and t and t[0] == "agg" and len(t[3]) == 2 and any(is_call_term(s_, "::parse") for s_ in subterms(t[3][1])):
                    hosts.append(t[3][0])
        if not hosts:
            ctx.missing("R17.7", "Ok((host, parsed port)) return of split_host_port")
        for h in hosts:
            def strips_closing_bracket_outside_the_cut(t):
                for s_ in subterms(t):
                    if isinstance(s_, tuple) and s_ and s_[0] == "call" and s_[1].split("::")[-1] in ("trim_matches", "trim_end_matches", "strip_suffix", "trim_end_matches") and len(s_[3]) > 1 \
                            and (const_value(s_[3][1]) == 93 or "]" in fmt(s_[3][1])):
                        if any(is_call_term(x, "::index") or is_call_term(x, "::split_at") or is_call_term(x, "::rsplit_once") or is_call_term(x, "::split_once") for x in subterms(s_[3][0])):
                            return True
                return False
            ok = strips_closing_bracket_outside_the_cut(h)
            ctx.ob("R17.7", "split_host_port:brackets-stripped-after-the-port-is-cut-off", ok, "", "the host of `host:port` is the part before the last colon with its brackets stripped" if ok else
                   "the host returned with a parsed port is `%s`: the closing bracket is not stripped from the part before the port colon (stripping at the ends of the whole authority cannot reach it), so "
                   "`[2001:db8::1]:8443` yields the host `2001:db8::1]`, which is sent as a domain name and fails to resolve" % fmt(h)[:90])
    pr = ctx.body("R17.7", HP + "parse_http_request")
    if pr is not None:
        bad = [c for c in pr.calls() if (c.norm or "").split("::")[-1] in ("take", "skip", "step_by", "take_while", "skip_while", "nth", "truncate", "dedup", "sort", "rev", "last", "pop", "swap_remove", "remove", "drain")
               and ("Iterator" in (c.norm or "") or "Vec" in (c.norm or ""))]
        ctx.ob("R17.7", "parse_http_request:keeps-every-header-line", not bad, bad[0].site if bad else "", "the header lines are collected with map/filter(non-empty) only" if not bad else
               "parse_http_request applies `%s` to the header lines: lines are silently dropped or reordered (a cap that truncates instead of rejecting loses the rest of the header block, including a late Host header)" % bad[0].norm.split("::")[-1])


def r4_rewriting(ctx):
    body = ctx.body("R17.4", HP + "build_forward_request")
    if body is None:
        return
    cfg, conds, o = ctx.cfg(body), ctx.conds(body), ctx.origins(body)
    bad = [c for c in body.calls() if (c.norm or "").split("::")[-1] in ("sort", "sort_by", "sort_by_key", "sort_unstable", "dedup", "dedup_by", "dedup_by_key", "reverse", "rev", "retain", "swap", "rotate_left", "rotate_right", "drain", "remove", "swap_remove", "truncate", "pop")]
    ctx.ob("R17.4", "build_forward_request:no-reordering-call", not bad, bad[0].site if bad else "", "no sort/dedup/reverse/remove call on the header lines" if not bad else "build_forward_request calls %s: header lines are reordered or dropped" % bad[0].norm)
    nxt = calls_norm(body, "Iterator>::next")
    ok1 = len(nxt) == 1 and cfg.in_cycle(nxt[0].bb)
    ctx.ob("R17.4", "build_forward_request:single-in-order-pass", ok1, nxt[0].site if nxt else "", "one loop over req.headers" if ok1 else "%d iteration sites over the headers" % len(nxt))
    if not ok1:
        return
    loop = cfg.cycle_blocks(nxt[0].bb)
    ext = calls_norm(body, "Vec::extend_from_slice")
    first = [c for c in ext if cfg.dominates(c.bb, nxt[0].bb)]
    okl = False
    if first:
        t = o.of_operand(first[0].args[1])
        f = fmt(t)
        okl = all(x in f for x in ("req.method", "req.version")) and "req.path" in f
    ctx.ob("R17.4", "build_forward_request:request-line", okl, first[0].site if first else "", "request line = method, path (or /), version" if okl else "the request line is not built from method/path/version")
    host_t = []
    for c in conds.all():
        if c.block in loop and c.kind == "bool" and is_call_term(c.term, "str::starts_with", "::starts_with") and "host:" in fmt(c.term).lower():
            host_t = c
    if not host_t:
        ctx.missing("R17.4", "`starts_with(\"host:\")` test in the header loop")
        return
    tr, fr = cfg.reach(host_t.succs_for(True), stop_at=[nxt[0].bb]), cfg.reach(host_t.succs_for(False), stop_at=[nxt[0].bb])
    verb = [c for c in ext if c.bb in loop and c.bb in fr and c.bb not in tr]
    okv = any(any(is_call_term(s, "Iterator>::next") for s in subterms(o.of_operand(c.args[1]))) for c in verb)
    ctx.ob("R17.4", "build_forward_request:other-lines-verbatim", okv, verb[0].site if verb else "", "a line that is not Host is appended as it is, followed by CRLF" if okv else "non-Host header lines are not copied verbatim")
    repl = [c for c in ext if c.bb in loop and c.bb in tr and c.bb not in fr]
    okr = bool(repl) and not any(any(is_call_term(s, "Iterator>::next") for s in subterms(o.of_operand(c.args[1]))) for c in repl)
    ctx.ob("R17.4", "build_forward_request:only-Host-replaced", okr, repl[0].site if repl else "", "only lines starting with host: are replaced by the normalised Host header" if okr else "the Host replacement branch is missing or copies the original line")
    tail = [c for c in ext if c.bb not in loop and cfg.dominates(nxt[0].bb, c.bb)]
    okt = any(fmt(o.of_operand(c.args[1])).endswith('b"\\r\\n"') or "\\r\\n" in fmt(o.of_operand(c.args[1])) for c in tail)
    ctx.ob("R17.4", "build_forward_request:terminator", okt, "", "the header block is closed with an empty line" if okt else "no terminating CRLF is appended")


def r9_host_field_name_any_case(ctx):
    """header field names are case-insensitive (RFC 7230 3.2): the place that takes the destination from the Host line and the
    place that replaces the Host line recognise it in any spelling (`Host:`, `host:`, `HOST:`) — and so agree with each other"""
    d = ctx.body("R17.9", HP + "determine_target")
    b = ctx.body("R17.9", HP + "build_forward_request")
    if d is None or b is None:
        return
    def recognisers(body0):
        sens, insens = [], []
        # the function, its closures, and the helpers of the same module it calls (a `find_host_header()` extracted from it)
        reach = {k_ for k_ in ctx.cg.reachable_from([ctx.cg.key_of(body0)]) if k_.startswith(HP) or k_ == body0.name}
        for key_, body in ctx.P.bodies.items():
            if key_ in ctx.P.inlined_away:
                continue
            if not (key_ == body0.name or key_.startswith(body0.name + "::") or key_ in reach or key_.split("::{closure")[0] in reach):
                continue
            _scan(body, sens, insens)
        return sens, insens

    def _scan(body, sens, insens):
        o = ctx.origins(body)
        for c in body.calls():
            last = (c.norm or "").split("::")[-1]
            if last in ("strip_prefix", "starts_with") and len(c.args) > 1:
                lit = fmt(o.of_operand(c.args[1]))
                if "host:" in lit.lower():
                    recv = o.of_operand(c.args[0])
                    folded = any(isinstance(s_, tuple) and s_ and s_[0] == "call" and s_[1].split("::")[-1] in ("to_ascii_lowercase", "to_lowercase", "to_ascii_uppercase", "to_uppercase") for s_ in subterms(recv))
                    if not folded:
                        for s_ in subterms(recv):
                            if isinstance(s_, tuple) and s_ and s_[0] == "var" and len(s_) > 2:
                                folded = folded or any(isinstance(x, tuple) and x and x[0] == "call" and x[1].split("::")[-1] in ("to_ascii_lowercase", "to_lowercase") for x in subterms(o.init_of(s_[2])))
                    (insens if folded else sens).append(c)
            if last == "eq_ignore_ascii_case" and any("host" in fmt(o.of_operand(a)).lower() for a in c.args):
                insens.append(c)
    ds, di = recognisers(d)
    bs, bi_ = recognisers(b)
    if not (ds or di) or not (bs or bi_):
        ctx.missing("R17.9", "recognition of the Host line in determine_target / build_forward_request")
        return
    ok_d = bool(di) and not ds
    ctx.ob("R17.9", "determine_target:Host-field-name-in-any-case", ok_d, (ds or di)[0].site, "the Host line is recognised case-insensitively" if ok_d else
           "determine_target recognises the Host line by exact-case prefixes only (%s): a well-formed origin-form request that spells the field `HOST:` (or `hOst:`) has no destination and is refused, "
           "while build_forward_request does recognise that line" % sorted({fmt(ctx.origins(d).of_operand(c.args[1]))[:12] for c in ds}))
    ok_b = bool(bi_) and not bs
    ctx.ob("R17.9", "build_forward_request:Host-field-name-in-any-case", ok_b, (bs or bi_)[0].site, "the Host line is recognised case-insensitively" if ok_b else
           "build_forward_request recognises the Host line by exact-case prefixes only: a `HOST:` line is forwarded next to the normalised one (two Host headers)")


def r8_body_once_and_forms(ctx):
    """(a) the body bytes that came with the header are forwarded in one place only: the rewritten request built by
    build_forward_request is the header block and nothing else; (b) the empty strings produced by splitting the CRLFCRLF terminator
    never become header lines: at least one of parser / rebuilder drops empty lines; (c) a request target is given a leading `/`
    only if it is neither origin-form nor the asterisk form (`OPTIONS *`)"""
    b = ctx.body("R17.8", HP + "build_forward_request")
    if b is not None:
        reads_body = []
        for bi in sorted(b.reachable()):
            blk = b.blocks[bi]
            places = []
            for st in blk["stmts"]:
                if st["s"] == "assign":
                    rv = st["rv"]
                    for k in ("op", "a", "b"):
                        if isinstance(rv.get(k), dict) and rv[k].get("o") in ("copy", "move"):
                            places.append(rv[k]["place"])
                    if "place" in rv:
                        places.append(rv["place"])
                    places += [x["place"] for x in rv.get("ops", []) if x.get("o") in ("copy", "move")]
            if blk["term"]["t"] == "call":
                places += [x["place"] for x in blk["term"]["args"] if x.get("o") in ("copy", "move")]
            for p in places:
                if any(e["p"] == "field" and e.get("name") == "body" for e in p["proj"]):
                    reads_body.append(blk["tspan"]["line"])
        ctx.ob("R17.8", "build_forward_request:does-not-touch-the-body", not reads_body, "src/client/http_proxy.rs:%s" % reads_body[0] if reads_body else "",
               "the rebuilt request is the header block only; the early body is forwarded by the connection handler" if not reads_body else
               "build_forward_request reads `req.body` (line %s) while the connection handler also forwards the early body: bytes that arrived in the same read as the header end reach the origin twice" % reads_body[0])
    p = ctx.body("R17.8", HP + "parse_http_request")
    n_empty = 0
    for key, body in ctx.P.bodies.items():
        if key.startswith((HP + "parse_http_request", HP + "build_forward_request")) and key not in ctx.P.inlined_away:
            o_ = ctx.origins(body)
            for c in body.calls():
                if not (c.norm or "").endswith(("str::is_empty", "String::is_empty")) or not c.args:
                    continue
                t = o_.of_operand(c.args[0])
                # an emptiness test of a header line: the element of an iteration, or the parameter of a filter closure
                if any(is_call_term(s_, "Iterator>::next") for s_ in subterms(t)) or (body.kind == "Closure" and var_name(t) and not str(var_name(t)).startswith("req.")):
                    n_empty += 1
    if p is not None and b is not None:
        ctx.ob("R17.8", "header-lines:empty-strings-are-dropped", n_empty >= 1, "", "%d emptiness tests on header lines between the parser and the rebuilder" % n_empty if n_empty else
               "neither parse_http_request nor build_forward_request drops empty lines any more: the two empty strings left by splitting the CRLFCRLF terminator are emitted as header lines, the header block ends early "
               "and four stray bytes precede the body")
    # (d) what is stored from the request line and the header lines is what was received: no case folding on the way into
    # ParsedRequest (methods and header values are case-sensitive; case-insensitive *comparisons* are made on copies)
    if p is not None:
        o_p = ctx.origins(p)
        folded = []
        for bi in sorted(p.reachable()):
            for st in p.blocks[bi]["stmts"]:
                if st["s"] == "assign" and st["rv"]["r"] == "aggregate" and "ParsedRequest" in str(st["rv"]["kind"].get("adt", "")):
                    for op in st["rv"]["ops"]:
                        t = o_p.of_operand(op)
                        ts = [t] + [o_p.init_of(s_[2]) for s_ in subterms(t) if isinstance(s_, tuple) and s_ and s_[0] == "var" and len(s_) > 2]
                        for t_ in ts:
                            for s_ in subterms(t_):
                                if isinstance(s_, tuple) and s_ and s_[0] == "call" and s_[1].split("::")[-1] in ("to_ascii_uppercase", "to_uppercase", "to_ascii_lowercase", "to_lowercase", "make_ascii_uppercase", "make_ascii_lowercase"):
                                    folded.append(s_)
        ctx.ob("R17.8", "parse_http_request:stores-tokens-as-received", not folded, "", "method, target, version and header lines are stored without case folding" if not folded else
               "parse_http_request folds the case of a token it stores (`%s`): the forwarded request line is rebuilt from the stored token, so `purge` reaches the origin as `PURGE` — a different method" % folded[0][1].split("::")[-1])
    d = ctx.body("R17.8", HP + "determine_target")
    if d is not None:
        cfg, conds, o = ctx.cfg(d), ctx.conds(d), ctx.origins(d)
        slash_f, star_f = [], []
        for c in conds.all():
            if c.kind == "bool" and is_call_term(c.term, "str::starts_with", "::starts_with") and len(c.term[3]) > 1:
                k = const_value(c.term[3][1])
                if k == 47:
                    slash_f += c.edges_for(False)
                if k == 42:
                    star_f += c.edges_for(False)
        # the prefixing operation: a String built/modified from the path with a leading '/'
        pre = [c for c in d.calls() if ((c.norm or "").endswith(("String::insert", "String::insert_str")) or ((c.norm or "").endswith(("fmt::format", "alloc::fmt::format")) and slash_f and cfg.edges_dominate(slash_f, c.bb)))]
        if not slash_f or not pre:
            ctx.missing("R17.8", "`starts_with('/')` test / slash-prefixing of the path in determine_target")
        else:
            ok = bool(star_f) and all(cfg.edges_dominate(star_f, c.bb) for c in pre)
            ctx.ob("R17.8", "determine_target:asterisk-form-is-left-alone", ok, pre[0].site, "the leading `/` is added only when the target starts with neither `/` nor `*`" if ok else
                   "the path is prefixed with `/` without excluding the asterisk form: `OPTIONS * HTTP/1.1` is forwarded as `OPTIONS /* HTTP/1.1`, a different request")


def r10_no_test_that_cannot_match(ctx):
    """contradiction rule (the code states two beliefs that cannot both hold): a slice `s[s.find(X)..]` starts with X, so a
    `strip_prefix(Y)` / `starts_with(Y)` on it with another literal Y never matches — the branch that was meant to take what
    follows (a port after `]`, a value after a separator) is dead and its default is used silently"""
    def first_char(t):
        v = const_value(t)
        if isinstance(v, int):
            return chr(v) if 0 <= v < 0x110000 else None
        f = fmt(t)
        if f.startswith('"') and len(f) > 2:
            return f[1]
        return None
    n = 0
    bad = []
    for key, body in ctx.P.scan():
        if not key.startswith(("client::http_proxy::", "client::socks5::", "server::handler::", "util::")) or key.startswith(("util::cert", "util::tls")):
            continue
        o = None
        for c in body.calls():
            if (c.norm or "").split("::")[-1] not in ("strip_prefix", "starts_with") or len(c.args) < 2:
                continue
            o = o or ctx.origins(body)
            recv, pat = o.of_operand(c.args[0]), o.of_operand(c.args[1])
            if not (is_call_term(recv, "::index") and len(recv[3]) == 2 and isinstance(recv[3][1], tuple) and recv[3][1][0] == "agg" and "RangeFrom" in str(recv[3][1][1]) and recv[3][1][3]):
                continue
            start = recv[3][1][3][0]
            if not (is_call_term(start, "str::find", "str::rfind", "::find", "::rfind") and len(start[3]) == 2 and strip_bb(start[3][0]) == strip_bb(recv[3][0])):
                continue
            n += 1
            x, y = first_char(start[3][1]), first_char(pat)
            if x is not None and y is not None and x != y:
                bad.append((key, c, x, y))
    ctx.ob("R17.10", "front-ends:no-prefix-test-that-cannot-match", not bad, bad[0][1].site if bad else "", "%d prefix tests on `s[s.find(X)..]` examined; each asks for X" % n if not bad else
           "%s tests `s[s.find('%s')..]` for the prefix '%s': that slice begins with '%s', so the test never succeeds and the fallback is taken for every input — e.g. the explicit port of `[::1]:8443` is ignored and "
           "the default port is dialled" % (ctx.P.owner(bad[0][0]).split("::")[-1], bad[0][2], bad[0][3], bad[0][2]))


def r11_header_text_is_utf8_both_ways(ctx):
    """the header block is turned into text by UTF-8 decoding (`String::from_utf8` / `from_utf8_lossy` / `str::from_utf8`) and
    back into bytes by `as_bytes()`: one codec in both directions.  A decode of another kind (one char per byte, i.e.
    ISO-8859-1) paired with the UTF-8 encode doubles every byte >= 0x80 of the target and of header values on the way out"""
    body = co(ctx, "R17.11", HP + "handle_http_proxy_connection")
    if body is None:
        return
    o = ctx.origins(body)
    ps = calls_norm(body, "http_proxy::parse_http_request")
    if not ctx.floor("R17.11", "parse_http_request call in handle_http_proxy_connection", len(ps), 1):
        return
    t = o.of_operand(ps[0].args[0])
    dec = [s_ for s_ in subterms(t) if is_call_term(s_, "String::from_utf8", "String::from_utf8_lossy", "str::from_utf8", "::from_utf8", "::from_utf8_lossy", "::from_utf8_unchecked")]
    other = [s_ for s_ in subterms(t) if isinstance(s_, tuple) and s_ and s_[0] == "call" and s_[1].split("::")[-1] in ("collect", "from_iter", "from_utf16", "from_utf16_lossy", "extend")]
    ok = bool(dec) and not other
    ctx.ob("R17.11", "handle_http_proxy_connection:header-bytes-are-decoded-as-utf8", ok, ps[0].site, "the text parsed is String::from_utf8(header bytes)" if ok else
           "the header text handed to the parser is `%s`: not a UTF-8 decoding of the bytes read, while build_forward_request still encodes with as_bytes() (UTF-8) — every byte >= 0x80 in the request target "
           "or a header value leaves the proxy as two bytes (`José` -> `JosÃ©`)" % fmt(t)[:80])


def run(ctx):
    r9_host_field_name_any_case(ctx)
    r8_body_once_and_forms(ctx)
    from . import effects
    effects.check_property(ctx, "C17")    # R17.E: no operation on shared protocol state outside the reviewed table
    from . import C07, C10, C16
    C10.r6_front_ends(ctx)
    r2_early_bytes(ctx)
    r3_bounded_header(ctx)
    r3b_scan_window(ctx)
    r3c_first_terminator(ctx)
    r6_target_derivation(ctx)
    r10_no_test_that_cannot_match(ctx)
    r11_header_text_is_utf8_both_ways(ctx)
    from . import C01 as _C01r
    _C01r.r10_forwarding_slices(ctx)    # the rest of the request body is relayed as it is read: one read, one frame with exactly those bytes (no second awaited read before the first chunk is passed on)
    r7_parsing_totality(ctx)
    r4_rewriting(ctx)
    C16.accept_loop_rules(ctx, "R17.5", HP + "start_http_proxy_server", "http_proxy::handle_http_proxy_connection", "http")
    C07.r4_plumbing(ctx)
