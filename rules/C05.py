"""C05 — early client packets are shaped as the padding scheme prescribes (structural clauses)."""
from engine.anl.casts import narrowing_casts, check_cast, const_value
from engine.anl.locks import Held, lock_fields
from engine.anl.origin import fmt, subterms, strip_bb
from .common import S, co, calls_norm, is_call_term, var_name, render_path, param

EXPLANATION = (
    "Static decision of which scheme line shapes which write and that each record is one write: (R05.1) the preamble uses "
    "line 0 and the smallest index a session write can use is >= 1 (initial counter constant + offset applied to fetch_add's "
    "result); (R05.2) shaping happens only on the false edge of `pkt >= stop` with stop = the scheme's stop(); (R05.3) "
    "send_padding is the constant true in new_client, false in new_server, never written elsewhere, and its false edge leads to "
    "the plain write only; (R05.4) one counter increment and one size generation per write; (R05.5) at most one transport write "
    "per record of the shaping loop; (R05.6) the preamble's 2-byte length and the number of zero bytes written are the same "
    "value, the first size of line 0, through a range-guarded cast; (R05.7) buffering is enabled before Settings and disabled "
    "after open_stream and before the destination write; (R05.8) the packet index is drawn while the lock that orders the "
    "transport writes is held; (R05.9) the shaping loop is left early only at a check mark with no payload remaining, and a size reached "
    "with no payload left still produces its padding-only record. Not decided: the drawn sizes (random) and TLS record boundaries."
)
RULE_TEXT = "one obligation per index origin, per dominance/ordering pair, per record write; non-trivial = needed an origin, constant, dominance, cycle or must-held query"

AUTH = "util::auth::send_authentication"
GEN = "PaddingFactory::generate_record_payload_sizes"


def _pkt_counter_init(ctx):
    """constants given to Atomic::<u32>::new for the pkt_counter field of the Session aggregates"""
    out = {}
    for ctor in ("new_client", "new_server"):
        body = ctx.P.bodies.get(S + ctor)
        if body is None:
            ctx.missing("R05.1", S + ctor)
            continue
        ctx.bodies_touched.add(body.name)
        o = ctx.origins(body)
        for bi in sorted(body.reachable()):
            for st in body.blocks[bi]["stmts"]:
                if st["s"] == "assign" and st["rv"]["r"] == "aggregate" and st["rv"]["kind"].get("adt", "").endswith("session::Session"):
                    fields = st["rv"]["kind"]["fields"]
                    for f, op in zip(fields, st["rv"]["ops"]):
                        t = o.of_operand(op)
                        if f == "pkt_counter":
                            for s in subterms(t):
                                if is_call_term(s, ">::new") and "Atomic" in s[1] and s[3]:
                                    out[ctor] = const_value(s[3][0])
                        if f in ("send_padding", "is_client"):
                            out[(ctor, f)] = const_value(t)
    return out


def _index_term(ctx, body, o):
    g = calls_norm(body, GEN)
    if not g:
        return None, None
    return g[0], o.of_operand(g[0].args[1])


def r1_index_origins(ctx):
    auth = co(ctx, "R05.1", AUTH)
    if auth is not None:
        o = ctx.origins(auth)
        g, t = _index_term(ctx, auth, o)
        if g is None:
            ctx.missing("R05.1", "generate_record_payload_sizes call in send_authentication")
        else:
            ok = const_value(t) == 0
            ctx.ob("R05.1", "send_authentication:line-0", ok, g.site, "the preamble padding is drawn from scheme line 0" if ok else "the preamble uses scheme line %s" % fmt(t))
    body = co(ctx, "R05.1", S + "write_with_padding")
    if body is None:
        return
    o = ctx.origins(body)
    g, t = _index_term(ctx, body, o)
    if g is None:
        ctx.missing("R05.1", "generate_record_payload_sizes call in write_with_padding")
        return
    init = _pkt_counter_init(ctx)
    c0 = init.get("new_client")
    # t = fetch_add(pkt_counter, inc) [+ k]
    k = 0
    base = t
    if isinstance(t, tuple) and t[0] == "binop" and t[1] == "Add":
        kv = const_value(t[3])
        if kv is not None:
            k, base = kv, t[2]
        else:
            kv = const_value(t[2])
            if kv is not None:
                k, base = kv, t[3]
    elif is_call_term(t, "::wrapping_add") and len(t[3]) == 2 and const_value(t[3][1]) is not None:
        k, base = const_value(t[3][1]), t[3][0]
    is_fa = is_call_term(base, "::fetch_add") and var_name(base[3][0]) == "self.pkt_counter"
    inc = const_value(base[3][1]) if is_fa else None
    if not is_fa or c0 is None:
        ctx.ob("R05.1", "write_with_padding:index-origin", False, g.site, "the scheme line index is %s (initial counter %s): not fetch_add(pkt_counter)+const" % (fmt(t)[:100], c0))
        return
    ok = (c0 + k) >= 1 and inc == 1
    ctx.ob("R05.1", "write_with_padding:first-session-index", ok, g.site,
           "first session write uses line %d (initial counter %d + offset %d), then consecutive lines" % (c0 + k, c0, k) if ok else
           "the first session write is shaped by scheme line %d (initial counter %d, fetch_add returns the old value, offset %d): line 0 belongs to the authentication preamble, "
           "so every packet k is shaped by line k-1 (increment %s)" % (c0 + k, c0, k, inc))
    ctx.extra["pkt_index_term"] = fmt(t)


def r2_stop(ctx):
    body = co(ctx, "R05.2", S + "write_with_padding")
    if body is None:
        return
    cfg, conds, o = ctx.cfg(body), ctx.conds(body), ctx.origins(body)
    g, idx = _index_term(ctx, body, o)
    if g is None:
        return
    edges = []
    for c in conds.all():
        t = c.term
        if c.kind == "bool" and isinstance(t, tuple) and t[0] == "binop" and t[1] in ("Le", "Lt") and ((t[1] == "Le" and is_call_term(t[2], "PaddingFactory::stop") and strip_bb(t[3]) == strip_bb(idx)) or (t[1] == "Lt" and is_call_term(t[3], "PaddingFactory::stop") and strip_bb(t[2]) == strip_bb(idx))):
            # canonical forms: `stop <= pkt` (written pkt >= stop) or `pkt < stop`
            edges += c.edges_for(False) if t[1] == "Le" else c.edges_for(True)
    ok = bool(edges) and cfg.edges_dominate(edges, g.bb)
    ctx.ob("R05.2", "write_with_padding:stop-cut-off", ok, g.site, "size generation is dominated by the false edge of `pkt >= stop()` on the same index" if ok else
           "shaping is not cut off by `pkt >= stop` (same index value as the one that selects the scheme line)")
    # the converse: a write that goes out unshaped is justified by the role or by the cut-off test on the *current* scheme's
    # stop() — not by a value remembered from an earlier scheme
    stop_true, role_false = [], []
    for c in conds.all():
        t = c.term
        if c.kind == "bool" and isinstance(t, tuple) and t[0] == "binop" and t[1] in ("Le", "Lt") and ((t[1] == "Le" and is_call_term(t[2], "PaddingFactory::stop") and strip_bb(t[3]) == strip_bb(idx)) or (t[1] == "Lt" and is_call_term(t[3], "PaddingFactory::stop") and strip_bb(t[2]) == strip_bb(idx))):
            stop_true += c.edges_for(True) if t[1] == "Le" else c.edges_for(False)
        if c.kind == "bool" and var_name(t) == "self.send_padding":
            role_false += c.edges_for(False)
    n_plain = 0
    for w in calls_norm(body, "AsyncWriteExt::write_all"):
        if cfg.dominates(g.bb, w.bb):
            continue        # after the sizes were drawn: the shaping loop and its tail (R05.5, R05.9, R04.3)
        n_plain += 1
        okp = (role_false and cfg.edges_dominate(role_false, w.bb)) or (stop_true and cfg.edges_dominate(stop_true, w.bb))
        ctx.ob("R05.2", "write_with_padding:unshaped-write-justified#%d" % n_plain, bool(okp), w.site,
               "the plain write is dominated by send_padding == false or by `pkt >= stop()` of the scheme read for this write" if okp else
               "a write leaves unshaped on a path that passed neither the role test nor the cut-off test against the current scheme's stop(): a cut-off decided from a remembered value goes stale when the server "
               "pushes a scheme with a larger stop, and the packets between the old and the new stop go out at their natural size")
    ctx.floor("R05.2", "unshaped writes ahead of the size generation", n_plain, 2)
    # same scheme object for stop() and the sizes
    st = calls_norm(body, "PaddingFactory::stop")
    if st:
        same = strip_bb(o.of_operand(st[0].args[0])) == strip_bb(o.of_operand(g.args[0]))
        ctx.ob("R05.2", "write_with_padding:one-scheme-snapshot", same, st[0].site, "stop() and the sizes come from the same scheme snapshot" if same else "stop() and generate_record_payload_sizes use different scheme objects")


def r3_role(ctx):
    init = _pkt_counter_init(ctx)
    okc = init.get(("new_client", "send_padding")) == 1 and init.get(("new_server", "send_padding")) == 0
    ctx.ob("R05.3", "send_padding:constructor-constants", okc, "", "send_padding = true in new_client, false in new_server" if okc else
           "send_padding constants are client=%s server=%s" % (init.get(("new_client", "send_padding")), init.get(("new_server", "send_padding"))))
    oki = init.get(("new_client", "is_client")) == 1 and init.get(("new_server", "is_client")) == 0
    ctx.ob("R05.3", "is_client:constructor-constants", oki, "", "is_client = true in new_client, false in new_server" if oki else "is_client constants are wrong")
    # never written elsewhere
    bad = []
    for key, body in ctx.P.scan():
        if not key.startswith("session::session::"):
            continue
        for bi in body.reachable():
            for st in body.blocks[bi]["stmts"]:
                if st["s"] == "assign" and st["place"]["proj"]:
                    last = [e for e in st["place"]["proj"] if e["p"] == "field"]
                    if last and last[-1].get("name") in ("send_padding", "is_client"):
                        bad.append((key, st["span"]["line"], last[-1]["name"]))
    ctx.ob("R05.3", "role-fields:no-other-writer", not bad, "", "no assignment to Session.send_padding / is_client outside the struct literals" if not bad else "role field written at %s" % bad[:2])
    body = co(ctx, "R05.3", S + "write_with_padding")
    if body is None:
        return
    cfg, conds = ctx.cfg(body), ctx.conds(body)
    fe = []
    for c in conds.all():
        if c.kind == "bool" and var_name(c.term) == "self.send_padding":
            fe += c.edges_for(False)
    if not fe:
        ctx.ob("R05.3", "write_with_padding:server-plain", False, "", "write_with_padding does not branch on send_padding: the server side would emit padding")
        return
    reach = cfg.reach([e[1] for e in fe])
    gens = [c for c in calls_norm(body, GEN) if c.bb in reach]
    puts = [c for c in calls_norm(body, "BufMut::put_u16", "BufMut::put_slice") if c.bb in reach]
    ctx.ob("R05.3", "write_with_padding:server-plain", not gens and not puts, "", "with send_padding=false neither size generation nor padding-frame construction is reachable" if not gens and not puts else
           "padding code is reachable with send_padding=false")


def r4_r5_once_per_write(ctx):
    body = co(ctx, "R05.4", S + "write_with_padding")
    if body is None:
        return
    cfg, conds, o = ctx.cfg(body), ctx.conds(body), ctx.origins(body)
    fa = [c for c in body.calls() if (c.norm or "").endswith("Atomic::fetch_add") and var_name(o.of_operand(c.args[0])) == "self.pkt_counter"]
    gens = calls_norm(body, GEN)
    for label, cs in (("fetch_add(pkt_counter)", fa), ("generate_record_payload_sizes", gens)):
        if not cs:
            ctx.missing("R05.4", label + " in write_with_padding")
            continue
        multi = [c for c in cs if any(d.bb in cfg.reach_after(c.bb) for d in cs)]
        ctx.ob("R05.4", "write_with_padding:once:" + label, not multi, cs[0].site, "%s runs at most once per call (%d site, not in a cycle)" % (label, len(cs)) if not multi else
               "%s can run more than once per write (site %s is followed by another / lies in a loop): packets skip scheme lines" % (label, multi[0].site))
    nxt = calls_norm(body, "Iterator>::next")
    if not nxt:
        ctx.missing("R05.5", "shaping loop in write_with_padding")
        return
    loop = cfg.cycle_blocks(nxt[0].bb)
    ws = [c for c in calls_norm(body, "AsyncWriteExt::write_all", "AsyncWriteExt::write") if c.bb in loop]
    ctx.floor("R05.5", "transport writes inside the shaping loop", len(ws), 3)
    for i, w in enumerate(ws):
        after = cfg.reach_after(w.bb, avoid_blocks=[nxt[0].bb])
        second = [x for x in ws if x.bb in after]
        ctx.ob("R05.5", "shaping-loop:one-write-per-record#%d" % i, not second, w.site, "no second transport write before the next size is taken" if not second else
               "two transport writes for one scheme size (%s then %s): the record is emitted in pieces whose lengths the scheme does not permit" % (w.site, second[0].site))
    # padding-only record size = HEADER + size ; payload+padding: saturating_sub(size, remain + HEADER)
    H = ctx.P.const_int("HEADER_OVERHEAD_SIZE")
    ss = calls_norm(body, "usize::saturating_sub") or [c for c in body.calls() if (c.norm or "").endswith("::saturating_sub")]
    if ss:
        a, b = o.of_operand(ss[0].args[0]), o.of_operand(ss[0].args[1])
        okb = isinstance(b, tuple) and b[0] == "binop" and b[1] == "Add" and any(const_value(x) == H for x in (b[2], b[3])) and any(is_call_term(x, "BytesMut::len") and var_name(x[3][0]) == "buffer" for x in (b[2], b[3]))
        # the minuend is this iteration's size: derived from next() and identical to the size the split decision compares with
        split_sizes = [strip_bb(c.term[2]) for c in conds.all() if c.kind == "bool" and isinstance(c.term, tuple) and c.term[0] == "binop" and c.term[1] == "Lt"
                       and is_call_term(c.term[3], "BytesMut::len") and var_name(c.term[3][3][0]) == "buffer" and any(is_call_term(s, "Iterator>::next") for s in subterms(c.term[2]))]
        oka = any(is_call_term(s, "Iterator>::next") for s in subterms(a)) and strip_bb(a) in split_sizes
        ctx.ob("R05.5", "payload+padding:size-expression", oka and okb, ss[0].site, "padding = size.saturating_sub(remaining + HEADER)" if oka and okb else "padding length is %s - %s" % (fmt(a)[:60], fmt(b)[:60]))
    else:
        ctx.missing("R05.5", "saturating_sub(size, remain + HEADER) in write_with_padding")


def r6_padding0(ctx):
    auth = co(ctx, "R05.6", AUTH)
    if auth is None:
        return
    cfg, conds, o = ctx.cfg(auth), ctx.conds(auth), ctx.origins(auth)
    tb = calls_norm(auth, "::to_be_bytes")
    fe = calls_norm(auth, "vec::from_elem")
    if not ctx.floor("R05.6", "to_be_bytes / zero vector in send_authentication", min(len(tb), len(fe)), 1):
        return
    L1 = o.of_operand(tb[0].args[0])
    L2 = o.of_operand(fe[0].args[1])
    inner2 = L2[3] if isinstance(L2, tuple) and L2[0] == "cast" else L2
    if is_call_term(inner2, "From<u16> for usize>::from", "From<u16> for u32>::from", "From<u16> for u64>::from", "Into<usize>>::into") and len(inner2[3]) == 1:
        inner2 = inner2[3][0]      # usize::from(len): the lossless spelling of `len as usize`
    # the size generator is random: "the same value" means the same evaluation (same call site), not the same expression
    same = inner2 == L1
    ctx.ob("R05.6", "send_authentication:length=fill", same, tb[0].site, "declared padding0 length and the zero bytes written are the same value" if same else
           "declared length %s but %s zero bytes are written%s: the server starts frame parsing at the wrong offset" % (fmt(L1)[:80], fmt(L2)[:80],
           " (two separate draws from the random size generator)" if strip_bb(inner2) == strip_bb(L1) else ""))
    gens = calls_norm(auth, GEN)
    ctx.ob("R05.6", "send_authentication:one-draw-of-line-0", len(gens) == 1, gens[0].site if gens else "", "line 0 is drawn once" if len(gens) == 1 else "%d draws of the preamble padding size" % len(gens))
    first = any(is_call_term(s, "::first") for s in subterms(L1)) and any(is_call_term(s, GEN) for s in subterms(L1))
    ctx.ob("R05.6", "send_authentication:first-size-of-line-0", first, tb[0].site, "padding0 = first size generated for line 0" if first else "padding0 length is %s" % fmt(L1)[:120])
    cs = [c for c in narrowing_casts(auth) if c["to"] == "u16"]
    if ctx.floor("R05.6", "i32->u16 cast of padding0 length", len(cs), 1):
        for c in cs:
            ok, det, _ = check_cast(auth, cfg, conds, o, c)
            ctx.ob("R05.6", "send_authentication:length-cast-guarded", ok, "src/util/auth.rs:%s" % c["line"], det if ok else det + " -> a line-0 size of 65536 is announced as 0")
    # write order: hash, length, padding
    wa = calls_norm(auth, "AsyncWriteExt::write_all")
    if ctx.floor("R05.6", "write_all calls in send_authentication", len(wa), 3):
        srcs = [fmt(o.of_operand(w.args[1])) for w in wa]
        ok = srcs[0] == "password_hash" and "to_be_bytes" in srcs[1] and ("padding" in srcs[2] or "from_elem" in srcs[2]) and cfg.dominates(wa[0].bb, wa[1].bb) and cfg.dominates(wa[1].bb, wa[2].bb)
        ctx.ob("R05.6", "send_authentication:write-order", ok, wa[0].site, "hash, then 2-byte length, then padding" if ok else "preamble write order/sources are %s" % [s[:40] for s in srcs])


def r7_batching(ctx):
    body = co(ctx, "R05.7", "client::client::Client::create_proxy_stream")
    if body is None:
        return
    cfg = ctx.cfg(body)
    op = calls_norm(body, "Session::open_stream")
    db = calls_norm(body, "Session::disable_buffering")
    wd = calls_norm(body, "Session::write_data_frame")
    if not ctx.floor("R05.7", "open_stream / disable_buffering / write_data_frame in create_proxy_stream", min(len(op), len(db), len(wd)), 1):
        return
    ok = cfg.dominates(op[0].bb, db[0].bb) and all(cfg.dominates(db[0].bb, w.bb) for w in wd)
    ctx.ob("R05.7", "create_proxy_stream:disable-buffering-between", ok, db[0].site, "disable_buffering() lies after open_stream and before the destination write: Settings+SYN+destination leave as one shaped write" if ok else
           "disable_buffering is not between open_stream and the destination write: the first packet is not the batched Settings+SYN+destination")


def r8_index_under_lock(ctx):
    body = co(ctx, "R05.8", S + "write_with_padding")
    if body is None:
        return
    o = ctx.origins(body)
    names = {cls: n[0] for cls, n in lock_fields(ctx.P).items()}
    fa = [c for c in body.calls() if (c.norm or "").endswith("Atomic::fetch_add") and var_name(o.of_operand(c.args[0])) == "self.pkt_counter"]
    if not fa:
        ctx.missing("R05.8", "fetch_add(pkt_counter)")
        return
    must = Held(body, must=True)
    local = {names.get(cls, cls) for (l, m, cls) in must.held_at_call(fa[0].bb)}
    # locks every caller holds at its call site (must), one level
    entry = None
    callers = [e for e in ctx.cg.callers(body.name) if e.kind in ("await", "call")]
    fn_callers = [e for e in ctx.cg.callers(S + "write_with_padding") if e.kind == "call"]
    for e in fn_callers:
        cb = ctx.P.bodies[e.src]
        mh = Held(cb, must=True)
        held = {names.get(cls, cls) for (l, m, cls) in mh.held_at_call(e.bb)}
        entry = held if entry is None else (entry & held)
    entry = entry or set()
    ok = bool((local | entry) & {"Session.buffer", "Session.writer"})
    ctx.ob("R05.8", "write_with_padding:index-drawn-under-ordering-lock", ok, fa[0].site,
           "the packet index is drawn while %s is held (callers: %d)" % (sorted((local | entry) & {"Session.buffer", "Session.writer"}), len(fn_callers)) if ok else
           "fetch_add(pkt_counter) runs with neither Session.buffer nor Session.writer held: two concurrent writers can draw indices k, k+1 and reach the transport in the opposite order, "
           "so packet k is shaped by line k+1")


def r9_loop_exits(ctx):
    """the shaping loop stops early only at a check mark with no payload left; a size reached with no payload left still
    produces its padding-only record"""
    body = co(ctx, "R05.9", S + "write_with_padding")
    if body is None:
        return
    cfg, conds, o = ctx.cfg(body), ctx.conds(body), ctx.origins(body)
    nxt = calls_norm(body, "Iterator>::next")
    if not nxt:
        ctx.missing("R05.9", "shaping loop in write_with_padding")
        return
    loop = cfg.cycle_blocks(nxt[0].bb)
    none_edges, cm_true, empty_true, err_edges, nopayload_edges = set(), [], [], [], []
    for c in conds.all():
        if c.block not in loop:
            continue
        t = c.term
        if c.kind == "variant" and is_call_term(t, "Iterator>::next"):
            none_edges.update(c.edges_for("None"))
        if c.kind == "variant" and is_call_term(t, "AsyncWriteExt::write_all", "AsyncWriteExt::flush") and "Err" in sum(c.by_succ.values(), []):
            err_edges += c.edges_for("Err")
        if c.kind == "bool" and isinstance(t, tuple) and t[0] == "binop" and t[1] == "Eq" and is_call_term(t[2], "Iterator>::next") and const_value(t[3]) == -1:
            cm_true += c.edges_for(True)
        if c.kind == "bool" and isinstance(t, tuple) and t[0] == "binop" and is_call_term(t[2], "BytesMut::len") and var_name(t[2][3][0]) == "buffer" and const_value(t[3]) == 0:
            if t[1] == "Eq":
                empty_true += c.edges_for(True)
            elif t[1] == "Ne":
                empty_true += c.edges_for(False)      # `if len != 0 { continue } break` is the same test
            elif t[1] == "Gt":
                nopayload_edges += c.edges_for(False)
                empty_true += c.edges_for(False)
    if not cm_true:
        ctx.missing("R05.9", "comparison of the size with CHECK_MARK in the shaping loop")
        return
    exits = [(x, y) for x in loop for y in cfg.succ(x) if y not in loop]
    n = 0
    for (x, y) in sorted(exits):
        if (x, y) in none_edges:
            continue
        if err_edges and cfg.edges_dominate(err_edges, y) and not cfg.edges_dominate(cm_true, y):
            # leaves through a failed transport write
            reach = cfg.reach([y])
            if any(c.bb in reach for c in calls_norm(body, "Session::handle_io_error")):
                continue
        n += 1
        ok = cfg.edges_dominate(cm_true, x) and bool(empty_true) and (cfg.edges_dominate(empty_true, y) or (x, y) in empty_true)
        ctx.ob("R05.9", "shaping-loop:early-exit#%d" % n, ok, "src/session/session.rs:%s" % body.blocks[x]["tspan"]["line"],
               "the loop is left early only at a check mark with no payload remaining" if ok else
               "the shaping loop can stop at a size that is not a check mark (or with payload remaining): the padding-only records the scheme line prescribes after the payload is used up are not emitted")
    ctx.floor("R05.9", "early exits of the shaping loop", n, 1)
    # padding-only record: from the no-payload edge every way back to next() writes a padding frame
    if nopayload_edges:
        pw = []
        for c in calls_norm(body, "AsyncWriteExt::write_all"):
            t = o.of_operand(c.args[1])
            if c.bb in loop and isinstance(t, tuple) and t[0] == "var" and t[1] != "buffer":
                pw.append(c.bb)
        ok, p = cfg.must_pass([e[1] for e in nopayload_edges], [nxt[0].bb], via_blocks=pw)
        ctx.ob("R05.9", "shaping-loop:padding-only-record-written", ok and bool(pw), "", "a size reached with no payload left is emitted as a padding-only record" if ok and pw else
               "a size reached with no payload left can be skipped without writing its padding-only record")
    else:
        ctx.missing("R05.9", "`remain_payload_len > 0` test in the shaping loop")


def r10_scheme_parse(ctx):
    """the scheme-line parser is whitespace tolerant at the granularity of one entry: the check-mark test and the range
    split both look at the trimmed entry"""
    gen = ctx.body("R05.10", "padding::factory::PaddingFactory::generate_record_payload_sizes")
    if gen is None:
        return
    conds, o = ctx.conds(gen), ctx.origins(gen)
    cm = [c for c in conds.all() if c.kind == "bool" and is_call_term(c.term, "::eq", "::ne") and any(isinstance(a, tuple) and a[0] == "const" and a[3] in ('"c"', 'const "c"') for a in c.term[3])]
    if not ctx.floor("R05.10", "check-mark test (`== \"c\"`) in generate_record_payload_sizes", len(cm), 1):
        return
    other = [a for a in cm[0].term[3] if not (isinstance(a, tuple) and a[0] == "const")]
    ok = bool(other) and is_call_term(other[0], "str::trim", "::trim")
    ctx.ob("R05.10", "generate_record_payload_sizes:check-mark-on-trimmed-entry", ok, "", "an entry is compared with \"c\" after trim()" if ok else
           "the check-mark test looks at the untrimmed entry (`%s`): in a scheme written with blanks (`50-50, c, 60-60`) the check mark is not recognised, so a packet whose payload is used up does not stop there and "
           "emits the later sizes as padding-only records" % fmt(other[0])[:80] if other else "?")
    sp = calls_norm(gen, "str::split_once")
    oks = bool(sp) and is_call_term(o.of_operand(sp[0].args[0]), "str::trim", "::trim")
    ctx.ob("R05.10", "generate_record_payload_sizes:range-split-on-trimmed-entry", oks, sp[0].site if sp else "", "min-max is split from the trimmed entry" if oks else "the range is split from an untrimmed entry")


def r11_no_header_only_padding(ctx):
    """a payload record gets a padding frame only when there is padding to carry: `size - (payload + 7)` saturates to 0 when the
    payload ends 1..6 bytes short of the drawn size, and a header-only Waste frame appended then makes the record longer than drawn"""
    from engine.anl.casts import guard_bounds
    body = co(ctx, "R05.11", S + "write_with_padding")
    if body is None:
        return
    cfg, conds, o = ctx.cfg(body), ctx.conds(body), ctx.origins(body)
    n = 0
    for c in calls_norm(body, "BufMut::put_u16"):
        t = o.of_operand(c.args[1])
        L = t[3] if isinstance(t, tuple) and t[0] == "cast" else t
        subs = [s for s in subterms(L) if is_call_term(s, "::saturating_sub")]
        if not subs:
            continue
        n += 1
        T = subs[0]
        lo, hi, used = guard_bounds(body, cfg, conds, o, T, c.bb)
        ok = lo is not None and lo >= 1
        if not ok:
            for cd in conds.all():
                tt = cd.term
                if cd.kind != "bool" or not (isinstance(tt, tuple) and tt and tt[0] == "binop"):
                    continue
                if tt[1] == "Ne" and strip_bb(tt[2]) == strip_bb(T) and const_value(tt[3]) == 0 and cfg.edges_dominate(cd.edges_for(True), c.bb):
                    ok = True
                # the same test spelt on the operands: payload + 7 < size
                if len(T[3]) == 2 and tt[1] == "Lt" and strip_bb(tt[2]) == strip_bb(T[3][1]) and strip_bb(tt[3]) == strip_bb(T[3][0]) and cfg.edges_dominate(cd.edges_for(True), c.bb):
                    ok = True
                if len(T[3]) == 2 and tt[1] == "Le" and strip_bb(tt[2]) == strip_bb(T[3][0]) and strip_bb(tt[3]) == strip_bb(T[3][1]) and cfg.edges_dominate(cd.edges_for(False), c.bb):
                    ok = True
        ctx.ob("R05.11", "payload+padding:frame-only-when-padding-remains#%d" % n, ok, c.site,
               "the Waste header whose length is `%s` is built only where that value is known to be >= 1" % fmt(T)[:60] if ok else
               "a Waste header with length `%s` is appended without a dominating test that the value is positive: when the payload ends 1..6 bytes below the drawn size the value saturates to 0 and the "
               "header-only padding frame makes the record up to 6 bytes longer than the size drawn from the scheme" % fmt(T)[:70])
    ctx.floor("R05.11", "padding frames whose length is a saturating difference", n, 1)


def r12_close_writes_nothing(ctx):
    """Session::close only shuts the transport down: it never writes (whatever is still sitting in the first-packet buffer would
    leave unshaped — at its natural size, outside the packet numbering)"""
    body = co(ctx, "R05.12", S + "close")
    if body is None:
        return
    ws = [c for c in body.calls() if (c.norm or "").endswith(("AsyncWriteExt::write_all", "AsyncWriteExt::write", "AsyncWriteExt::write_buf", "AsyncWriteExt::write_all_buf", "AsyncWriteExt::flush",
                                                              "Session::write_frame", "Session::write_with_padding", "Session::write_control_frame", "Session::write_data_frame"))]
    sh = calls_norm(body, "AsyncWriteExt::shutdown")
    ctx.ob("R05.12", "close:no-transport-write", not ws and bool(sh), (ws[0] if ws else sh[0]).site if (ws or sh) else "",
           "close() touches the writer only to shut it down" if not ws and sh else
           "Session::close writes to the transport (`%s`): frames still waiting in the first-packet buffer leave without padding and without a packet index, so the first client packet has its natural size "
           "(85 bytes for Settings+SYN) instead of the size line 1 prescribes" % (ws[0].norm.split("::")[-1] if ws else "no shutdown found"))


def r13_generator_answers_for_the_line_asked(ctx):
    """what the size generator returns is decided by the scheme line of the packet index it was asked for and by nothing else:
    every answer comes after the look-up of that line.  The cut-off (`stop`) belongs to the session's write path — the preamble
    asks for line 0 without ever consulting it, so a `stop` shortcut inside the generator un-pads the preamble of a `stop=0` scheme"""
    gen = ctx.body("R05.13", "padding::factory::PaddingFactory::generate_record_payload_sizes")
    if gen is None:
        return
    cfg, o = ctx.cfg(gen), ctx.origins(gen)
    look = [c for c in calls_norm(gen, "StringMap::get") if len(c.args) > 1]
    if not ctx.floor("R05.13", "look-up of the scheme line in generate_record_payload_sizes", len(look), 1):
        return
    pk = param(gen, 1)
    keyed = [c for c in look if any(var_name(s_) == pk for s_ in subterms(o.of_operand(c.args[1])))]
    ctx.ob("R05.13", "generate_record_payload_sizes:looks-up-the-line-of-the-packet-asked-for", bool(keyed), look[0].site, "the line is looked up under the packet index given" if keyed else
           "the scheme line is looked up under `%s`, not under the packet index the caller asked for" % fmt(o.of_operand(look[0].args[1]))[:80])
    ok, p = cfg.must_pass([0], gen.return_blocks(), via_blocks=[c.bb for c in (keyed or look)])
    ctx.ob("R05.13", "generate_record_payload_sizes:no-answer-before-the-look-up", ok, look[0].site, "every return follows the look-up of the line" if ok else
           "the generator can answer without looking the line up (an early return on some other condition, e.g. the cut-off): the preamble's line 0 is asked for regardless of `stop`, so a scheme that pads the "
           "preamble only (`stop=0`) announces and sends no padding0 at all", path=None if ok else render_path(gen, p)[:10])


def r14_session_state_is_born_with_the_session(ctx):
    """the state a session numbers and gates its packets with (packet counter, stream-id allocator, buffering flag, role, scheme
    cell, locks) is created by its constructor and is never *replaced* afterwards: the only fields a `&mut self` method may
    assign are the two pre-start settings (`on_new_stream`, `server_settings`).  A setter that swaps in a shared counter makes
    the second session of a client start numbering where the first one stands — past `stop`, so its first packets go out bare"""
    ALLOWED = ("on_new_stream", "server_settings")
    bad = []
    n = 0
    for key, body in ctx.P.scan():
        if key.startswith(("anytls_", "util::cert", "util::tls")):
            continue
        fn = key.split("::{closure")[0].split("::")[-1]
        if key.startswith("session::session::Session::") and fn.startswith("new"):
            continue
        for bi in sorted(body.reachable()):
            for st in body.blocks[bi]["stmts"]:
                if st["s"] != "assign" or not st["place"]["proj"]:
                    continue
                pr = st["place"]["proj"]
                ty = body.lty(st["place"]["local"])
                k = 0
                while ty.get("k") == "ref" and k < len(pr) and pr[k]["p"] == "deref":
                    ty = ty.get("inner", {})
                    k += 1
                # a field of a Session value (`self.x = ..` in a &mut self method, `session.x = ..` where such a method was spliced in)
                if ty.get("adt") == "session::session::Session" and k < len(pr) and pr[k]["p"] == "field" and pr[k].get("name") and k == len(pr) - 1:
                    n += 1
                    if pr[k]["name"] not in ALLOWED:
                        bad.append((ctx.P.owner(key), pr[k]["name"], st["span"]["line"]))
    ctx.floor("R05.14", "field assignments through &mut self in Session", n, 2)
    ctx.ob("R05.14", "Session:per-session-state-is-never-replaced", not bad, "src/session/session.rs:%s" % bad[0][2] if bad else "",
           "after construction only on_new_stream / server_settings are assigned" if not bad else
           "%s assigns `self.%s` after construction: state that belongs to one session (its packet numbering / id allocation / mode) can be replaced — e.g. by a counter shared between sessions, so that a "
           "later session starts past `stop` and sends its first packets unpadded" % (bad[0][0].split("::")[-1], bad[0][1]))


def r15_sizes_are_capped_at_what_a_record_can_carry(ctx):
    """the cap applied to a scheme's numbers is the largest value the 16-bit length field of a frame can carry (65535) — the
    limit of the *protocol's* record, not some smaller transport unit: a lower cap (2^14, "a TLS record") silently flattens
    every bound above it, for padding0 and for every line"""
    cap = None
    for n_, c in ctx.P.consts.items():
        if n_.endswith("padding::factory::MAX_RECORD_PAYLOAD_SIZE") or n_.split("::")[-1] == "MAX_RECORD_PAYLOAD_SIZE":
            cap = c.get("int")
    if cap is None:
        ctx.missing("R05.15", "const MAX_RECORD_PAYLOAD_SIZE (integer value)")
        return
    ctx.ob("R05.15", "MAX_RECORD_PAYLOAD_SIZE:is-the-16-bit-maximum", cap == 65535, "src/padding/factory.rs", "scheme numbers are clamped to 65535, the largest length a frame header can announce" if cap == 65535 else
           "scheme numbers are clamped to %d, not to 65535: every bound between the two is silently lowered — a scheme asking for 20000 bytes of padding0 or a 30000-byte record is shaped with %d instead" % (cap, cap))


def run(ctx):
    from . import C09 as _C09s
    _C09s.r10_constructor_siblings(ctx)   # both roles start a session in the same state (counter 0, unbuffered, ids from 1): sibling cross-check of the constructors
    from . import effects
    effects.check_property(ctx, "C05")    # R05.E: no operation on shared protocol state outside the reviewed table
    r11_no_header_only_padding(ctx)
    r12_close_writes_nothing(ctx)
    from . import C04 as _C04s
    _C04s.r2_size_conversions(ctx)     # a scheme's numbers reach the shaping loop clamped to what a record can be, never dropped: an entry that vanishes leaves its packet unshaped
    from . import C19 as _C19
    _C19.r4_r5_client_adopts(ctx)    # a session changes scheme exactly when a push parsed: never on a rejected one
    _C19.r1_replaceable(ctx)     # the scheme shaping new sessions is the one pushed last (no early-out that leaves an older one in force)
    from . import C19
    C19.r2_new_sessions(ctx)   # the preamble (line 0) and the session (lines 1..) are given one and the same scheme object
    r10_scheme_parse(ctx)
    r13_generator_answers_for_the_line_asked(ctx)
    r14_session_state_is_born_with_the_session(ctx)
    r15_sizes_are_capped_at_what_a_record_can_carry(ctx)
    from . import C19 as _C19w
    _C19w.r8_announced_md5_is_the_sessions_own(ctx)   # the scheme a packet is shaped with is read inside the section that numbers it: a writer that waited for the lock does not shape with a scheme replaced meanwhile
    from . import C08 as _C08w, C11 as _C11w
    _C08w.r8_buffered_sinks_are_flushed(ctx)   # a buffering wrapper left around the transport merges the records of a packet into one write: the sizes on the wire are no longer the drawn ones
    _C11w.r5_writer_users(ctx)    # every byte that reaches the transport goes through the shaping write path: no second user of the writer
    r1_index_origins(ctx)
    r2_stop(ctx)
    r3_role(ctx)
    r4_r5_once_per_write(ctx)
    r6_padding0(ctx)
    r7_batching(ctx)
    r8_index_under_lock(ctx)
    r9_loop_exits(ctx)
