"""R<nn>.X — refusal sites: the places where code *constructs* an error value (a variant of the crate's error enum, an io::Error, an
anyhow message) are the places where it can say no to something.  Per module and per kind of error the number of
such constructions may not grow beyond the table made from the reviewed tree (rules/refusals_baseline.json): a new construction is a
new refusal — a validation, a limit, a "cannot happen" branch — and has to be shown not to turn away what the property says is
served.  The rule is one-sided and counts constructions, not texts or positions: rewording a message, converting `return Err(x)`
to `ok_or(x)?` / `map_err(|_| x)?`, moving a construction into a helper of the same module or merging several into one leave it
silent; `?` propagation constructs nothing.  Extending the table is a reviewed act (tools/gen_refusals.py), never done at run time.
"""
import json
import os

from engine.anl.mir import span_is_tracing

BASELINE = os.path.join(os.path.dirname(os.path.abspath(__file__)), "refusals_baseline.json")

ERR_CALLS = ("io::Error::new", "io::Error::other", "io::Error::from", "anyhow::Error::msg", "anyhow::__private::format_err", "anyhow::Error::new", "Error::msg")

# variants that only wrap an error made elsewhere (`Io(io::Error)`): wrapping is propagation — `?` through `From`, `map_err(AnyTlsError::Io)` and
# `map_err(|e| AnyTlsError::Io(e))` are three spellings of it; a fresh io::Error is counted where `io::Error::new/other` makes it
WRAPPERS = ("Io",)

MODULES = {
    "C01": ("session::", "client::socks5", "client::http_proxy", "server::handler", "protocol::codec"),
    "C02": ("session::", "protocol::codec"),
    "C03": ("protocol::",),
    "C04": ("session::session", "util::auth", "padding::", "protocol::codec"),
    "C05": ("session::session", "padding::", "util::auth", "client::client"),
    "C06": ("util::auth", "server::server"),
    "C07": ("server::handler", "util::dns_cache", "client::socks5", "client::http_proxy", "client::client", "server::udp_proxy", "session::stream_reader"),
    "C08": ("session::", "server::handler", "client::socks5", "client::http_proxy", "protocol::codec"),
    "C09": ("session::", "protocol::codec"),
    "C10": ("session::session", "client::client", "server::handler", "protocol::codec"),
    "C11": ("session::session", "protocol::"),
    "C12": ("client::session_pool", "client::client"),
    "C13": ("client::session_pool", "client::client", "session::session"),
    "C14": ("session::session", "anytls_client", "protocol::codec"),
    "C15": ("client::udp_client", "server::udp_proxy", "session::stream_reader", "protocol::codec"),
    "C16": ("client::socks5",),
    "C17": ("client::http_proxy",),
    "C18": ("util::cert_reloader", "util::tls", "util::cert_analyzer", "server::server"),
    "C19": ("padding::", "util::string_map", "session::session"),
    "C20": ("protocol::", "session::", "server::", "util::auth", "util::dns_cache", "util::string_map", "padding::", "client::http_proxy", "client::socks5"),
}


def module_of(key):
    k = key
    if k.startswith("<"):
        k = k[1:]
    parts = k.split("::")
    if parts[0].startswith("anytls_"):
        return parts[0]
    return "::".join(parts[:2]).split(" ")[0].rstrip(">")


def table(P):
    """{module: {kind: count}} over every body of the program (closures count for the module they are written in)"""
    out = {}
    for key, body in P.bodies.items():
        if key in getattr(P, "inlined_away", ()):     # spliced helpers are counted where they were spliced in
            continue
        mod = module_of(key)
        row = out.setdefault(mod, {})
        for bi in sorted(body.reachable()):
            blk = body.blocks[bi]
            for st in blk["stmts"]:
                if st["s"] != "assign" or st["rv"]["r"] != "aggregate" or span_is_tracing(st["span"]):
                    continue
                k = st["rv"]["kind"]
                adt = str(k.get("adt", ""))
                # (a bare `Err(e)` is not counted: `Err(e) => return Err(e)` and `?` are two spellings of one propagation)
                if adt.endswith("AnyTlsError") and k.get("variant") not in WRAPPERS:
                    kind = "AnyTlsError::%s" % k.get("variant")
                    row[kind] = row.get(kind, 0) + 1
            t = blk["term"]
            # `map_err(AnyTlsError::Io)`: the variant constructor handed over as a function is a construction site too
            if t["t"] == "call" and not span_is_tracing(blk["tspan"]):
                for a in t["args"]:
                    if a.get("o") == "const" and a["c"]["ty"].get("k") == "fndef":
                        d_ = str(a["c"]["ty"].get("def", ""))
                        if "AnyTlsError::" in d_ and not d_.endswith(("::from", "::fmt", "::source")) and d_.split("::")[-1] not in WRAPPERS:
                            kind = "AnyTlsError::%s" % d_.split("::")[-1]
                            row[kind] = row.get(kind, 0) + 1
            if t["t"] == "call" and not span_is_tracing(blk["tspan"]):
                fn = (t["func"].get("c", {}) or {}).get("fn") or ""
                for e in ERR_CALLS:
                    if fn.endswith(e):
                        row[e] = row.get(e, 0) + 1
                        break
    return {m: r for m, r in out.items() if r}


def load():
    try:
        with open(BASELINE) as fh:
            return json.load(fh)
    except (OSError, ValueError):
        return None


def check_property(ctx, pid):
    rule = "R%s.X" % pid[1:]
    base = load()
    if base is None:
        ctx.missing(rule, "rules/refusals_baseline.json")
        return
    cur = table(ctx.P)
    mods = sorted(m for m in set(cur) | set(base) if any(m == p or m.startswith(p) for p in MODULES[pid]))
    ctx.floor(rule, "modules of %s in the refusal table" % pid, len([m for m in mods if m in base]), 1)
    for m in mods:
        grown = []
        for kind, n in sorted(cur.get(m, {}).items()):
            b = base.get(m, {}).get(kind, 0)
            if n > b:
                grown.append("%s: %d -> %d" % (kind, b, n))
        ctx.ob(rule, "%s|refusal-sites-within-reviewed-table" % m, not grown, "", "no kind of error is constructed at more places than on the reviewed tree" if not grown else
               "module %s constructs errors at more places than on the reviewed tree (%s): a new refusal — a validation, a limit, an extra error exit — which must be shown not to turn away what the property "
               "says is served (table: rules/refusals_baseline.json)" % (m, "; ".join(grown)))
