"""C03 — frame encoding is a faithful, chunking-independent bijection (structural clauses)."""
from engine.anl.casts import narrowing_casts, check_cast
from engine.anl.origin import fmt, subterms, strip_bb
from .common import calls_norm, is_call_term, var_name, render_path

from engine.anl.casts import const_value as const_value_
from .common import render_path as render_path

from .common import ok_return_blocks as _okret

EXPLANATION = (
    "Static decision of the codec's shape: (R03.1) encoder and decoder agree on the 7-byte big-endian header layout "
    "cmd:u8 | stream_id:u32 | len:u16, read from a slice of exactly HEADER_OVERHEAD_SIZE bytes; (R03.2) peek-then-consume: "
    "every consuming call on the source buffer is dominated by the false edges of `len < HEADER` and `len < HEADER + data_len`, "
    "both early exits return Ok(None), advance consumes exactly HEADER and split_to exactly data_len; (R03.3) decode constructs "
    "no Err and calls nothing from the panic family, and the byte->Command table equals the enum discriminants with otherwise->Waste; "
    "(R03.4) the encoder's length field is the payload's length through a range-guarded cast and nothing but the payload is appended; "
    "(R03.5) the returned Frame's fields are the parsed header values and the split_to result. Not decided: arithmetic inside `bytes`."
)
RULE_TEXT = "one obligation per header field, per consuming call, per table row, per Frame field; non-trivial = needed an origin/dominance/range query"

DEC = "<protocol::codec::FrameCodec as tokio_util::codec::Decoder>::decode"
ENC = "<protocol::codec::FrameCodec as tokio_util::codec::Encoder<protocol::frame::Frame>>::encode"
FROM_U8 = "<protocol::frame::Command as std::convert::From<u8>>::from"
TO_U8 = "protocol::frame::<impl std::convert::From<protocol::frame::Command> for u8>::from"

PANIC_FAMILY = ("::unwrap", "::expect", "panicking::panic", "panic_fmt", "::unreachable", "::unwrap_unchecked", "panic_display",
                "assert_failed", "::expect_err", "::unwrap_err", "panicking::begin_panic", "core::panicking::panic_explicit")

WIDTH = {"put_u8": 1, "put_u16": 2, "put_u32": 4, "put_u64": 8, "get_u8": 1, "get_u16": 2, "get_u32": 4, "get_u64": 8}


USER_PANIC_MACROS = {"panic", "unreachable", "todo", "unimplemented", "assert", "assert_eq", "assert_ne", "debug_assert", "debug_assert_eq", "debug_assert_ne"}


def panic_calls(body):
    """explicit panic-family calls written by the crate's authors: method calls (unwrap/expect) in plain code and the user-level
    panic macros; internal invariants of library macros (tokio::select!/join!, tracing) are not the crate's own crash sites"""
    out = []
    for c in body.calls(True):
        if c.is_tracing:
            continue
        macros = [m.split("::")[-1] for m in c.span.get("macros", [])]
        if macros and not (set(macros) & USER_PANIC_MACROS and not (set(macros) - USER_PANIC_MACROS - {"panic_2021", "panic_2015", "const_format_args", "format_args", "unreachable_2021"})):
            continue
        n = c.norm or ""
        if n.endswith(PANIC_FAMILY) and not n.endswith(("::unwrap_or", "::unwrap_or_else", "::unwrap_or_default")):
            out.append(c)
    return out


def header_len(ctx):
    return ctx.P.const_int("HEADER_OVERHEAD_SIZE")


def layout(ctx, body, kind):
    """ordered [(method, width, operand term)] of put_*/get_* calls outside tracing"""
    o = ctx.origins(body)
    out = []
    for c in sorted(body.calls(), key=lambda c: c.bb):
        last = (c.callee or "").split("::")[-1]
        if last in WIDTH and last.startswith(kind):
            out.append((last, WIDTH[last], c, [o.of_operand(a) for a in c.args]))
    return out


def r1_layout(ctx):
    H = header_len(ctx)
    if H is None:
        ctx.missing("R03.1", "const HEADER_OVERHEAD_SIZE")
        return
    enc = ctx.body("R03.1", ENC)
    dec = ctx.body("R03.1", DEC)
    if enc is None or dec is None:
        return
    le = layout(ctx, enc, "put")
    ld = layout(ctx, dec, "get")
    we = [w for _, w, _, _ in le]
    wd = [w for _, w, _, _ in ld]
    ctx.ob("R03.1", "encode:header-widths", we == [1, 4, 2], le[0][2].site if le else "", "encoder writes %s" % [m for m, _, _, _ in le] if we == [1, 4, 2] else
           "encoder header layout is %s, expected put_u8 put_u32 put_u16" % [m for m, _, _, _ in le])
    ctx.ob("R03.1", "decode:header-widths", wd == [1, 4, 2], ld[0][2].site if ld else "", "decoder reads %s" % [m for m, _, _, _ in ld] if wd == [1, 4, 2] else
           "decoder header layout is %s, expected get_u8 get_u32 get_u16" % [m for m, _, _, _ in ld])
    ctx.ob("R03.1", "header-size-const", sum(we) == H and sum(wd) == H, "", "sum of widths = HEADER_OVERHEAD_SIZE = %d" % H if sum(we) == H and sum(wd) == H else
           "header widths enc=%d dec=%d but HEADER_OVERHEAD_SIZE=%d" % (sum(we), sum(wd), H))
    # fields: encoder operands are item.cmd / item.stream_id / len(item.data)
    if len(le) == 3:
        f0 = fmt(le[0][3][1])
        f1 = var_name(le[1][3][1])
        ok = "item.cmd" in f0 and f1 == "item.stream_id"
        ctx.ob("R03.1", "encode:field-order", ok, le[0][2].site, "cmd then stream_id then length" if ok else "encoder header fields are %s, %s" % (f0, fmt(le[1][3][1])))
    # decoder reads all three from the same peek slice of exactly H bytes of src
    if len(ld) == 3:
        srcs = [strip_bb(x[3][0]) for x in ld]
        same = srcs[0] == srcs[1] == srcs[2]
        t = ld[0][3][0]
        # the peek reader is a mutable `&[u8]` variable: look at its initialiser
        o = ctx.origins(dec)
        if isinstance(t, tuple) and t[0] == "var" and len(t) > 2:
            t = o.init_of(t[2])
        okslice = any(is_call_term(s, "::index") and var_name(s[3][0]) == "src" and "RangeTo" in fmt(s[3][1]) and ("=%d" % H) in fmt(s[3][1]) for s in subterms(t))
        # `src.split_at(HEADER).0` is the same peek (split_at borrows, it does not consume)
        okslice = okslice or any(is_call_term(s, "::split_at") and len(s[3]) == 2 and var_name(s[3][0]) == "src" and const_value_(s[3][1]) == H for s in subterms(t))
        ctx.ob("R03.1", "decode:peek-slice", same and okslice, ld[0][2].site, "all header fields are read from `&src[..HEADER_OVERHEAD_SIZE]`" if same and okslice else
               "header fields are not read from one peek slice of exactly HEADER bytes of src: %s" % fmt(t)[:160])


def _len_src_cond(c, H):
    """classify a bool cond on len(src): returns 'hdr' for len(src) < H, 'full' for len(src) < H + widen(get_u16)"""
    t = c.term
    if not (isinstance(t, tuple) and t[0] == "binop"):
        return None
    op, a, b = t[1], t[2], t[3]
    if not (is_call_term(a, "BytesMut::len") and var_name(a[3][0]) == "src"):
        return None
    if op != "Lt":
        return "other:%s" % op
    if isinstance(b, tuple) and b[0] == "const" and b[1] == H:
        return "hdr"
    if isinstance(b, tuple) and b[0] == "binop" and b[1] == "Add":
        parts = [b[2], b[3]]
        hasH = any(isinstance(p, tuple) and p[0] == "const" and p[1] == H for p in parts)
        hasL = any(isinstance(p, tuple) and p[0] == "cast" and any(is_call_term(s, "Buf::get_u16") for s in subterms(p)) for p in parts)
        if hasH and hasL:
            return "full"
    return "other"


def r2_peek_then_consume(ctx):
    H = header_len(ctx)
    dec = ctx.body("R03.2", DEC)
    if dec is None or H is None:
        return
    cfg, conds, o = ctx.cfg(dec), ctx.conds(dec), ctx.origins(dec)
    hdr_false, full_false, hdr_true, full_true = [], [], [], []
    for c in conds.all():
        if c.kind != "bool" or dec.blocks[c.block]["tspan"].get("macros"):
            continue
        k = _len_src_cond(c, H)
        if k == "hdr":
            hdr_false += c.edges_for(False)
            hdr_true += c.edges_for(True)
        elif k == "full":
            full_false += c.edges_for(False)
            full_true += c.edges_for(True)
    if not hdr_false:
        ctx.ob("R03.2", "decode:guard-header", False, "", "decode has no `src.len() < HEADER_OVERHEAD_SIZE` guard (exact `<` against the evaluated constant %d)" % H)
    if not full_false:
        ctx.ob("R03.2", "decode:guard-frame", False, "", "decode has no `src.len() < HEADER_OVERHEAD_SIZE + data_len` guard with data_len = widened get_u16 of the header")
    if not hdr_false or not full_false:
        return
    ctx.ob("R03.2", "decode:guard-header", True, "", "`src.len() < %d` guard found" % H)
    ctx.ob("R03.2", "decode:guard-frame", True, "", "`src.len() < %d + data_len` guard found" % H)
    consuming = []
    for c in dec.calls():
        n = c.norm or ""
        last = n.split("::")[-1]
        if last in ("advance", "split_to", "split_off", "truncate", "clear", "split", "freeze_to", "get_u8", "get_u16", "get_u32", "copy_to_bytes", "unsplit") and c.args:
            recv = o.of_operand(c.args[0])
            if var_name(recv) == "src":
                consuming.append(c)
    ctx.floor("R03.2", "consuming calls on src in decode", len(consuming), 2)
    for c in consuming:
        last = c.norm.split("::")[-1]
        d1 = cfg.edges_dominate(hdr_false, c.bb)
        d2 = cfg.edges_dominate(full_false, c.bb)
        ok = d1 and d2
        amount_ok = True
        det = ""
        if last == "advance":
            t = o.of_operand(c.args[1])
            amount_ok = isinstance(t, tuple) and t[0] == "const" and t[1] == H
            det = "advance(%s)" % fmt(t)
        elif last == "split_to":
            t = o.of_operand(c.args[1])
            amount_ok = isinstance(t, tuple) and t[0] == "cast" and any(is_call_term(s, "Buf::get_u16") for s in subterms(t)) and not any(
                isinstance(s, tuple) and s[0] == "binop" for s in subterms(t))
            det = "split_to(%s)" % fmt(t)[:100]
        elif last in ("truncate", "clear", "split_off", "split"):
            amount_ok = False
            det = "%s on src discards bytes that are not part of this frame" % last
        ctx.ob("R03.2", "decode:%s" % last, ok and amount_ok, c.site,
               "%s dominated by both completeness guards; amount exact" % det if ok and amount_ok else
               ("%s consumes from src %s" % (det or last, "before the frame is known to be complete (not dominated by the false edges of both guards)" if not ok else "with an amount that is not the header constant / the parsed length")))
    # the receive buffer is only ever shortened from the front by exactly one frame: it is never replaced or swapped out
    from .common import stores_through
    repl = [(bi, line) for bi, line, base, val, place in stores_through(dec, o) if var_name(base) == "src"]
    for c in dec.calls():
        if (c.norm or "").split("::")[-1] in ("replace", "take", "swap") and "mem::" in (c.norm or "") and c.args and any(var_name(o.of_operand(a)) == "src" for a in c.args):
            repl.append((c.bb, c.line))
    ctx.ob("R03.2", "decode:src-is-never-replaced", not repl, "src/protocol/codec.rs:%s" % repl[0][1] if repl else "", "no assignment through `src`" if not repl else
           "decode assigns a new buffer to `*src` (line %s): whatever was still in the old one — the first bytes of the next header when a read ended 1..6 bytes into it — is thrown away, and everything after "
           "is mis-framed; the same bytes cut anywhere else decode correctly" % repl[0][1])
    # `Ok(None)` means "nothing consumed, call me again when more bytes have arrived" (Decoder contract): after a consuming call
    # decode returns a frame, never None — otherwise complete frames behind the consumed bytes wait for new input
    nones = []
    for kind, bi, si, rv in dec.defs().get(0, []):
        if kind == "assign" and rv["r"] == "aggregate" and rv["kind"].get("variant") == "Ok" and rv["ops"]:
            t_ = o.of_operand(rv["ops"][0])
            if isinstance(t_, tuple) and t_ and t_[0] == "agg" and t_[2] == "None":
                nones.append(bi)
    late_none = [c for c in consuming if c.norm.split("::")[-1] in ("advance", "split_to", "split_off", "truncate", "clear", "copy_to_bytes") and cfg.reach(cfg.succ(c.bb)) & set(nones)]
    ctx.ob("R03.2", "decode:None-only-when-nothing-was-consumed", not late_none, late_none[0].site if late_none else "", "no Ok(None) is reachable after bytes were consumed" if not late_none else
           "decode can return Ok(None) after it has consumed bytes (%s at line %s): the receive loop takes None for 'need more input' and goes back to the transport read, so complete frames already in the buffer — other "
           "streams' data — are not dispatched until the peer sends something else" % (late_none[0].norm.split("::")[-1], late_none[0].line))
    # early exits return Ok(None)
    for label, edges in (("header", hdr_true), ("frame", full_true)):
        starts = [e[1] for e in edges]
        region = cfg.reach(starts)
        ret_none = True
        found = False
        for kind, bi, si, rv in dec.defs().get(0, []):
            if bi in region and not cfg.edges_dominate(hdr_false if label == "header" else full_false, bi):
                found = True
                t = o.of_operand(rv["ops"][0]) if kind == "assign" and rv["r"] == "aggregate" and rv["kind"].get("variant") == "Ok" and rv["ops"] else None
                if not (isinstance(t, tuple) and t[0] == "agg" and t[2] == "None"):
                    ret_none = False
        ctx.ob("R03.2", "decode:incomplete-%s-returns-None" % label, found and ret_none, "", "incomplete %s -> Ok(None), nothing consumed" % label if found and ret_none else
               "the incomplete-%s exit does not return Ok(None)" % label)


def r6_payload_follows_its_length(ctx):
    """the encoder emits the payload whenever the length it has just written is non-zero: the only condition on appending the
    data is the data's own emptiness (a frame *kind* is not a reason to drop a payload the header has announced)"""
    enc = ctx.body("R03.6", ENC)
    if enc is None:
        return
    cfg, conds, o = ctx.cfg(enc), ctx.conds(enc), ctx.origins(enc)
    pl = [c for c in enc.calls() if (c.norm or "").split("::")[-1] == "put_u16"]
    app = [c for c in enc.calls() if (c.norm or "").split("::")[-1] in ("extend_from_slice", "put_slice", "put") and len(c.args) > 1 and "data" in fmt(o.of_operand(c.args[1]))]
    oks = _okret(enc, ctx.origins(enc))
    if not pl or not app or not oks:
        ctx.missing("R03.6", "length field write / payload append / Ok return in encode")
        return
    empty_t = []
    for c in conds.all():
        if c.kind == "bool" and is_call_term(c.term, "::is_empty") and "data" in fmt(c.term):
            empty_t += c.succs_for(True)
        t = c.term
        if c.kind == "bool" and isinstance(t, tuple) and t and t[0] == "binop" and t[1] in ("Eq", "Ne", "Gt") and is_call_term(t[2], "::len") and "data" in fmt(t[2]) and const_value_(t[3]) == 0:
            empty_t += c.succs_for(True) if t[1] == "Eq" else c.succs_for(False)
    ok, p = cfg.must_pass(cfg.succ(pl[0].bb), oks, via_blocks=[c.bb for c in app] + empty_t)
    ctx.ob("R03.6", "encode:payload-appended-unless-empty", ok, app[0].site, "from the length field every path to Ok appends item.data or has found it empty" if ok else
           "the payload can be skipped although the length field announces it (the append is conditional on something other than the data being empty): the header declares N bytes, none follow, and the peer swallows "
           "the next N bytes of the following frames", path=None if ok else render_path(enc, p))


def r3_totality(ctx):
    dec = ctx.body("R03.3", DEC)
    if dec is not None:
        errs = [1 for kind, bi, si, rv in dec.defs().get(0, []) if not (kind == "assign" and rv["r"] == "aggregate" and rv["kind"].get("variant") == "Ok")]
        ctx.ob("R03.3", "decode:never-Err", not errs, "", "every assignment to the return place builds Ok(..)" if not errs else "decode can return Err / a non-Ok value: every byte string must be decodable")
        pc = panic_calls(dec)
        ctx.ob("R03.3", "decode:no-panic-call", not pc, pc[0].site if pc else "", "no unwrap/expect/panic in decode" if not pc else "decode calls %s" % pc[0].callee)
    frm = ctx.body("R03.3", FROM_U8)
    variants = ctx.P.enum_variants("protocol::frame::Command")
    if frm is None or not variants:
        if not variants:
            ctx.missing("R03.3", "enum protocol::frame::Command")
        return
    ctx.floor("R03.3", "Command variants", len(variants), 11)
    # the codes are the protocol's (AnyTLS: cmdWaste 0 .. cmdServerSettings 10): a codec that renumbers a command on *both* of its own
    # directions still round-trips with itself, but what it calls "unknown, inert padding" is then another byte than the peer's —
    # the byte a conforming peer sends for that command is dropped as padding, and a byte that should be inert is acted on
    WIRE = {"Waste": 0, "Syn": 1, "Push": 2, "Fin": 3, "Settings": 4, "Alert": 5, "UpdatePaddingScheme": 6, "SynAck": 7, "HeartRequest": 8, "HeartResponse": 9, "ServerSettings": 10}
    drift = [(n_, d_) for n_, d_ in variants if n_ in WIRE and WIRE[n_] != d_]
    ctx.ob("R03.3", "Command:codes-are-the-protocol's", not drift, "src/protocol/frame.rs", "the eleven command codes are 0..10 as the protocol defines them" if not drift else
           "Command::%s is encoded as byte %d; the protocol's code is %d: against any other implementation the frame is dropped as padding, and the protocol's own byte %d is no longer understood"
           % (drift[0][0], drift[0][1], WIRE[drift[0][0]], WIRE[drift[0][0]]))
    conds = ctx.conds(frm)
    sw = [c for c in conds.all() if c.kind == "int"]
    if not sw:
        # the table form: CONST_TABLE.get(usize::from(byte)).copied().unwrap_or(Command::Waste) — total by construction
        # (`get` cannot fail); the mapping is read from the evaluated constant
        o = ctx.origins(frm)
        rets = [o.of_operand(rv["op"]) for kind, bi, si, rv in frm.defs().get(0, []) if kind == "assign" and rv["r"] == "use"] + \
               [o._call(t_, bi, (), 0, frozenset()) for kind, bi, si, t_ in frm.defs().get(0, []) if kind == "call"]
        tbl = None
        dflt = None
        for t in rets:
            for s_ in subterms(t):
                if is_call_term(s_, "Option::unwrap_or", "::unwrap_or") and len(s_[3]) == 2:
                    d_ = s_[3][1]
                    if isinstance(d_, tuple) and d_ and d_[0] == "agg":
                        dflt = d_[2]
                if is_call_term(s_, "slice::get", "::get") and len(s_[3]) == 2:
                    c0 = s_[3][0]
                    idx_ = s_[3][1]
                    byte_ix = isinstance(idx_, tuple) and idx_ and idx_[0] == "cast" and isinstance(idx_[3], tuple) and idx_[3][0] == "var"
                    if isinstance(c0, tuple) and c0 and c0[0] == "const" and len(c0) > 2 and c0[2] and byte_ix:
                        for n_, cdef in ctx.P.consts.items():
                            if n_.split("::")[-1] == c0[2] and cdef.get("array"):
                                tbl = [int(x) for x in cdef["array"]]
        if tbl is None or dflt is None:
            ctx.missing("R03.3", "switch (or constant lookup table with get().unwrap_or(..)) in From<u8> for Command")
            return
        byname = {d_: n_ for n_, d_ in variants}
        for name, discr in variants:
            got = byname.get(tbl[discr]) if discr < len(tbl) else dflt
            ctx.ob("R03.3", "From<u8>:%d" % discr, got == name, "", "%d -> Command::%s (table entry)" % (discr, name) if got == name else
                   "byte %d decodes to Command::%s but the enum discriminant %d is Command::%s" % (discr, got, discr, name))
        extra = [i for i, v in enumerate(tbl) if i not in {d_ for n_, d_ in variants} and byname.get(v) != "Waste"]
        ctx.ob("R03.3", "From<u8>:otherwise", dflt == "Waste" and not extra, "", "bytes beyond the table (and unused entries) -> Waste" if dflt == "Waste" and not extra else
               "unknown command bytes map to %s instead of Waste" % (dflt if dflt != "Waste" else "table entry %s" % extra[:3]))
        sw = None
    else:
        sw = sw[0]
    o = ctx.origins(frm)
    # each arm assigns an aggregate Command::X to the return place
    arm_variant = {}
    for kind, bi, si, rv in frm.defs().get(0, []):
        if kind == "assign" and rv["r"] == "aggregate" and rv["kind"].get("adt", "").endswith("frame::Command"):
            arm_variant[bi] = rv["kind"]["variant"]
    cfg = ctx.cfg(frm)

    def variant_of_succ(s):
        reg = cfg.reach([s])
        vs = {v for b, v in arm_variant.items() if b in reg}
        # the arm's own block is the first assignment reached
        for b in sorted(reg):
            if b in arm_variant and (b == s or cfg.dominates(s, b)):
                return arm_variant[b]
        return None

    table = {}
    for s, vals in (sw.by_succ.items() if sw is not None else ()):
        v = variant_of_succ(s)
        for x in vals:
            table[x] = v
    for name, discr in (variants if sw is not None else ()):
        got = table.get(discr)
        ctx.ob("R03.3", "From<u8>:%d" % discr, got == name, "", "%d -> Command::%s" % (discr, name) if got == name else
               "byte %d decodes to Command::%s but the enum discriminant %d is Command::%s" % (discr, got, discr, name))
    if sw is not None:
        ctx.ob("R03.3", "From<u8>:otherwise", table.get("otherwise") == "Waste", "", "unknown bytes -> Waste (inert padding)" if table.get("otherwise") == "Waste" else
               "unknown command bytes map to %s instead of Waste" % table.get("otherwise"))
    tou8 = ctx.body("R03.3", TO_U8)
    if tou8 is not None:
        o2 = ctx.origins(tou8)
        rets = [o2._rvalue(rv, (), bi, 0, frozenset()) for kind, bi, si, rv in tou8.defs().get(0, []) if kind == "assign"]
        ok = len(rets) == 1 and isinstance(rets[0], tuple) and rets[0][0] == "cast" and isinstance(rets[0][3], tuple) and rets[0][3][0] == "discr"
        ctx.ob("R03.3", "From<Command>-for-u8", ok, "", "the command byte is the enum discriminant" if ok else "u8::from(Command) is not the discriminant cast: %s" % [fmt(r) for r in rets])


def checked_len_conversion(t):
    """`u16::try_from(item.data.len())` whose failure leaves the function (the operand is the success payload): the lossless
    spelling of a guarded `len as u16`"""
    return is_call_term(t, "TryFrom<usize> for u16>::try_from", "TryInto<u16>>::try_into", "u16::try_from") and len(t[3]) == 1 and is_call_term(t[3][0], "Bytes::len") and var_name(t[3][0][3][0]) == "item.data"


def r4_encoder(ctx):
    enc = ctx.body("R03.4", ENC)
    if enc is None:
        return
    cfg, conds, o = ctx.cfg(enc), ctx.conds(enc), ctx.origins(enc)
    casts = [c for c in narrowing_casts(enc) if c["to"] == "u16"]
    le = layout(ctx, enc, "put")
    lens = [x for x in le if x[0] == "put_u16"]
    if not lens:
        ctx.missing("R03.4", "put_u16 of the length field in encode")
        return
    t = lens[0][3][1]
    is_len = isinstance(t, tuple) and t[0] == "cast" and is_call_term(t[3], "Bytes::len") and var_name(t[3][3][0]) == "item.data"
    checked = checked_len_conversion(t)
    ctx.ob("R03.4", "encode:length-is-payload-length", is_len or checked, lens[0][2].site, "length field = item.data.len() as u16" if is_len else ("length field = u16::try_from(item.data.len())?" if checked else "length field operand is %s" % fmt(t)[:120]))
    if checked and not casts:
        ctx.ob("R03.4", "encode:length-cast-guarded", True, lens[0][2].site, "the length is converted with u16::try_from, which fails (and encode returns the error) for a payload above 65535 bytes")
    elif not ctx.floor("R03.4", "usize->u16 cast of the payload length", len(casts), 1):
        return
    for c in casts:
        ok, det, term = check_cast(enc, cfg, conds, o, c)
        ctx.ob("R03.4", "encode:length-cast-guarded", ok, "src/protocol/codec.rs:%s" % c["line"],
               det if ok else det + " -> a 65536-byte payload is framed with length field 0 followed by 65536 stray bytes that re-parse as frames")
    # a refused frame leaves the output buffer untouched: no error exit after the first byte has been put
    puts = [c for c in enc.calls() if (c.norm or "").split("::")[-1] in ("put_u8", "put_u16", "put_u32", "put_u64", "put_slice", "put", "put_bytes", "extend_from_slice", "put_uint", "put_u16_le", "put_u32_le")]
    errs = [bi for kind, bi, si, rv in enc.defs().get(0, []) if (kind == "assign" and rv["r"] == "aggregate" and rv["kind"].get("variant") == "Err")
            or (kind == "call" and (rv["func"].get("c", {}).get("fn") or "").endswith("from_residual"))]
    if puts:
        late = [c for c in puts if cfg.reach(cfg.succ(c.bb)) & set(errs)]
        ctx.ob("R03.4", "encode:refuses-before-writing", not late, late[0].site if late else "", "every error exit of encode lies before the first write to dst (%d error exits)" % len(errs) if not late else
               "encode can fail after it has already written to dst (line %s): a refused frame leaves a partial header in the output buffer, and whatever is encoded next is appended behind those stray bytes — "
               "the peer's decoder loses frame alignment" % late[0].line)
    # nothing but the payload is appended after the header
    app = [c for c in enc.calls() if (c.norm or "").split("::")[-1] in ("extend_from_slice", "put_slice", "put", "put_bytes", "extend", "unsplit") and c.args and var_name(o.of_operand(c.args[0])) == "dst"]
    okp = len(app) == 1 and var_name(o.of_operand(app[0].args[1])) == "item.data"
    ctx.ob("R03.4", "encode:payload-appended-once", okp, app[0].site if app else "", "exactly one append to dst after the header, of item.data" if okp else
           "appends to dst: %s" % [fmt(o.of_operand(c.args[1]))[:60] for c in app])


def r5_decoded_fields(ctx):
    dec = ctx.body("R03.5", DEC)
    if dec is None:
        return
    o = ctx.origins(dec)
    frames = []
    for bi in sorted(dec.reachable()):
        for st in dec.blocks[bi]["stmts"]:
            if st["s"] == "assign" and st["rv"]["r"] == "aggregate" and st["rv"]["kind"].get("adt", "").endswith("frame::Frame"):
                frames.append((bi, st))
    ops = None
    if frames:
        bi, st = frames[0]
        fields = st["rv"]["kind"]["fields"]
        ops = {f: o.of_operand(op) for f, op in zip(fields, st["rv"]["ops"])}
    else:
        # the constructor form: Frame::with_data(cmd, stream_id, data) / Frame::new(..) — the constructor itself must then be a plain
        # field-by-field literal of its parameters
        from .common import calls_norm as _cn, param as _param
        mk = _cn(dec, "Frame::with_data", "Frame::new")
        if mk and len(mk[0].args) >= 3:
            kb = ctx.P.bodies.get("protocol::frame::Frame::" + mk[0].norm.split("::")[-1])
            plain = False
            if kb is not None:
                ko = ctx.origins(kb)
                for bi2 in sorted(kb.reachable()):
                    for st2 in kb.blocks[bi2]["stmts"]:
                        if st2["s"] == "assign" and st2["rv"]["r"] == "aggregate" and st2["rv"]["kind"].get("adt", "").endswith("frame::Frame"):
                            kops = {f: var_name(ko.of_operand(op)) for f, op in zip(st2["rv"]["kind"]["fields"], st2["rv"]["ops"])}
                            plain = kops.get("cmd") == _param(kb, 0) and kops.get("stream_id") == _param(kb, 1) and kops.get("data") == _param(kb, 2)
            if plain:
                ops = {"cmd": o.of_operand(mk[0].args[0]), "stream_id": o.of_operand(mk[0].args[1]), "data": o.of_operand(mk[0].args[2])}
    if not ctx.floor("R03.5", "Frame{..} construction in decode", 1 if ops else 0, 1):
        return
    cmd_ok = is_call_term(ops.get("cmd"), FROM_U8) and is_call_term(ops["cmd"][3][0], "Buf::get_u8")
    sid_ok = is_call_term(ops.get("stream_id"), "Buf::get_u32")
    alts = ops.get("data")
    from .common import phi_alts
    dalts = phi_alts(alts)
    data_ok = all(is_call_term(a, "Bytes::new") or (is_call_term(a, "BytesMut::freeze") and is_call_term(a[3][0], "BytesMut::split_to")) for a in dalts) and any(
        is_call_term(a, "BytesMut::freeze") for a in dalts)
    ctx.ob("R03.5", "decode:Frame.cmd", cmd_ok, "", "cmd = Command::from(get_u8)" if cmd_ok else "Frame.cmd is %s" % fmt(ops.get("cmd"))[:120])
    ctx.ob("R03.5", "decode:Frame.stream_id", sid_ok, "", "stream_id = get_u32" if sid_ok else "Frame.stream_id is %s" % fmt(ops.get("stream_id"))[:120])
    ctx.ob("R03.5", "decode:Frame.data", data_ok, "", "data = split_to(data_len).freeze() | empty" if data_ok else "Frame.data is %s" % fmt(alts)[:160])


def run(ctx):
    from . import effects
    effects.check_property(ctx, "C03")    # R03.E: no operation on shared protocol state outside the reviewed table
    from . import C01 as _C01d
    _C01d.r3_r4_recv_buffer(ctx)     # the loop that drives the decoder hands out every complete frame it holds before it asks for more input: the frame sequence does not depend on how the bytes were cut into reads
    r1_layout(ctx)
    r2_peek_then_consume(ctx)
    r3_totality(ctx)
    r4_encoder(ctx)
    r5_decoded_fields(ctx)
    r6_payload_follows_its_length(ctx)
    from . import C20 as _C20
    _reach = _C20.input_reachable(ctx)
    _C20.r12_subtractions(ctx, _reach)      # arithmetic on buffer sizes in the codec cannot underflow
    _C20.r9_str_index(ctx, _reach)          # nor is text decoded from a payload cut at a byte position that need not be a character boundary
    _C20.r17_panicking_index_methods(ctx, _reach)
    _C20.r13_slice_indices(ctx, _reach)     # no slice of the receive buffer is taken before the bytes are known to be there (log previews included)
