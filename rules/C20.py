"""C20 — hostile or garbled input cannot crash or wedge the proxy (structural clauses)."""
from engine.anl.casts import const_value, guard_bounds as guard_bounds_
from engine.anl.origin import fmt, subterms, strip_bb
from .common import atomic_method, S, co, calls_norm, is_call_term, var_name, render_path, effectful_calls, spawned_children
from . import C02, C03, C04, C16, C17

EXPLANATION = (
    "Static decision of the absence of explicit crash sites and structural wedges on every input-reachable path: (R20.1) the frame "
    "dispatch is total (all Command variants reach an arm) and tolerant (the arms for frames that are illegal for the receiver's role, and "
    "the default arm, have no effect, no error return and no panic call); (R20.2) no function reachable from the input entry points "
    "(recv_loop, authenticate_client, the stream handlers, the SOCKS5/HTTP connection handlers, the UDP loops, the scheme and settings "
    "parsers) calls unwrap/expect/panic!/unreachable!/assert!, with single reviewed exceptions named in the rule; (R20.3) decoder guards "
    "and totality (= R03.2/R03.3); (R20.4) scheme size conversions (= R04.2); (R20.5) bounded HTTP header (= R17.3); (R20.6) containment: the "
    "three accept loops never exit and every connection / session runs in its own task; (R20.7) progress: every frame decode returns only "
    "after consuming the 7-byte header; (R20.9) every byte-range index into a &str in input-reachable code uses bounds obtained from "
    "find/rfind on that same string (char-boundary safe) — a bound taken from another string's length can split a multi-byte character and "
    "panic; (R20.10) every loop around a plain `read` leaves the loop on a 0-byte read (end of stream), so a closed stream cannot make a task "
    "spin. Not decided: arithmetic/index panics in general (inventoried as information, R20.8), panics inside dependencies, memory exhaustion "
    "through unbounded queues, timing."
)
RULE_TEXT = "one obligation per dispatch arm, per input-reachable body (panic family), per accept loop, per str index, per read loop; non-trivial = needed a call-graph, region, origin or reachability query"

ROOTS = [
    S + "recv_loop::{closure#0}", "util::auth::authenticate_client::{closure#0}",
    "<server::handler::TcpProxyHandler as server::handler::StreamHandler>::handle_stream",
    "server::udp_proxy::handle_udp_over_tcp::{closure#0}", "client::socks5::handle_socks5_connection::{closure#0}",
    "client::http_proxy::handle_http_proxy_connection::{closure#0}", "client::udp_client::udp_proxy_loop::{closure#0}",
    "padding::factory::PaddingFactory::new", "padding::factory::PaddingFactory::update_default", "util::string_map::StringMap::from_bytes",
    "server::server::handle_connection::{closure#0}", S + "process_stream_data::{closure#0}",
]
# reviewed single sites: (body prefix, callee suffix) -> reason
REVIEWED = {
    ("padding::factory::PaddingFactory::default", "::expect"): "expect on the result of parsing the built-in DEFAULT_PADDING_SCHEME constant: not input",
}
ROLE_ARMS = {"Syn": True, "SynAck": False, "Settings": True, "ServerSettings": False, "UpdatePaddingScheme": False}  # variant -> the role value of is_client for which the frame is illegal


def r1_dispatch(ctx):
    body = co(ctx, "R20.1", S + "handle_frame")
    if body is None:
        return
    cfg, conds, o = ctx.cfg(body), ctx.conds(body), ctx.origins(body)
    sw, arms = C02.arm_regions(ctx, body)
    variants = [n for n, d in (ctx.P.enum_variants("protocol::frame::Command") or [])]
    if sw is None or not variants:
        ctx.missing("R20.1", "match on frame.cmd / enum Command")
        return
    ctx.floor("R20.1", "Command variants", len(variants), 11)
    for v in variants:
        ctx.ob("R20.1", "dispatch:reaches-an-arm:%s" % v, v in arms, "", "Command::%s is dispatched" % v if v in arms else "Command::%s reaches no arm" % v, nontrivial=False)
    for v, illegal_when_client in ROLE_ARMS.items():
        if v not in arms:
            continue
        s, own, allr = arms[v]
        edges = []
        for c in conds.all():
            if c.block in own | {s} and c.kind == "bool" and var_name(c.term) == "self.is_client":
                edges += c.edges_for(illegal_when_client)
        if not edges:
            ctx.ob("R20.1", "dispatch:%s:role-check" % v, False, "", "the %s arm does not test the session's role: a %s frame sent to the wrong side is acted upon" % (v, v))
            continue
        # blocks only reachable through the wrong-role edge, inside the arm
        other = cfg.reach([s], avoid_edges=edges)
        region = (cfg.reach([e[1] for e in edges]) & own) - other
        eff = effectful_calls(body, region)
        ctx.ob("R20.1", "dispatch:%s:wrong-role-is-inert" % v, not eff, "src/session/session.rs:%s" % body.blocks[edges[0][0]]["tspan"]["line"],
               "a %s frame on the %s side only logs" % (v, "client" if illegal_when_client else "server") if not eff else "the wrong-role branch of %s calls %s" % (v, eff[0].norm))


def input_reachable(ctx):
    roots = [r for r in ROOTS if r in ctx.P.bodies]
    missing = [r for r in ROOTS if r not in ctx.P.bodies]
    for m in missing:
        ctx.missing("R20.2", "input entry point " + m)
    return ctx.cg.reachable_from(roots, kinds=("call", "async", "closure", "await", "spawn"))


def _const_only(t):
    """the value is computed from compile-time constants alone (calls of constants are constants for this purpose)"""
    if not isinstance(t, tuple) or not t:
        return True
    k = t[0]
    if k in ("const", "fn"):
        return True
    if k == "call":
        return all(_const_only(a) for a in t[3])
    if k in ("cast", "ref", "deref"):
        return all(_const_only(a) for a in t[1:] if isinstance(a, tuple))
    return False


def r2_no_explicit_panic(ctx, reach):
    n = 0
    hits = 0
    for key in sorted(reach):
        body = ctx.P.bodies[key]
        if key.startswith(("util::cert", "util::tls", "anytls_")):
            continue
        n += 1
        pcs = C03.panic_calls(body)
        bad = []
        for c in pcs:
            rv = [why for (pref, suf), why in REVIEWED.items() if key.startswith(pref) and (c.norm or "").endswith(suf)]
            if not rv and c.args and (c.norm or "").endswith(("::expect", "::unwrap")):
                t = ctx.origins(body).of_operand(c.args[0])
                if isinstance(t, tuple) and t[0] == "call" and _const_only(t):
                    rv = ["the unwrapped value is computed from compile-time constants only (%s): not input" % fmt(t)[:80]]
            if rv:
                ctx.note("R20.2", "reviewed exception %s in %s: %s" % (c.norm, key, rv[0]))
                continue
            # lock-poison unwraps on std locks are not input-derived, but they are still panics: report them
            bad.append(c)
        for c in bad:
            hits += 1
            ctx.ob("R20.2", "%s|%s@%s" % (key.split("::{closure")[0], c.norm.split("::")[-1], _arg_hint(ctx, body, c)), False, c.site,
                   "input-reachable code calls %s: a value that is not what the code expects (peer input, a failed syscall) aborts the task; in a spawned per-stream/per-session task this silently ends it, in a shared task it ends service" % c.norm)
    ctx.ob("R20.2", "input-reachable-set:no-explicit-panic", hits == 0, "", "%d input-reachable bodies, none calls unwrap/expect/panic!/unreachable!/assert!" % n if hits == 0 else "%d explicit panic sites" % hits)
    ctx.floor("R20.2", "input-reachable bodies", n, 120)
    ctx.extra["input_reachable_bodies"] = n


def _arg_hint(ctx, body, c):
    o = ctx.origins(body)
    if c.args:
        return fmt(o.of_operand(c.args[0]))[:40].replace("/", "_")
    return ""


def r6_containment(ctx):
    C16.accept_loop_rules(ctx, "R20.6", "client::socks5::start_socks5_server", "socks5::handle_socks5_connection", "socks5")
    C16.accept_loop_rules(ctx, "R20.6", "client::http_proxy::start_http_proxy_server", "http_proxy::handle_http_proxy_connection", "http")
    C16.accept_loop_rules(ctx, "R20.6", "server::server::Server::listen", "server::handle_connection", "server")
    hc = co(ctx, "R20.6", "server::server::handle_connection")
    if hc is not None:
        kids = spawned_children(ctx, hc.name)
        recv = any(calls_norm(k, "Session::recv_loop") for k in kids)
        direct = bool(calls_norm(hc, "Session::recv_loop"))
        ctx.ob("R20.6", "server:session-in-own-task", recv and not direct, "", "each session's receive loop runs in its own spawned task" if recv and not direct else "the session receive loop is not isolated in a task of its own")
        # every stream handler in its own task
        per_stream = False
        for k in kids:
            for k2 in spawned_children(ctx, k.name):
                if any((c.norm or "").endswith("StreamHandler>::handle_stream") or (c.norm or "").endswith("::handle_stream") for c in k2.calls()):
                    per_stream = True
        ctx.ob("R20.6", "server:stream-handler-in-own-task", per_stream, "", "every stream handler runs in a task spawned for that stream" if per_stream else "stream handlers are not isolated per stream")


def r7_progress(ctx):
    dec = ctx.body("R20.7", C03.DEC)
    if dec is None:
        return
    cfg, o = ctx.cfg(dec), ctx.origins(dec)
    adv = [c for c in dec.calls() if (c.norm or "").endswith("::advance") and var_name(o.of_operand(c.args[0])) == "src" and (const_value(o.of_operand(c.args[1])) or 0) >= 1]
    somes = []
    for kind, bi, si, rv in dec.defs().get(0, []):
        if kind == "assign" and rv["r"] == "aggregate" and rv["kind"].get("variant") == "Ok" and rv["ops"]:
            t = o.of_operand(rv["ops"][0])
            if isinstance(t, tuple) and t[0] == "agg" and t[2] == "Some":
                somes.append(bi)
    ok = bool(adv) and bool(somes) and all(any(cfg.dominates(a.bb, b) for a in adv) for b in somes)
    ctx.ob("R20.7", "decode:every-frame-consumes-the-header", ok, adv[0].site if adv else "", "every Ok(Some(frame)) is dominated by advance(HEADER): the receive loop's inner `while let` consumes >= 7 bytes per turn" if ok else
           "decode can return a frame without consuming bytes: the receive loop spins on the same buffer")


def r9_str_index(ctx, reach):
    n = 0
    for key in sorted(reach):
        body = ctx.P.bodies[key]
        idx = [c for c in body.calls() if (c.callee or "").endswith("Index<I> for str>::index") or (c.callee or "").endswith("IndexMut<I> for str>::index_mut")]
        if not idx:
            continue
        o = ctx.origins(body)
        for c in idx:
            n += 1
            s_term = o.of_operand(c.args[0])
            rng = o.of_operand(c.args[1])
            bounds = list(rng[3]) if isinstance(rng, tuple) and rng[0] == "agg" else []
            bad = []
            for b in bounds:
                if not _safe_bound(b, s_term):
                    bad.append(b)
            ctx.ob("R20.9", "%s|str-index#%d" % (key.split("::{closure")[0], n), not bad, c.site,
                   "bounds come from find/rfind on the indexed string (or are 0 / its len)" if not bad else
                   "a &str is sliced at byte offset `%s`, which is not a position found in that same string: if it falls inside a multi-byte UTF-8 character the slice panics "
                   "(e.g. a request target with a non-ASCII character straddling the offset)" % fmt(bad[0])[:100])
    ctx.floor("R20.9", "byte-range indexings of &str in input-reachable code", n, 5)


def _safe_bound(b, s_term, depth=0):
    if const_value(b) == 0:
        return True
    if isinstance(b, tuple) and b[0] == "binop" and b[1] in ("Add", "Sub") and depth < 3:
        sides = [b[2], b[3]]
        consts = [x for x in sides if const_value(x) is not None]
        rest = [x for x in sides if const_value(x) is None]
        # pattern lengths added to a find() result: the patterns searched for in this crate are ASCII
        return len(consts) == 1 and len(rest) == 1 and _safe_bound(rest[0], s_term, depth + 1)
    if is_call_term(b, "str>::find", "str>::rfind", "::find", "::rfind", "::len", "char_indices", "::floor_char_boundary", "::ceil_char_boundary"):
        if not b[3]:
            return False
        recv = b[3][0]
        return strip_bb(recv) == strip_bb(s_term) or _prefix_of(recv, s_term)
    return False


def _prefix_of(a, b):
    # `value[..idx]` searched again, or a phi of the same slices: accept when one term textually contains the other
    fa, fb = fmt(a), fmt(b)
    return fa in fb or fb in fa


READS = ("AsyncReadExt::read", "StreamReader::read", "AsyncReadExt::read_buf")


def r10_read_loops(ctx, reach):
    n = 0
    for key in sorted(reach):
        body = ctx.P.bodies[key]
        rds = [c for c in body.calls() if (c.norm or "").endswith(READS)]
        if not rds:
            continue
        cfg, conds = ctx.cfg(body), ctx.conds(body)
        for r in rds:
            if not cfg.in_cycle(r.bb):
                continue
            n += 1
            loop = cfg.cycle_blocks(r.bb)
            tests = []
            on_read = lambda x: any(isinstance(s_, tuple) and s_[0] == "call" and s_[2] == r.bb for s_ in subterms(x))
            for c in conds.all():
                t = c.term
                if c.block not in loop:
                    continue
                if c.kind == "int" and on_read(t):
                    tests.append((c, c.succs_for(0)))
                elif c.kind == "bool" and isinstance(t, tuple) and t[0] == "binop" and on_read(t[2]) and const_value(t[3]) == 0:
                    if t[1] == "Eq":
                        tests.append((c, c.succs_for(True)))
                    elif t[1] in ("Gt", "Ne"):
                        tests.append((c, c.succs_for(False)))
                elif c.kind == "bool" and isinstance(t, tuple) and t[0] == "binop" and on_read(t[2]) and const_value(t[3]) == 1 and t[1] == "Lt":
                    tests.append((c, c.succs_for(True)))
            if not tests:
                ctx.ob("R20.10", "%s|read-loop#%d" % (key.split("::{closure")[0], n), False, r.site, "the loop around `%s` never tests for a 0-byte read: at end of stream it cannot terminate" % r.norm.split("::")[-1])
                continue
            # a deciding test: its zero edge leaves the loop for good, and no iteration can come back to the read without passing it
            good = False
            for c, zt in tests:
                if not zt or r.bb in cfg.reach(zt):
                    continue
                if cfg.must_pass(cfg.succ(r.bb), [r.bb], via_blocks=[c.block])[0]:
                    good = True
            ctx.ob("R20.10", "%s|read-loop#%d" % (key.split("::{closure")[0], n), good, r.site,
                   "a 0-byte read leaves the loop" if good else
                   "after a 0-byte read (end of stream — StreamReader::read and socket reads return Ok(0) immediately and for ever) control returns to the same read: the task spins and pins a runtime worker")
    ctx.floor("R20.10", "loops around a plain read", n, 6)


WIDE_NUMBER_SOURCES = ("::parse", "::from_str", "::get_u32", "::get_u64", "::get_i32", "::get_i64", "u32::from_be_bytes", "u64::from_be_bytes",
                       "u32::from_le_bytes", "u64::from_le_bytes", "usize::from_be_bytes", "::get_u32_le", "::get_u64_le", "::from_str_radix")


def r11_counted_loops(ctx, reach):
    """no loop whose trip count is a number the peer chose from a 32-bit (or wider) space, unless a comparison bounds it first:
    such a loop runs synchronously inside the task that parses the input (4 * 10^9 iterations = minutes of a pinned worker)"""
    from engine.anl.casts import guard_bounds
    n = 0
    for key in sorted(reach):
        body = ctx.P.bodies[key]
        if key in ctx.P.inlined_away or key.startswith(("util::cert", "util::tls", "anytls_")):
            continue
        o = None
        for bi in sorted(body.reachable()):
            for st in body.blocks[bi]["stmts"]:
                if st["s"] != "assign" or st["rv"]["r"] != "aggregate":
                    continue
                k = st["rv"]["kind"]
                if k.get("a") != "adt" or k.get("adt") not in ("std::ops::Range", "std::ops::RangeInclusive") or len(st["rv"]["ops"]) != 2:
                    continue
                o = o or ctx.origins(body)
                end = o.of_operand(st["rv"]["ops"][1])
                src = [s_ for s_ in subterms(end) if is_call_term(s_, *WIDE_NUMBER_SOURCES)]
                for s_ in subterms(end):
                    if isinstance(s_, tuple) and s_ and s_[0] == "var" and len(s_) > 2:
                        src += [x for x in subterms(o.init_of(s_[2])) if is_call_term(x, *WIDE_NUMBER_SOURCES)]
                if not src:
                    continue
                # is the range iterated (a for loop / iterator chain), not used to slice?
                dst = st["place"]["local"]
                iterated = any((c.norm or "").endswith(("::into_iter", "::next", "::map", "::for_each", "::filter", "::fold", "::rev", "::step_by", "::try_for_each", "::all", "::any")) and
                               any(a.get("place", {}).get("local") == dst for a in c.args if a["o"] in ("move", "copy")) for c in body.calls(True))
                if not iterated:
                    continue
                n += 1
                cfg, conds = ctx.cfg(body), ctx.conds(body)
                lo, hi, used = guard_bounds(body, cfg, conds, o, end, bi)
                ctx.ob("R20.11", "%s|counted-loop#%d" % (ctx.P.owner(key), n), hi is not None, "%s:%s" % (st["span"].get("file", "?"), st["span"]["line"]),
                       "the trip count `%s` is bounded by a dominating comparison (<= %s)" % (fmt(end)[:50], hi) if hi is not None else
                       "a loop runs `%s` times, a number taken from input (%s) with no upper bound checked first: one frame / scheme carrying 4294967295 pins the parsing task (and a runtime worker) for minutes; "
                       "the session reads nothing meanwhile" % (fmt(end)[:60], src[0][1].split("::")[-1]))
    ctx.ob("R20.11", "input-reachable-set:no-unbounded-counted-loop", True, "", "%d counted loops over input-derived wide integers examined" % n, nontrivial=False)


def r12_subtractions(ctx, reach):
    """every `a - b` the authors wrote on input-reachable code is dominated by a comparison that excludes underflow (the crate
    otherwise uses saturating_sub / checked_sub): with overflow checks on it is a panic of the parsing task, without them a huge
    length that feeds an allocation, a slice bound or a sleep"""
    from engine.anl.casts import guard_bounds
    n = n_arith = 0
    for key in sorted(reach):
        body = ctx.P.bodies[key]
        if key in ctx.P.inlined_away or key.startswith(("util::cert", "util::tls", "anytls_")):
            continue
        o = None
        for bi in sorted(body.reachable()):
            for st in body.blocks[bi]["stmts"]:
                if st["s"] != "assign" or st["rv"]["r"] != "binop" or st["span"].get("macros"):
                    continue
                op = st["rv"]["op"]
                if op in ("AddWithOverflow", "Add"):
                    n_arith += 1
                    # an addition in an 8/16-bit type with an operand taken from input: overflows for the top values of that operand
                    ty_a = body.lty(st["rv"]["a"]["place"]["local"]).get("s") if st["rv"]["a"]["o"] != "const" else st["rv"]["a"]["c"]["ty"].get("s")
                    if ty_a in ("u8", "u16", "i8", "i16"):
                        from engine.anl.casts import range_of as _range_of, int_range as _int_range
                        o = o or ctx.origins(body)
                        cfg_, conds_ = ctx.cfg(body), ctx.conds(body)
                        a_, b_ = o.of_operand(st["rv"]["a"]), o.of_operand(st["rv"]["b"])
                        ra, rb = _range_of(body, cfg_, conds_, o, a_, bi, []), _range_of(body, cfg_, conds_, o, b_, bi, [])
                        tr = _int_range(ty_a)
                        ra = (ra[0], tr[1] if ra[1] is None else min(ra[1], tr[1]))
                        rb = (rb[0], tr[1] if rb[1] is None else min(rb[1], tr[1]))
                        n += 1
                        okadd = ra[1] + rb[1] <= tr[1]
                        ctx.ob("R20.12", "%s|narrow-add#%d" % (ctx.P.owner(key), n), okadd, "%s:%s" % (st["span"].get("file", "?"), st["span"]["line"]),
                               "`%s + %s` cannot exceed %s" % (fmt(a_)[:30], fmt(b_)[:30], ty_a) if okadd else
                               "`%s + %s` is computed in %s with operands up to %s and %s: the top values of the input byte overflow (a panic with overflow checks, a wrapped — too small — length without)"
                               % (fmt(a_)[:50], fmt(b_)[:30], ty_a, ra[1], rb[1]))
                if op not in ("SubWithOverflow", "Sub"):
                    continue
                ty = body.lty(st["rv"]["a"]["place"]["local"]).get("s") if st["rv"]["a"]["o"] != "const" else st["rv"]["a"]["c"]["ty"].get("s")
                if ty and ty.startswith(("f32", "f64")):
                    continue
                o = o or ctx.origins(body)
                cfg, conds = ctx.cfg(body), ctx.conds(body)
                a, b = o.of_operand(st["rv"]["a"]), o.of_operand(st["rv"]["b"])
                n += 1
                guarded = False
                for c in conds.all():
                    t = c.term
                    if c.kind != "bool" or not (isinstance(t, tuple) and t and t[0] == "binop"):
                        continue
                    if t[1] in ("Le", "Lt") and strip_bb(t[2]) == strip_bb(b) and strip_bb(t[3]) == strip_bb(a) and cfg.edges_dominate(c.edges_for(True), bi):
                        guarded = True
                    if t[1] in ("Lt", "Le") and strip_bb(t[2]) == strip_bb(a) and strip_bb(t[3]) == strip_bb(b) and cfg.edges_dominate(c.edges_for(False), bi):
                        guarded = True
                cb = const_value(b)
                if cb is not None:
                    lo, hi, used = guard_bounds(body, cfg, conds, o, a, bi)
                    if lo is not None and lo >= cb:
                        guarded = True
                # `x.len() - p` where p is a position found in that very x (find / position / a crate function handed x): what
                # R20.13 accepts as an index into x is at most x.len()
                if not guarded and is_call_term(a, "::len") and a[3] and isinstance(b, tuple) and b and b[0] == "call":
                    xk = strip_bb(a[3][0])
                    lastb = b[1].split("::")[-1]
                    if (lastb in ("find", "rfind", "position", "rposition") or b[1].startswith(("client::", "server::", "util::", "session::", "padding::", "protocol::"))) \
                            and any(strip_bb(a_) == xk for a_ in b[3]):
                        guarded = True
                ctx.ob("R20.12", "%s|sub#%d" % (ctx.P.owner(key), n), guarded, "%s:%s" % (st["span"].get("file", "?"), st["span"]["line"]),
                       "`%s - %s` is dominated by a comparison that excludes underflow" % (fmt(a)[:30], fmt(b)[:30]) if guarded else
                       "`%s - %s` (%s) on input-reachable code has no dominating guard: an input that makes the subtrahend larger panics the task that parses it (overflow checks on) or yields a length near 2^64 "
                       "(checks off)" % (fmt(a)[:50], fmt(b)[:50], ty))
    # `Duration - Duration` and `Instant - Duration` panic on underflow like integer subtraction does (anywhere in the crate: these
    # run in long-lived tasks — monitors, reapers, request paths — whose silent death is the failure)
    nd = 0
    for key, body in ctx.P.scan():
        if key.startswith(("anytls_", "util::cert", "util::tls")):
            continue
        o = None
        for c in body.calls():
            cal = c.callee or ""
            if not (cal.endswith(("::sub", "::sub_assign")) and ("Duration" in cal or "Instant" in cal or "SystemTime" in cal)) or len(c.args) < 2:
                continue
            if "Instant as std::ops::Sub>::sub" in cal or "Sub<std::time::Instant>" in cal or "Sub<tokio::time::Instant>" in cal:
                continue        # Instant - Instant saturates to zero
            o = o or ctx.origins(body)
            cfg, conds = ctx.cfg(body), ctx.conds(body)
            a, b = o.of_operand(c.args[0]), o.of_operand(c.args[1])
            nd += 1
            guarded = False
            for cd in conds.all():
                t = cd.term
                if cd.kind == "bool" and is_call_term(t, "PartialOrd::le", "PartialOrd>::le", "PartialOrd::lt", "PartialOrd>::lt") and len(t[3]) == 2:
                    if strip_bb(t[3][0]) == strip_bb(b) and strip_bb(t[3][1]) == strip_bb(a) and cfg.edges_dominate(cd.edges_for(True), c.bb):
                        guarded = True
                    if strip_bb(t[3][0]) == strip_bb(a) and strip_bb(t[3][1]) == strip_bb(b) and cfg.edges_dominate(cd.edges_for(False), c.bb):
                        guarded = True
            ctx.ob("R20.12", "%s|duration-sub#%d" % (ctx.P.owner(key), nd), guarded, c.site, "the time subtraction is dominated by a comparison that excludes underflow" if guarded else
                   "`%s - %s` on Duration/Instant values panics when the subtrahend is the larger one (use checked_sub / saturating_sub): the task that computes it — a monitor, a reaper, a pending open — dies silently, "
                   "for exactly the configurations or timings in which the difference is negative" % (fmt(a)[:40], fmt(b)[:40]))
    ctx.ob("R20.12", "crate:time-subtractions-guarded", True, "", "%d Duration/Instant subtractions examined" % nd, nontrivial=False)
    ctx.floor("R20.12", "arithmetic statements seen on input-reachable code (matcher self-check)", n_arith, 10)
    ctx.ob("R20.12", "input-reachable-set:subtractions-guarded", True, "", "%d plain subtractions examined" % n, nontrivial=False)


def _index_bounds(idx):
    """the non-constant bound terms of an index expression (a plain index, or the fields of a Range* aggregate)"""
    if isinstance(idx, tuple) and idx and idx[0] == "agg" and "Range" in str(idx[1]) + str(idx[2]):
        return list(idx[3])
    return [idx]


def _nobb(s):
    import re as _re
    return _re.sub(r"@bb\d+", "", s)


def r13_slice_indices(ctx, reach):
    """every slice/array/Vec index the authors wrote on input-reachable code has bounds that are tied to the container it indexes:
    a constant under a dominating length test of that container, or a value computed from that very container (the count a read
    into it returned, its len(), a position found in it, a remainder by its length). Anything else — an offset taken from a length
    byte applied to a fixed buffer — panics the parsing task on the right input."""
    from engine.anl.casts import guard_bounds
    n = 0
    for key in sorted(reach):
        body = ctx.P.bodies[key]
        if key in ctx.P.inlined_away or key.startswith(("util::cert", "util::tls", "anytls_")):
            continue
        o = None
        for c in body.calls():
            cal = c.callee or ""
            if not cal.endswith(("::index", "::index_mut")) or len(c.args) < 2:
                continue
            mac = [m_.split("::")[-1].rstrip("!") for m_ in c.span.get("macros", [])]
            if mac and not all(m_ in ("debug", "trace", "info", "warn", "error", "event", "span", "debug_span", "info_span", "trace_span", "valueset", "fieldset", "callsite", "enabled", "format_args", "const_format_args", "log") for m_ in mac):
                continue        # arguments of logging macros are the authors' own expressions and are evaluated when the level is enabled
            if " for str" in cal or "String as" in cal or "HashMap" in cal or "BTreeMap" in cal:
                continue
            o = o or ctx.origins(body)
            cfg, conds = ctx.cfg(body), ctx.conds(body)
            cont = o.of_operand(c.args[0])
            idx = o.of_operand(c.args[1])
            n += 1
            ckey = strip_bb(cont)
            cont_locals = {s_[2] for s_ in subterms(cont) if isinstance(s_, tuple) and s_ and s_[0] == "var" and len(s_) > 2}

            SIZE_LIKE = ("len", "read", "read_buf", "read_exact", "recv_from", "recv", "try_read", "try_recv_from", "peek", "peek_from", "position", "rposition", "find", "rfind", "capacity",
                         "remaining", "min", "saturating_sub", "write", "poll_read", "filled")

            def mentions_container(t, depth=0):
                for s_ in subterms(t):
                    if isinstance(s_, tuple) and s_ and s_[0] == "call":
                        last_ = s_[1].split("::")[-1]
                        # a size / count / position obtained from the container — not a value decoded from its *contents*
                        if last_ not in SIZE_LIKE and not s_[1].startswith(("client::", "server::", "util::", "session::", "padding::", "protocol::")):
                            continue
                        if last_ in ("min", "saturating_sub"):
                            continue        # looked through: their operands are visited as subterms
                        for a_ in s_[3]:
                            if strip_bb(a_) == ckey:
                                return True
                            if isinstance(a_, tuple) and a_ and a_[0] == "var" and len(a_) > 2 and a_[2] in cont_locals:
                                return True
                    if depth < 2 and isinstance(s_, tuple) and s_ and s_[0] == "var" and len(s_) > 2 and s_[2] not in cont_locals:
                        if mentions_container(o.init_of(s_[2]), depth + 1):
                            return True
                return False

            bad = None
            for b_ in _index_bounds(idx):
                cv = const_value(b_)
                if cv is not None:
                    if cv == 0 and not (isinstance(idx, tuple) and idx[0] == "agg"):
                        pass    # element 0: needs non-emptiness, handled like any constant below
                    # a constant bound needs a dominating test of the container's length (or a fixed-size array that is large enough)
                    ty = body.lty(cont[2]).get("s", "") if isinstance(cont, tuple) and cont[0] == "var" and len(cont) > 2 else ""
                    m = __import__("re").search(r"\[[^;\]]+; (\d+)\]", ty)
                    if m and int(m.group(1)) >= cv + (0 if isinstance(idx, tuple) and idx[0] == "agg" else 1):
                        continue
                    need = cv if isinstance(idx, tuple) and idx[0] == "agg" else cv + 1
                    okc = need == 0
                    for cd in conds.all():
                        tt = cd.term
                        if cd.kind == "bool" and isinstance(tt, tuple) and tt and tt[0] == "binop" and is_call_term(tt[2], "::len") and tt[2][3] and (strip_bb(tt[2][3][0]) == ckey or (isinstance(tt[2][3][0], tuple) and len(tt[2][3][0]) > 2 and tt[2][3][0][2] in cont_locals)):
                            k = const_value(tt[3])
                            if k is None:
                                continue
                            if tt[1] == "Ge" and k >= need and cfg.edges_dominate(cd.edges_for(True), c.bb):
                                okc = True
                            if tt[1] == "Gt" and k + 1 >= need and cfg.edges_dominate(cd.edges_for(True), c.bb):
                                okc = True
                            if tt[1] == "Lt" and k >= need and cfg.edges_dominate(cd.edges_for(False), c.bb):
                                okc = True
                            if tt[1] == "Le" and k + 1 >= need and cfg.edges_dominate(cd.edges_for(False), c.bb):
                                okc = True
                        if cd.kind == "bool" and need <= 1 and is_call_term(tt, "::is_empty") and tt[3] and (strip_bb(tt[3][0]) == ckey or (isinstance(tt[3][0], tuple) and len(tt[3][0]) > 2 and tt[3][0][2] in cont_locals)) and cfg.edges_dominate(cd.edges_for(False), c.bb):
                            okc = True
                    if not okc:
                        # transitively: need <= V (dominating `V >= k`, k >= need) and V < len(container) (dominating comparison)
                        for cd in conds.all():
                            tt = cd.term
                            if not (cd.kind == "bool" and isinstance(tt, tuple) and tt and tt[0] == "binop" and tt[1] in ("Ge", "Gt") and const_value(tt[3]) is not None):
                                continue
                            k = const_value(tt[3]) + (1 if tt[1] == "Gt" else 0)
                            if k < need or not cfg.edges_dominate(cd.edges_for(True), c.bb):
                                continue
                            V = strip_bb(tt[2])
                            for cd2 in conds.all():
                                t2 = cd2.term
                                if cd2.kind == "bool" and isinstance(t2, tuple) and t2 and t2[0] == "binop" and t2[1] in ("Lt", "Le") and strip_bb(t2[2]) == V and mentions_container(t2[3]) and cfg.edges_dominate(cd2.edges_for(True), c.bb):
                                    okc = True
                    if not okc:
                        bad = (b_, "the constant %s is not covered by a dominating test of the container's length" % cv)
                    continue
                if mentions_container(b_):
                    continue
                # a variable compared with the container's length on the way here
                okv = False
                for cd in conds.all():
                    tt = cd.term
                    if cd.kind == "bool" and isinstance(tt, tuple) and tt and tt[0] == "binop" and tt[1] in ("Lt", "Le") and strip_bb(tt[2]) == strip_bb(b_) and mentions_container(tt[3]) and cfg.edges_dominate(cd.edges_for(True), c.bb):
                        okv = True
                if not okv:
                    bad = (b_, "`%s` is not computed from the container and not compared with its length" % fmt(b_)[:60])
            ctx.ob("R20.13", "%s|index#%d" % (ctx.P.owner(key), n), bad is None, c.site, "bounds tied to the indexed container" if bad is None else
                   "`%s[%s]`: %s — input of the right size makes this index panic, which ends the task that parses it (no reply, no cleanup)" % (fmt(cont)[:30], fmt(idx)[:60], bad[1]))
    ctx.floor("R20.13", "slice index sites on input-reachable code", n, 25)
    # built-in element indexing (`arr[i]`, `slice[i]`): rustc's bounds check is a panic; the index must be provably inside
    import re as _re
    from engine.anl.casts import range_of as _range_of
    nb = 0
    for key in sorted(reach):
        body = ctx.P.bodies[key]
        if key in ctx.P.inlined_away or key.startswith(("util::cert", "util::tls", "anytls_")):
            continue
        o = None
        for bi in sorted(body.reachable()):
            t = body.blocks[bi]["term"]
            if t["t"] != "assert" or not t.get("msg", "").startswith("BoundsCheck"):
                continue
            m = _re.match(r"BoundsCheck \{ len: (const (\d+)_usize|(?:move|copy) _(\d+)), index: (const (\d+)_usize|(?:move|copy) _(\d+)) \}", t["msg"])
            if not m:
                continue
            o = o or ctx.origins(body)
            cfg, conds = ctx.cfg(body), ctx.conds(body)
            nb += 1
            len_c = int(m.group(2)) if m.group(2) else None
            len_t = None if m.group(2) else o.of_place(int(m.group(3)), ())
            idx_c = int(m.group(5)) if m.group(5) else None
            idx_t = None if m.group(5) else o.of_place(int(m.group(6)), ())
            if idx_c is None and const_value(idx_t) is not None:
                idx_c = const_value(idx_t)
            if len_c is None and const_value(len_t) is not None:
                len_c = const_value(len_t)
            ok = False
            why = ""
            if idx_c is not None and len_c is not None:
                ok = idx_c < len_c
                why = "constant index %s, %s elements" % (idx_c, len_c)
            elif idx_c is not None:
                lo, hi, used = guard_bounds_(body, cfg, conds, o, len_t, bi)
                # the same length may be spelt as a method call (`buf.len()`) in the guard and as the slice's length here
                cont_ = len_t[1] if isinstance(len_t, tuple) and len(len_t) > 1 and len_t[0] == "len" else None
                if cont_ is not None:
                    for cd in conds.all():
                        tt = cd.term
                        if cd.kind == "bool" and isinstance(tt, tuple) and tt and tt[0] == "binop" and tt[1] in ("Ge", "Gt") and is_call_term(tt[2], "::len") and tt[2][3] and \
                                ((var_name(tt[2][3][0]) == var_name(cont_) and var_name(cont_)) or _nobb(fmt(tt[2][3][0])) == _nobb(fmt(cont_))) and const_value(tt[3]) is not None and cfg.edges_dominate(cd.edges_for(True), bi):
                            k_ = const_value(tt[3]) + (1 if tt[1] == "Gt" else 0)
                            lo = k_ if lo is None else max(lo, k_)
                ok = lo is not None and lo > idx_c
                why = "constant index %s under a dominating test that the length is at least %s" % (idx_c, lo)
            else:
                lo, hi = _range_of(body, cfg, conds, o, idx_t, bi, [])
                if len_c is not None:
                    ok = hi is not None and hi < len_c
                    why = "index at most %s, %s elements" % (hi, len_c)
                else:
                    for cd in conds.all():
                        tt = cd.term
                        if cd.kind == "bool" and isinstance(tt, tuple) and tt and tt[0] == "binop" and tt[1] == "Lt" and strip_bb(tt[2]) == strip_bb(idx_t) and strip_bb(tt[3]) == strip_bb(len_t) and cfg.edges_dominate(cd.edges_for(True), bi):
                            ok = True
                            why = "dominated by `index < len`"
                    if isinstance(idx_t, tuple) and idx_t and idx_t[0] == "binop" and idx_t[1] == "Rem" and strip_bb(idx_t[3]) == strip_bb(len_t):
                        ok = True
                        why = "index is a remainder by the length"
            ctx.ob("R20.13", "%s|element-index#%d" % (ctx.P.owner(key), nb), ok, "%s:%s" % (body.blocks[bi]["tspan"].get("file", "?"), body.blocks[bi]["tspan"]["line"]),
                   why if ok else "the element index `%s` is not provably below the length `%s`: on the right input the bounds check panics and the task that parses it dies (no reply, no cleanup)"
                   % (idx_c if idx_c is not None else fmt(idx_t)[:50], len_c if len_c is not None else fmt(len_t)[:40]))
    ctx.floor("R20.13", "element index sites on input-reachable code", nb, 15)


def r14_gauges_released_on_every_exit(ctx):
    """a counter of things in progress (an atomic that the crate both increments and decrements, or a semaphore permit that is
    forgotten) is decremented on *every* way out of the function that decrements it — an early `?` exit that skips the
    decrement leaks one slot per failed attempt, and whoever can cause failures can fill the counter up and lock everybody out"""
    n = 0
    for key, body in ctx.P.scan():
        if key.startswith(("anytls_",)):
            continue
        subs = [c for c in body.calls() if atomic_method(c) == "fetch_sub"]
        if not subs:
            continue
        if "Drop>::drop" in key or key.endswith("::drop"):
            continue        # a guard object: runs on every exit by construction
        cfg = ctx.cfg(body)
        for c in subs:
            if cfg.in_cycle(c.bb):
                continue
            n += 1
            rets = body.return_blocks()
            ok, p = cfg.must_pass([0], rets, via_blocks=[x.bb for x in subs])
            ctx.ob("R20.14", "%s|in-progress-counter-released-on-every-exit#%d" % (ctx.P.owner(key), n), ok, c.site,
                   "every path through the function passes the decrement" if ok else
                   "the decrement of an in-progress counter is skipped by an early exit (a `?` before it): every failed attempt — a bad TLS handshake, a wrong preamble, which any stranger can produce — leaks one slot, and "
                   "once the limit is reached every new connection is refused, including those of legitimate peers", path=None if ok else render_path(body, p))
    # the boolean form: a flag raised and lowered by the same function ("in progress", "busy") is lowered on every way out
    m = 0
    # setters: functions that do nothing but store a constant into one atomic field of self (`disable_buffering`)
    setters = {}
    for key, body in ctx.P.bodies.items():
        if len(body.blocks) > 12 or key.startswith("anytls_"):
            continue
        aw = [c for c in body.calls() if atomic_method(c) in ("store", "swap")]
        others = [c for c in body.calls() if atomic_method(c) is None and not (c.norm or "").startswith(("std::", "core::", "tracing", "<")) and "fmt" not in (c.norm or "")]
        if len(aw) == 1 and not others and len(aw[0].args) > 1:
            o_ = ctx.origins(body)
            v_ = const_value(o_.of_operand(aw[0].args[1]))
            f_ = var_name(o_.of_operand(aw[0].args[0]))
            if v_ in (0, 1) and f_:
                setters[key] = (str(f_).split(".")[-1], v_)
    for key, body in ctx.P.scan():
        if key.startswith(("anytls_",)) or "Drop>::drop" in key or key in setters:
            continue
        o = None
        sets, resets = {}, {}
        for c in body.calls():
            if c.callee in setters:
                f_, v_ = setters[c.callee]
                (sets if v_ == 1 else resets).setdefault(f_, []).append(c)
                continue
            am = atomic_method(c)
            if am not in ("store", "swap", "compare_exchange", "compare_exchange_weak", "fetch_or", "fetch_and") or not c.args:
                continue
            o = o or ctx.origins(body)
            fld = str(var_name(o.of_operand(c.args[0])) or fmt(o.of_operand(c.args[0]))).split(".")[-1][:40]
            val = o.of_operand(c.args[2] if am.startswith("compare_exchange") and len(c.args) > 2 else c.args[1]) if len(c.args) > 1 else None
            v = const_value(val)
            if v == 1:
                sets.setdefault(fld, []).append(c)
            elif v == 0 and am in ("store", "swap", "fetch_and"):
                resets.setdefault(fld, []).append(c)
        for fld in sets:
            if fld not in resets:
                continue
            cfg = ctx.cfg(body)
            m += 1
            rets = body.return_blocks()
            starts = []
            for c in sets[fld]:
                starts += cfg.succ(c.bb)
            ok, p = cfg.must_pass(starts, rets, via_blocks=[c.bb for c in resets[fld]])
            # leaving because the flag was already up (somebody else is at work) is not an exit that owes a reset
            if not ok:
                conds = ctx.conds(body)
                busy = []
                for cd in conds.all():
                    if cd.kind in ("bool", "variant") and any(isinstance(s_, tuple) and s_ and s_[0] == "call" and s_[2] in {c.bb for c in sets[fld]} for s_ in subterms(cd.term)):
                        busy += cd.edges_for(True) + cd.edges_for("Err")
                if busy:
                    ok, p = cfg.must_pass(starts, rets, via_blocks=[c.bb for c in resets[fld]] + [e[1] for e in busy])
            ctx.ob("R20.14", "%s|in-progress-flag-lowered-on-every-exit:%s" % (ctx.P.owner(key), str(fld).split(".")[-1]), ok, sets[fld][0].site,
                   "every path from raising `%s` to the end of the function lowers it again" % fld if ok else
                   "`%s` is raised and lowered by this function, but an early exit (a `?`, an error return) leaves it raised: after one failed run every later call finds the work 'already in progress' and does nothing — "
                   "while reporting success" % fld, path=None if ok else render_path(body, p))
    ctx.ob("R20.14", "crate:in-progress-counters", True, "", "%d decrement sites of in-progress counters and %d raise/lower flag pairs examined" % (n, m), nontrivial=False)


def r15_map_index(ctx, reach):
    """`map[key]` panics on a missing key: on input-reachable code the key comes from input (a packet number below `stop` for
    which the scheme has no line), so maps are read with get()"""
    n = 0
    for key in sorted(reach):
        body = ctx.P.bodies[key]
        if key in ctx.P.inlined_away or key.startswith(("util::cert", "util::tls", "anytls_")):
            continue
        for c in body.calls():
            cal = c.callee or ""
            if cal.endswith(("::index", "::index_mut")) and any(x in cal for x in ("HashMap", "BTreeMap", "StringMap", "IndexMap")):
                n += 1
                ctx.ob("R20.15", "%s|map-index#%d" % (ctx.P.owner(key), n), False, c.site,
                       "a map is read with the `[]` operator on input-reachable code: a key that is not present (a scheme without a line for this packet number, an unknown stream id) panics the task instead of "
                       "taking the 'absent' path")
    ctx.ob("R20.15", "input-reachable-set:maps-are-read-with-get", n == 0, "", "no `map[key]` on input-reachable code" if n == 0 else "%d panicking map reads" % n, nontrivial=False)


def r16_cursor_loops_advance(ctx, reach):
    """a loop that runs while a cursor variable is below a bound advances that cursor on every way round: a `continue` ahead of
    the advance makes the loop spin for ever on the input that takes that branch (the task is pinned at 100 % CPU, the session is
    neither served nor closed)"""
    n = 0
    for key in sorted(reach):
        body = ctx.P.bodies[key]
        if key in ctx.P.inlined_away or key.startswith(("util::cert", "util::tls", "anytls_")):
            continue
        cfg = conds = o = None
        seen_heads = set()
        for c_ in ctx.conds(body).all():
            t = c_.term
            if c_.kind != "bool" or not (isinstance(t, tuple) and t and (t[0] == "binop" and t[1] in ("Lt", "Le", "Ne", "Gt", "Ge") or t[0] == "call" and t[1].split("::")[-1] in ("is_empty", "has_remaining", "is_some", "is_none"))):
                continue
            cfg = cfg or ctx.cfg(body)
            if not cfg.in_cycle(c_.block) or c_.block in seen_heads:
                continue
            loop = cfg.cycle_blocks(c_.block)
            if not any(s_ not in loop for s_ in body.succ(c_.block)):
                continue        # not an exit test of this loop
            if any((c2.norm or "").endswith(("Iterator>::next", "Iterator::next")) and c2.bb in loop for c2 in body.calls(True)):
                continue        # driven by an iterator, which ends the loop by itself; an extra exit test is not its cursor
            # the cursor: a user variable in the test that is assigned inside the loop
            cands = []
            sides = [x for x in ((t[2], t[3]) if t[0] == "binop" else t[3])]
            sides += [a_ for x in sides if isinstance(x, tuple) and x and x[0] == "call" and x[1].split("::")[-1] in ("len", "remaining") for a_ in x[3]]
            for side in sides:
                if isinstance(side, tuple) and side and side[0] == "var" and "." not in str(side[1]):
                    locs = [side[2]] if len(side) > 2 else [l for l, nm in body.debug.items() if nm == side[1]]
                    writes = [d for l in locs for d in body.defs().get(l, []) if d[1] in loop and d[0] in ("assign", "call")]
                    if writes:
                        cands.append((side, writes))
            if len(cands) != 1:
                continue
            seen_heads.add(c_.block)
            var, writes = cands[0]
            n += 1
            stay = [s_ for s_ in body.succ(c_.block) if s_ in loop]
            ok, p = cfg.must_pass(stay, [c_.block], via_blocks=[d[1] for d in writes])
            ctx.ob("R20.16", "%s|cursor-loop#%d:%s" % (ctx.P.owner(key), n, var[1]), ok, "%s:%s" % (body.blocks[c_.block]["tspan"].get("file", "?"), body.blocks[c_.block]["tspan"]["line"]),
                   "every way round the loop assigns `%s`" % var[1] if ok else
                   "a path goes round the loop without assigning the cursor `%s` (a `continue` ahead of the advance): on input that takes that path the loop never ends" % var[1],
                   path=None if ok else render_path(body, p))
    ctx.ob("R20.16", "input-reachable-set:cursor-loops-advance", True, "", "%d cursor loops examined" % n, nontrivial=False)


STR_INDEX_METHODS = ("String::truncate", "String::split_off", "String::insert", "String::insert_str", "String::remove", "String::drain", "String::replace_range", "str::split_at", "str::split_at_mut")
VEC_INDEX_METHODS = ("Vec::remove", "Vec::swap_remove", "Vec::insert", "Vec::split_off", "Vec::drain", "VecDeque::remove", "BytesMut::split_to", "BytesMut::split_off", "Bytes::split_to", "Bytes::split_off",
                     "Bytes::slice", "Buf::advance", "Bytes::truncate")


def r17_panicking_index_methods(ctx, reach):
    """std methods that take a byte position into a String panic when the position is not a character boundary (and past the end):
    on text that came from the peer a fixed position (`truncate(256)`) is hit by any multi-byte character that straddles it —
    `from_utf8_lossy` turns every invalid byte into a 3-byte character, so arbitrary bytes do it. The position must be found in
    that very string (find, char_indices, len, floor_char_boundary)"""
    n = 0
    for key in sorted(reach):
        body = ctx.P.bodies[key]
        if key in ctx.P.inlined_away or key.startswith(("util::cert", "util::tls", "anytls_")):
            continue
        o = None
        for c in body.calls():
            nm = c.norm or ""
            str_slice = nm.endswith(("::index", "::index_mut")) and ("<std::string::String as" in (c.callee or "") or "<str as" in (c.callee or "")) and len(c.args) > 1
            if not (nm.endswith(STR_INDEX_METHODS) or str_slice) or len(c.args) < 2:
                continue
            o = o or ctx.origins(body)
            s_t = o.of_operand(c.args[0])
            ix = o.of_operand(c.args[1])
            if str_slice:
                # `&text[a..b]`: each bound is a position in its own right
                if not (isinstance(ix, tuple) and ix and ix[0] == "agg" and "Range" in str(ix[1])):
                    continue
                bounds = [b_ for b_ in ix[3] if const_value(b_) != 0]
                if not bounds:
                    continue
                ix = bounds[0] if len(bounds) == 1 else ("agg", "bounds", None, tuple(bounds))
            n += 1
            skey = strip_bb(s_t)
            derived = False
            clipped = [s_ for s_ in subterms(ix) if is_call_term(s_, "::min", "::max", "::clamp", "::saturating_sub", "::saturating_add", "::wrapping_sub") and any(const_value(a_) not in (None, 0) for a_ in s_[3])]
            for s_ in ([] if clipped else subterms(ix)):
                if isinstance(s_, tuple) and s_ and s_[0] == "call" and s_[1].split("::")[-1] in ("find", "rfind", "len", "char_indices", "floor_char_boundary", "ceil_char_boundary", "position", "rposition", "match_indices") \
                        and any(strip_bb(a_) == skey or (var_name(a_) and var_name(a_) == var_name(s_t)) for a_ in s_[3]):
                    derived = True
            zero = const_value(ix) == 0
            ctx.ob("R20.17", "%s|%s#%d" % (ctx.P.owner(key), nm.split("::")[-1], n), derived or zero, c.site,
                   "the position is found in the same string" if derived or zero else
                   "`%s(%s)` on text that can come from the peer: the position is not derived from that string, so a multi-byte character straddling it (any non-ASCII text, or arbitrary bytes after from_utf8_lossy) "
                   "makes the call panic — the task that handles the frame unwinds before it has released anyone" % (nm.split("::")[-1], fmt(ix)[:30]))
    ctx.ob("R20.17", "input-reachable-set:string-positions-come-from-the-string", True, "", "%d position-taking String calls examined" % n, nontrivial=False)


def r8_inventory(ctx, reach):
    total = 0
    kinds = {}
    for key in reach:
        body = ctx.P.bodies[key]
        for bi in body.reachable():
            t = body.blocks[bi]["term"]
            if t["t"] == "assert" and not body.blocks[bi]["tspan"].get("macros"):
                total += 1
                k = t["msg"].split("(")[0]
                kinds[k] = kinds.get(k, 0) + 1
    ctx.extra["assert_terminators_in_input_reachable_set"] = {"total": total, "by_kind": kinds, "note": "information only (overflow/bounds checks inserted by rustc); not an obligation"}


def run(ctx):
    from . import C01 as _C01n
    _C01n.r13_no_cancel_and_retry_of_framed_reads(ctx)   # a framed read is never dropped half-way and retried: the relay would wait for ever on a length taken from the middle of a record
    from . import C09 as _C09d
    _C09d.r13_dispatcher_never_waits_for_a_consumer(ctx)   # a frame cannot park the receive task behind a stream consumer that is itself waiting for the receive task
    from . import effects
    effects.check_property(ctx, "C20")    # R20.E: no operation on shared protocol state outside the reviewed table
    r1_dispatch(ctx)
    C02.r4_inert_branches(ctx)
    reach = input_reachable(ctx)
    r2_no_explicit_panic(ctx, reach)
    C03.r2_peek_then_consume(ctx)
    C03.r3_totality(ctx)
    C04.r2_size_conversions(ctx)
    C04.r5_no_panic(ctx)
    C17.r3_bounded_header(ctx)
    C17.r3b_scan_window(ctx)          # a request whose terminator straddles two reads must not wedge its connection
    from . import C09
    C09.r1_locks(ctx)                 # no input (duplicate SYN, refused open) can make the dispatch task wait on a lock it holds itself
    C09.r2_flag_writer(ctx)           # a fatal alert must tear the session down (flag set by close() only)
    C09.r3_recv_exits(ctx)            # garbled / truncated input ends the session cleanly on every exit of the receive loop
    r6_containment(ctx)
    r7_progress(ctx)
    r9_str_index(ctx, reach)
    r10_read_loops(ctx, reach)
    r11_counted_loops(ctx, reach)
    r12_subtractions(ctx, reach)
    r13_slice_indices(ctx, reach)
    r15_map_index(ctx, reach)
    r16_cursor_loops_advance(ctx, reach)
    r17_panicking_index_methods(ctx, reach)
    r14_gauges_released_on_every_exit(ctx)
    r8_inventory(ctx, reach)
