"""C11 — concurrent writers cannot scramble the wire (structural clauses)."""
from engine.anl.locks import Held, lock_fields, guard_info
from engine.anl.origin import fmt, subterms
from .common import S, co, calls_norm, is_call_term, var_name, render_path

EXPLANATION = (
    "Static decision of the write path's lock and order discipline on every path: (R11.1) from the point where "
    "write_frame takes buffered bytes out of Session.buffer until they are handed to the transport write, a guard of "
    "Session.buffer (or Session.writer) is held on every path, so no other task can slip a frame in between; (R11.2) in "
    "write_with_padding the writer lock is acquired at most once per path and every transport write/flush happens under it "
    "(a frame and its padding reach the transport contiguously); (R11.3) open_stream registers the stream in both tables "
    "before writing SYN, and create_proxy_stream opens the stream before writing the destination; (R11.4) a new session is "
    "published to the pool and returned only after start_client (Settings buffered first) completed; (R11.5) only the "
    "constructors, close() and write_with_padding touch Session.writer; (R11.6) every call of write_with_padding is made with "
    "Session.buffer held, so transport order is buffer-lock order on every path; (R11.7) no frame-write future is handed to a cancelling "
    "combinator (time::timeout, select!), since a write dropped part-way leaves a frame fragment on the wire. Not decided: fairness of the lock."
)
RULE_TEXT = "one obligation per transport write, per lock acquisition, per ordering pair; non-trivial = needed a must-held guard dataflow, reachability or dominance query"

WRITER_CLS_FIELD = "Session.writer"
BUFFER_CLS_FIELD = "Session.buffer"
TRANSPORT_WRITES = ("AsyncWriteExt::write_all", "AsyncWriteExt::write", "AsyncWriteExt::flush", "AsyncWriteExt::write_buf", "AsyncWriteExt::write_all_buf",
                    "AsyncWriteExt::write_vectored", "AsyncWriteExt::write_u8", "AsyncWriteExt::write_u16", "AsyncWriteExt::write_u32")


def _cls_names(ctx):
    lf = lock_fields(ctx.P)
    return {cls: names[0] for cls, names in lf.items()}


def _held_fields(body, held, bb, names):
    return {names.get(cls, cls) for (l, m, cls) in held.held_at_call(bb)}


def r1_flush_atomicity(ctx):
    body = co(ctx, "R11.1", S + "write_frame")
    if body is None:
        return
    cfg, o = ctx.cfg(body), ctx.origins(body)
    names = _cls_names(ctx)
    must = Held(body, must=True)
    wwp = calls_norm(body, "Session::write_with_padding")
    if not ctx.floor("R11.1", "write_with_padding call in write_frame", len(wwp), 1):
        return
    # where buffered bytes leave Session.buffer: clear()/drain()/take on the guard of Session.buffer
    takes = []
    for c in body.calls():
        last = (c.norm or "").split("::")[-1]
        if last in ("clear", "drain", "take", "split_off", "truncate", "swap", "replace") and c.args:
            t = o.of_operand(c.args[0])
            if isinstance(t, tuple) and t[0] == "var" and len(t) > 2:
                gi = guard_info(body.lty(t[2]))
                if gi and names.get(gi[1]) == BUFFER_CLS_FIELD:
                    takes.append(c)
    if not ctx.floor("R11.1", "site where buffered bytes are taken out of Session.buffer", len(takes), 1):
        return
    for tk in takes:
        for w in wwp:
            # every block on a path take -> write must hold buffer or writer
            fwd = cfg.reach_after(tk.bb, stop_at=[w.bb])
            if w.bb not in fwd:
                continue
            back = {w.bb}
            st = [w.bb]
            while st:
                x = st.pop()
                for p in cfg.preds(x):
                    if p in fwd and p not in back:
                        back.add(p)
                        st.append(p)
            mid = (fwd & back) | {w.bb}
            bad = [b for b in sorted(mid) if not (_held_fields(body, must, b, names) & {BUFFER_CLS_FIELD, WRITER_CLS_FIELD})]
            ok = not bad
            ctx.ob("R11.1", "write_frame:flush-to-write", ok, w.site,
                   "Session.buffer's guard is held on every path from taking the buffered frames (%s) to the transport write" % tk.site if ok else
                   "between taking the buffered frames out of Session.buffer (%s) and handing them to write_with_padding no lock is held (first unprotected block bb%d, %s): "
                   "a second task on the same session (second open on the new session, or the heartbeat) finds the buffer empty and reaches the transport first, so its frame precedes "
                   "Settings, or its PSH overtakes its own buffered SYN and is dropped by the server as unknown stream" % (tk.site, bad[0], "line %s" % body.blocks[bad[0]]["tspan"]["line"]),
                   path=None if ok else render_path(body, sorted(mid))[:12])
    # what has been taken out of the pending buffer reaches the transport: nothing that can fail (an encode with `?`, a check)
    # stands between the take and the write — an error exit there drops Settings and every buffered SYN while the session stays open
    for tk in takes:
        okt, pt = cfg.must_pass(cfg.succ(tk.bb), body.return_blocks(), via_blocks=[w.bb for w in wwp])
        ctx.ob("R11.1", "write_frame:taken-bytes-always-reach-the-write", okt, tk.site, "every path from the take to a return passes write_with_padding" if okt else
               "after the pending frames have been taken out of Session.buffer the function can return without writing them (an error exit between the take and the write): Settings and the buffered SYNs are lost, "
               "the session stays open and every later data frame refers to streams the server never heard of", path=None if okt else render_path(body, pt)[:14])
    # once buffering is off, *every* frame takes the pending bytes with it: whether to flush depends on nothing but the
    # buffer being non-empty (a frame that skips the flush reaches the transport ahead of the buffered Settings / SYN)
    conds = ctx.conds(body)
    off = []
    empty_t = []
    for c in conds.all():
        if c.kind == "bool" and is_call_term(c.term, ">::load") and "buffering" in fmt(c.term):
            off += c.edges_for(False)
        if c.kind == "bool" and is_call_term(c.term, "::is_empty"):
            t0 = c.term[3][0] if c.term[3] else None
            if isinstance(t0, tuple) and t0[0] == "var" and len(t0) > 2:
                gi = guard_info(body.lty(t0[2]))
                if gi and names.get(gi[1]) == BUFFER_CLS_FIELD:
                    empty_t += c.succs_for(True)
    if off:
        okf, pf = cfg.must_pass([e[1] for e in off], [w.bb for w in wwp], via_blocks=[t.bb for t in takes] + empty_t)
        ctx.ob("R11.1", "write_frame:every-unbuffered-write-flushes-what-is-pending", okf, takes[0].site,
               "with buffering off, a frame reaches write_with_padding only after taking the pending bytes or finding the buffer empty" if okf else
               "with buffering off a frame can reach the transport while older frames are still sitting in Session.buffer (the flush is skipped under a condition other than 'buffer empty'): a second opener's SYN "
               "then precedes the buffered Settings on the wire, and a strict server ends the session", path=None if okf else render_path(body, pf))
    else:
        ctx.missing("R11.1", "test of Session.buffering in write_frame")
    # the buffering branch appends under the same lock
    ext = [c for c in calls_norm(body, "Vec::extend_from_slice") if isinstance(o.of_operand(c.args[0]), tuple) and len(o.of_operand(c.args[0])) > 2 and guard_info(body.lty(o.of_operand(c.args[0])[2]))]
    ctx.ob("R11.1", "write_frame:buffering-appends-under-lock", bool(ext), ext[0].site if ext else "", "buffered frames are appended through the Session.buffer guard" if ext else "no append to the locked buffer found")


def r2_contiguity(ctx):
    body = co(ctx, "R11.2", S + "write_with_padding")
    if body is None:
        return
    cfg, o = ctx.cfg(body), ctx.origins(body)
    names = _cls_names(ctx)
    n_tw = 0
    # when every caller holds Session.buffer across the call (R11.6), writes of different tasks cannot interleave whatever
    # the granularity of the writer lock inside; the writer lock then only excludes close()'s shutdown
    callers = [e for e in ctx.cg.callers(S + "write_with_padding") if e.kind == "call"]
    serialised_by_buffer = bool(callers) and all(BUFFER_CLS_FIELD in _held_fields(ctx.P.bodies[e.src], Held(ctx.P.bodies[e.src], must=True), e.bb, names) for e in callers)
    for role in ("client", "server"):
        pruned = ctx.locks(role).pruned(body.name)
        must = Held(body, pruned=pruned, must=True)
        locks = [c for c in calls_norm(body, "Mutex::lock") if var_name(o.of_operand(c.args[0])) == "self.writer" and c.bb in must.reached]
        for c in locks:
            after = cfg.reach_after(c.bb, avoid_edges=pruned)
            again = [d for d in locks if d.bb in after]
            ok = not again or serialised_by_buffer
            ctx.ob("R11.2", "%s|write_with_padding:single-writer-hold@%s" % (role, _ctx_label(body, c, o)), ok, c.site,
                   ("no second acquisition of Session.writer is reachable after this one" if not again else
                    "Session.writer is re-acquired later, but every caller holds Session.buffer across the whole call, so no other frame write can interleave") if ok else
                   "Session.writer is acquired again (%s) on a path after this acquisition: the lock is released between two transport writes of one buffer, so another task's frame "
                   "can be written between the records of a split frame / between a frame and its padding" % again[0].site)
        for c in body.calls():
            if not (c.norm or "").endswith(TRANSPORT_WRITES) or c.bb not in must.reached:
                continue
            n_tw += 1
            held = _held_fields(body, must, c.bb, names)
            ok = WRITER_CLS_FIELD in held
            ctx.ob("R11.2", "%s|write_with_padding:%s@bb-under-writer#%d" % (role, c.norm.split("::")[-1], n_tw), ok, c.site,
                   "transport %s under the Session.writer guard" % c.norm.split("::")[-1] if ok else "transport write without holding Session.writer")
    ctx.floor("R11.2", "transport writes in write_with_padding (both roles)", n_tw, 10)


def _ctx_label(body, c, o):
    same = [x for x in calls_norm(body, "Mutex::lock") if var_name(o.of_operand(x.args[0])) == "self.writer"]
    return "lock#%d" % [x.bb for x in same].index(c.bb)


def r3_open_order(ctx):
    body = co(ctx, "R11.3", S + "open_stream")
    if body is not None:
        cfg, o = ctx.cfg(body), ctx.origins(body)
        ins = [c for c in calls_norm(body, "HashMap::insert")]
        wf = calls_norm(body, "Session::write_frame")
        if ctx.floor("R11.3", "table inserts in open_stream", len(ins), 2) and ctx.floor("R11.3", "SYN write in open_stream", len(wf), 1):
            for c in ins:
                t = o.of_operand(c.args[0])
                tbl = "?"
                if isinstance(t, tuple) and len(t) > 2:
                    gi = guard_info(body.lty(t[2]))
                    tbl = _cls_names(ctx).get(gi[1], "?") if gi else "?"
                ok = all(cfg.dominates(c.bb, w.bb) for w in wf)
                ctx.ob("R11.3", "open_stream:insert(%s)-before-SYN" % tbl, ok, c.site, "the insert dominates the SYN write" if ok else
                       "SYN can be written before the stream is registered in %s: a fast SYNACK/PSH from the server finds no stream and is dropped" % tbl)
            syn = o.of_operand(wf[0].args[1])
            oks = any(isinstance(s, tuple) and s[0] == "agg" and s[2] == "Syn" for s in subterms(syn))
            ctx.ob("R11.3", "open_stream:writes-SYN", oks, wf[0].site, "the frame written is Command::Syn" if oks else "open_stream writes %s" % fmt(syn)[:100])
    body = co(ctx, "R11.3", "client::client::Client::create_proxy_stream")
    if body is not None:
        cfg, conds, o = ctx.cfg(body), ctx.conds(body), ctx.origins(body)
        op = calls_norm(body, "Session::open_stream")
        wd = calls_norm(body, "Session::write_data_frame")
        if ctx.floor("R11.3", "open_stream / write_data_frame in create_proxy_stream", min(len(op), len(wd)), 1):
            cont = []
            for c in conds.all():
                if c.kind == "variant" and is_call_term(c.term, "Session::open_stream") and "Continue" in sum(c.by_succ.values(), []):
                    cont += c.edges_for("Continue")
            ok = bool(cont) and all(cfg.edges_dominate(cont, w.bb) for w in wd)
            ctx.ob("R11.3", "create_proxy_stream:SYN-before-destination", ok, wd[0].site, "the destination is written only after open_stream(..).await? succeeded" if ok else
                   "the destination PSH can be written before/without a successful open_stream")
            sid = o.of_operand(wd[0].args[1])
            oki = is_call_term(sid, "Stream::id") and any(is_call_term(s, "Session::open_stream") for s in subterms(sid))
            ctx.ob("R11.3", "create_proxy_stream:destination-on-own-stream", oki, wd[0].site, "the destination is sent on the id of the stream just opened" if oki else "destination stream id is %s" % fmt(sid)[:100])


def r4_settings_first(ctx):
    body = co(ctx, "R11.4", "client::client::Client::create_new_session")
    if body is None:
        return
    cfg, conds = ctx.cfg(body), ctx.conds(body)
    sc = calls_norm(body, "Session::start_client")
    add = calls_norm(body, "SessionPool::add_idle_session")
    if not ctx.floor("R11.4", "start_client / add_idle_session in create_new_session", min(len(sc), len(add)), 1):
        return
    cont = []
    for c in conds.all():
        if c.kind == "variant" and is_call_term(c.term, "Session::start_client") and "Continue" in sum(c.by_succ.values(), []):
            cont += c.edges_for("Continue")
    ok = bool(cont) and all(cfg.edges_dominate(cont, a.bb) for a in add)
    ctx.ob("R11.4", "create_new_session:start-before-publish", ok, add[0].site, "the session enters the pool only after start_client().await? succeeded (Settings already buffered)" if ok else
           "the session is published to the pool before start_client completed: another request can write on it before the Settings frame")
    okr = True
    for kind, bi, si, rv in body.defs().get(0, []):
        if kind == "assign" and rv["r"] == "aggregate" and rv["kind"].get("variant") == "Ok":
            okr = okr and cfg.edges_dominate(cont, bi)
    ctx.ob("R11.4", "create_new_session:start-before-return", okr and bool(cont), "", "Ok(session) is returned only after start_client succeeded" if okr and cont else "the session can be returned before start_client completed")
    # start_client: buffering=true stored before the Settings write
    sb = co(ctx, "R11.4", S + "start_client")
    if sb is not None:
        cfgs, os_ = ctx.cfg(sb), ctx.origins(sb)
        st = [c for c in sb.calls() if (c.norm or "").endswith("Atomic::store") and var_name(os_.of_operand(c.args[0])) == "self.buffering"]
        wf = calls_norm(sb, "Session::write_frame")
        if ctx.floor("R11.4", "buffering store / Settings write in start_client", min(len(st), len(wf)), 1):
            v = os_.of_operand(st[0].args[1])
            ok = isinstance(v, tuple) and v[0] == "const" and v[1] == 1 and cfgs.dominates(st[0].bb, wf[0].bb)
            ctx.ob("R11.4", "start_client:buffering-before-settings", ok, st[0].site, "buffering=true is stored before Settings is written (Settings waits for the first data write)" if ok else
                   "Settings is written before buffering is enabled (value %s)" % fmt(v))
            # nobody else can write before Settings is queued: the session's own tasks (receive loop -> HeartResponse replies, the
            # keep-alive monitor -> HeartRequest) are started only after the Settings write has completed
            condss = ctx.conds(sb)
            done = []
            for c_ in condss.all():
                if c_.kind == "variant" and isinstance(c_.term, tuple) and c_.term[0] == "call" and c_.term[2] == wf[0].bb:
                    done += c_.edges_for("Continue") + c_.edges_for("Ok")
            sp = [c_ for c_ in sb.calls() if (c_.norm or "").endswith(("tokio::spawn", "task::spawn", "Handle::spawn", "JoinSet::spawn"))]
            if sp:
                oksp = bool(done) and all(cfgs.edges_dominate(done, c_.bb) for c_ in sp)
                late = [c_ for c_ in sp if not (done and cfgs.edges_dominate(done, c_.bb))]
                ctx.ob("R11.4", "start_client:tasks-start-after-settings-is-queued", oksp, (late[0] if late else sp[0]).site,
                       "all %d background tasks are spawned after the Settings write succeeded" % len(sp) if oksp else
                       "a background task of the session is spawned before Settings has been queued: if the peer's first HeartRequest (or the monitor's immediate first tick) is served while start_client is still waiting "
                       "for a lock, that task's frame is the first one on the wire and Settings follows it")
            else:
                ctx.missing("R11.4", "background task spawns in start_client")
            fr = os_.of_operand(wf[0].args[1])
            oks = any(isinstance(s, tuple) and s[0] == "agg" and s[2] == "Settings" for s in subterms(fr))
            ctx.ob("R11.4", "start_client:first-frame-is-Settings", oks, wf[0].site, "the first frame written by start_client is Command::Settings" if oks else "first frame is %s" % fmt(fr)[:100])


def r5_writer_users(ctx):
    allowed = {S + "close::{closure#0}", S + "write_with_padding::{closure#0}"}
    n = 0
    for key, body in ctx.P.scan():
        if not key.startswith("session::session::"):
            continue
        o = None
        for c in body.calls():
            if not c.args:
                continue
            o = o or ctx.origins(body)
            t = o.of_operand(c.args[0])
            if var_name(t) == "self.writer" and (c.norm or "").endswith(("Mutex::lock", "Mutex::try_lock", "Mutex::lock_owned", "Mutex::blocking_lock", "Mutex::get_mut", "Arc::clone", "Clone>::clone")):
                if (c.norm or "").endswith(("Clone>::clone", "Arc::clone")):
                    pass
                n += 1
                ok = key in allowed
                ctx.ob("R11.5", "%s|%s" % (key.replace(S, ""), c.norm.split("::")[-1]), ok, c.site, "Session.writer is used by close()/write_with_padding only" if ok else
                       "Session.writer is acquired outside close()/write_with_padding: a transport write that bypasses the shaping/serialising write path")
    ctx.floor("R11.5", "acquisitions of Session.writer", n, 5)


WRITE_FNS = ("Session::write_frame", "Session::write_control_frame", "Session::write_data_frame", "Session::write_with_padding", "Session::open_stream")


def r6_every_write_under_buffer_lock(ctx):
    """all callers of write_with_padding hold Session.buffer (must) at the call: transport order = buffer-lock order"""
    names = _cls_names(ctx)
    callers = [e for e in ctx.cg.callers(S + "write_with_padding") if e.kind == "call"]
    if not ctx.floor("R11.6", "callers of write_with_padding", len(callers), 1):
        return
    for i, e in enumerate(callers):
        cb = ctx.P.bodies[e.src]
        mh = Held(cb, must=True)
        held = _held_fields(cb, mh, e.bb, names)
        ok = BUFFER_CLS_FIELD in held
        ctx.ob("R11.6", "%s|write_with_padding-call#%d" % (e.src.replace(S, "").split("::{closure")[0], i), ok, e.site,
               "the call is made with Session.buffer held on every path" if ok else
               "write_with_padding is reachable without holding Session.buffer (a path that bypasses the pending-buffer critical section): a task on that path can take the writer lock ahead of a task that is "
               "still flushing the buffered Settings/SYN frames, so Settings is not first / a PSH overtakes its SYN")


def _future_calls(t, depth=0):
    """calls whose *future* the term denotes (does not descend into fields of a call's completed result)"""
    if not isinstance(t, tuple) or not t or depth > 8:
        return []
    if t[0] == "field":
        return []
    if t[0] == "call":
        out = [t]
        for a in t[3]:
            out += _future_calls(a, depth + 1)
        return out
    if t[0] == "agg":
        out = []
        for a in t[3]:
            out += _future_calls(a, depth + 1)
        return out
    if t[0] == "phi":
        out = []
        for a in t[1]:
            out += _future_calls(a, depth + 1)
        return out
    return []


def r7_cancellation(ctx):
    """a frame write must run to completion: its future is never handed to a cancelling combinator"""
    n = 0
    for key, body in ctx.P.scan():
        o = None
        for c in body.calls():
            nm = c.norm or ""
            if nm.endswith(("time::timeout", "time::timeout_at")) and len(c.args) > 1:
                o = o or ctx.origins(body)
                n += 1
                t = o.of_operand(c.args[1])
                hit = [s for s in _future_calls(t) if is_call_term(s, *WRITE_FNS)]
                ctx.ob("R11.7", "%s|timeout#%d" % (key.split("::{closure")[0], n), not hit, c.site,
                       "the timed future is %s: not a frame write" % fmt(t)[:60] if not hit else
                       "a frame write (%s) is wrapped in time::timeout: when the timer fires the write future is dropped part-way through write_all, leaving a frame fragment on the transport and releasing the locks; "
                       "the next writer's frame is spliced into the abandoned one and the peer decodes garbage" % hit[0][1].split("::")[-1])
            elif nm.endswith("future::poll_fn") and c.args:
                o = o or ctx.origins(body)
                n += 1
                t = o.of_operand(c.args[0])
                terms = [t]
                for s in subterms(t):
                    if isinstance(s, tuple) and s and s[0] == "var" and len(s) > 2:
                        terms.append(o.init_of(s[2]))
                hit = [s for tt in terms for s in _future_calls(tt) if is_call_term(s, *WRITE_FNS)]
                ctx.ob("R11.7", "%s|select#%d" % (key.split("::{closure")[0], n), not hit, c.site,
                       "no frame write among the select! branches" if not hit else
                       "a frame write (%s) is a select! branch: it is dropped mid-write when another branch completes first" % hit[0][1].split("::")[-1])
    ctx.floor("R11.7", "timeout / select! sites examined", n, 5)


def run(ctx):
    from . import C09 as _C09s
    _C09s.r10_constructor_siblings(ctx)   # both roles start a session in the same state (counter 0, unbuffered, ids from 1): sibling cross-check of the constructors
    from . import effects
    effects.check_property(ctx, "C11")    # R11.E: no operation on shared protocol state outside the reviewed table
    from . import C01 as _C01
    _C01.r2_chunking(ctx)            # the pieces of one oversized submission are framed and written in their original order
    from . import C09 as _C09
    _C09.r8_io_error_closes(ctx)     # ... whatever kind of I/O error it was: a fragment may already be on the transport, nothing may follow it
    _C09.r9_write_errors_funnel(ctx) # a failed transport write ends the session: it is never retried (the transport may already hold a prefix of the frame)
    _C01.r9_complete_writes(ctx)     # a short write that is not completed leaves a frame fragment on the wire: every later frame of every stream is mis-parsed
    from . import C01, C05
    C01.r8_single_forwarder(ctx)   # one forwarder drains the outbound queue and passes each (id, chunk) on unchanged: per-task FIFO on the wire
    C05.r7_batching(ctx)           # buffering is switched off on the way to every first data write, so buffered SYNs cannot be stranded
    from . import C02 as _C02a
    _C02a.r3_allocator(ctx)        # every open takes an id of its own in one atomic step: two openers given the same id mix two tasks' frames on one stream
    from . import C04 as _C04c
    _C04c.r3_conservation(ctx)     # every byte of a frame handed to the shaping write path is written: a frame whose tail is dropped is completed, on the wire, by the next tasks' frames
    r1_flush_atomicity(ctx)
    r2_contiguity(ctx)
    r3_open_order(ctx)
    r4_settings_first(ctx)
    r5_writer_users(ctx)
    r6_every_write_under_buffer_lock(ctx)
    r7_cancellation(ctx)
