"""C10 — opening a stream reports the server's verdict exactly once (structural clauses)."""
from engine.anl.locks import role_pruned_edges
from engine.anl.origin import fmt, subterms
from engine.anl.casts import const_value
from .common import S, co, calls_norm, is_call_term, var_name, render_path, const_strs
from . import C09

from .common import ok_return_blocks as _okret

EXPLANATION = (
    "Static decision of the open/verdict plumbing: (R10.1) the server's empty (success) SYNACK is dominated by the Ok(Ok(conn)) "
    "edge of the dial; (R10.2) under the assumption peer_version >= 2 every error exit of the server's proxy function before the "
    "success SYNACK passes a SYNACK-with-text write; (R10.3) the client's SYNACK arm looks the stream up by the frame's id and calls "
    "notify_synack(Ok) on the empty-payload edge and notify_synack(Err) on the other; (R10.4) create_proxy_stream returns Ok only "
    "through the Ok(Ok(Ok(()))) edge of the timed wait, the three other arms return Err; (R10.5) session death resolves pending opens "
    "(= R09.4); (R10.6) the SOCKS5 'succeeded' reply, the HTTP 200 and the spawning of the forwarding tasks are dominated by the Ok "
    "edge of create_proxy_stream and the Err edge passes the failure reply; (R10.7) notify_synack resolves the one-shot through "
    "Option::take under the slot's lock (first outcome wins, later ones find None). Not decided: races against the wall-clock timeout."
)
RULE_TEXT = "one obligation per SYNACK write, per error exit, per arm of the timed wait, per front-end reply; non-trivial = needed a dominance / must-pass-through query with assumption pruning"
ASSUMPTIONS = ("R10.2 assumes peer_version >= 2 (protocol v2 peers; v1 peers get no SYNACK by design): edges with `peer_version >= 2` false are pruned",)

PROXY = "server::handler::proxy_tcp_connection_with_synack_internal"


def _synack_writes(body, o):
    """(call, kind) for write_control_frame/write_frame calls whose frame is a SynAck: kind = 'empty' | 'text'"""
    out = []
    for c in calls_norm(body, "Session::write_control_frame", "Session::write_frame"):
        t = o.of_operand(c.args[1])
        if is_call_term(t, "Frame::control") and any(isinstance(s, tuple) and s[0] == "agg" and s[2] == "SynAck" for s in subterms(t)):
            out.append((c, "empty"))
        elif is_call_term(t, "Frame::with_data") and any(isinstance(s, tuple) and s[0] == "agg" and s[2] == "SynAck" for s in subterms(t)):
            out.append((c, "text"))
    return out


def r1_r2_server(ctx):
    body = co(ctx, "R10.1", PROXY)
    if body is None:
        return
    cfg, conds, o = ctx.cfg(body), ctx.conds(body), ctx.origins(body)
    sw = _synack_writes(body, o)
    empty = [c for c, k in sw if k == "empty"]
    text = [c for c, k in sw if k == "text"]
    if not ctx.floor("R10.1", "success SYNACK write in the proxy function", len(empty), 1):
        return
    okok = []
    for c in conds.all():
        if c.kind == "variant" and is_call_term(c.term, "time::timeout") and any(is_call_term(s, "TcpStream::connect") for s in subterms(c.term)) and c.path == ("Ok",):
            okok += c.edges_for("Ok")
    for c in empty:
        ok = bool(okok) and cfg.edges_dominate(okok, c.bb)
        ctx.ob("R10.1", "proxy:success-SYNACK-after-connect", ok, c.site, "the empty SYNACK is dominated by the Ok(Ok(conn)) edge of the dial" if ok else
               "the success SYNACK can be sent on a path that has not established the outbound connection: the client is told 'connected' (SOCKS5 succeeded / HTTP 200) for a target that was never reached")
    # R10.2: prune peer_version < 2
    pruned = set()
    for c in conds.all():
        t = c.term
        if c.kind == "bool" and isinstance(t, tuple) and t[0] == "binop" and t[1] == "Ge" and var_name(t[2]) == "peer_version" and const_value(t[3]) == 2:
            pruned.update(c.edges_for(False))
    err_rets = []
    for kind, bi, si, rv in body.defs().get(0, []):
        is_ok = kind == "assign" and rv["r"] == "aggregate" and rv["kind"].get("variant") == "Ok"
        if not is_ok:
            err_rets.append(bi)
    # error exits that happen after the success SYNACK or through the final forwarding call are out of scope
    after_success = set()
    for c in empty:
        after_success |= cfg.reach_after(c.bb)
    fwd = calls_norm(body, "proxy_tcp_connection_data_forwarding")
    n = 0
    for bi in sorted(err_rets):
        if bi in after_success or bi in [e.bb for e in empty]:
            continue
        # the write of the success SYNACK itself failing is an I/O death of the session, handled by C09
        n += 1
        via = [c.bb for c in text]
        p = cfg.path([0], [bi], avoid_blocks=via, avoid_edges=pruned)
        ok = p is None
        what = "?"
        if p:
            for b in reversed(p):
                cc = conds.at(b)
                if cc is not None and cc.kind == "variant" and isinstance(cc.term, tuple) and cc.term[0] == "call":
                    what = cc.term[1].split("::")[-1]
                    break
        ctx.ob("R10.2", "proxy:error-exit[%s]" % (what if not ok else "L%s" % body.blocks[bi]["tspan"]["line"]), ok, "src/server/handler.rs:%s" % body.blocks[bi]["tspan"]["line"],
               "this error exit is preceded by a SYNACK carrying the failure text" if ok else
               "the proxy function can fail (after `%s`) without sending any SYNACK: the client learns nothing and waits for its 30 s timeout instead of getting the server's reason" % what,
               path=None if ok else render_path(body, p))
    ctx.floor("R10.2", "error exits of the proxy function before the success SYNACK", n, 2)
    # UDP path of the handler: SYNACK before handing over
    hb = ctx.P.bodies.get("<server::handler::TcpProxyHandler as server::handler::StreamHandler>::handle_stream::{closure#0}")
    if hb is None:
        ctx.missing("R10.1", "TcpProxyHandler::handle_stream async block")
    else:
        ctx.bodies_touched.add(hb.name)
        ho = ctx.origins(hb)
        hcfg = ctx.cfg(hb)
        sw2 = [c for c, k in _synack_writes(hb, ho) if k == "empty"]
        udp = calls_norm(hb, "udp_proxy::handle_udp_over_tcp")
        if sw2 and udp:
            hconds = ctx.conds(hb)
            pr = set()
            for c in hconds.all():
                t = c.term
                if c.kind == "bool" and isinstance(t, tuple) and t[0] == "binop" and t[1] == "Ge" and "peer_version" in fmt(t[2]) and const_value(t[3]) == 2:
                    pr.update(c.edges_for(False))
            p = hcfg.path([0], [udp[0].bb], avoid_blocks=[c.bb for c in sw2], avoid_edges=pr)
            ctx.ob("R10.1", "handler:udp-SYNACK-before-handover", p is None, sw2[0].site, "the UDP stream is acknowledged before the UDP handler takes over" if p is None else "handle_udp_over_tcp can start without the SYNACK")
        else:
            ctx.missing("R10.1", "SYNACK / handle_udp_over_tcp in handle_stream")


    # a failure is told apart from success by a non-empty payload: what the failure SYNACK carries is the message itself (or a
    # copy), never a piece cut out of it — `split_off(n)` returns the *tail*, which is empty for every message shorter than n, and
    # an empty SYNACK is the success answer
    for c in text:
        t = o.of_operand(c.args[1])
        pay = t[3][2] if is_call_term(t, "Frame::with_data") and len(t[3]) > 2 else None
        cut = [s_ for s_ in subterms(pay) if isinstance(s_, tuple) and s_ and s_[0] == "call" and s_[1].split("::")[-1] in ("split_off", "split_to", "slice", "slice_ref", "truncate", "drain", "index", "take", "get", "split_at")]
        cut += [s_ for s_ in subterms(pay) if is_call_term(s_, "Bytes::new", "Bytes::default", "Vec::new", "String::new", "Default>::default", "Bytes::from_static")]      # an alternative that is empty by construction
        ctx.ob("R10.2", "proxy:failure-SYNACK-carries-the-whole-message|L%s" % c.line, pay is not None and not cut, c.site, "the payload is the failure text itself" if pay is not None and not cut else
               "the failure SYNACK's payload is a piece cut from the message with `%s`: for some (or all) messages that piece is empty, and an empty SYNACK tells the client the open succeeded — the front-end "
               "answers 'succeeded' for a destination that has no tunnel" % (cut[0][1].split("::")[-1] if cut else "?"))

def r3_client_arm(ctx):
    body = co(ctx, "R10.3", S + "handle_frame")
    if body is None:
        return
    cfg, conds, o = ctx.cfg(body), ctx.conds(body), ctx.origins(body)
    ns = calls_norm(body, "Stream::notify_synack")
    if not ctx.floor("R10.3", "notify_synack calls in handle_frame", len(ns), 2):
        return
    empt_true, empt_false = [], []
    for c in conds.all():
        if c.kind == "bool" and is_call_term(c.term, "Bytes::is_empty") and var_name(c.term[3][0]) == "frame.data":
            # the one inside the SynAck arm: dominates a notify_synack
            if any(cfg.dominates(c.block, n.bb) for n in ns):
                empt_true += c.edges_for(True)
                empt_false += c.edges_for(False)
    for n in ns:
        recv = o.of_operand(n.args[0])
        key_ok = any(is_call_term(s, "::get") and len(s[3]) == 2 and var_name(s[3][1]) == "frame.stream_id" for s in subterms(recv))
        arg = o.of_operand(n.args[1])
        kind = arg[2] if isinstance(arg, tuple) and arg[0] == "agg" else "?"
        if kind == "Ok":
            ok = key_ok and bool(empt_true) and cfg.edges_dominate(empt_true, n.bb)
            ctx.ob("R10.3", "SynAck-arm:notify(Ok)", ok, n.site, "success is reported on the empty-payload edge, to the stream with the frame's id" if ok else
                   "notify_synack(Ok) is not confined to an empty SYNACK for the frame's own stream: a failure answer (or another stream's answer) completes the open with success")
        elif kind == "Err":
            ok = key_ok and bool(empt_false) and cfg.edges_dominate(empt_false, n.bb)
            ctx.ob("R10.3", "SynAck-arm:notify(Err)", ok, n.site, "failure is reported on the non-empty edge, to the stream with the frame's id" if ok else "notify_synack(Err) is not confined to a non-empty SYNACK for the frame's own stream")
        else:
            ctx.ob("R10.3", "SynAck-arm:notify(%s)" % kind, False, n.site, "notify_synack is given %s" % fmt(arg)[:80])


def r4_client_wait(ctx):
    body = co(ctx, "R10.4", "client::client::Client::create_proxy_stream")
    if body is None:
        return
    cfg, conds, o = ctx.cfg(body), ctx.conds(body), ctx.origins(body)
    lv = {}
    for c in conds.all():
        if c.kind == "variant" and is_call_term(c.term, "time::timeout"):
            lv[c.path] = c
    if not ctx.floor("R10.4", "nested match on the timed SYNACK wait", len(lv), 3):
        return
    good = lv.get(("Ok", "Ok"))
    if good is None:
        ctx.missing("R10.4", "Ok(Ok(_)) level of the match")
        return
    ok_edges = good.edges_for("Ok")
    ok_rets = _okret(body, ctx.origins(body))
    okr = bool(ok_rets) and all(cfg.edges_dominate(ok_edges, b) for b in ok_rets)
    ctx.ob("R10.4", "create_proxy_stream:Ok-only-on-Ok(Ok(Ok))", okr, "", "Ok((stream, session)) is returned only on the server's success answer" if okr else
           "create_proxy_stream can return Ok without the server's success SYNACK (timeout / failure answer / closed channel treated as success)")
    for path, val, label in ((("Ok", "Ok"), "Err", "server-failure"), (("Ok",), "Err", "channel-closed"), ((), "Err", "timeout")):
        c = lv.get(path)
        if c is None:
            ctx.missing("R10.4", "level %s of the match" % (path,))
            continue
        starts = c.succs_for(val)
        region = cfg.reach(starts)
        bad = [b for b in ok_rets if b in region]
        ctx.ob("R10.4", "create_proxy_stream:%s-returns-Err" % label, bool(starts) and not bad, "", "the %s arm ends in Err" % label if starts and not bad else "the %s arm can return Ok" % label)
    # the wait is on the receiver returned by open_stream, with the 30 s constant
    to = calls_norm(body, "time::timeout")
    if to:
        fut = o.of_operand(to[0].args[1])
        okf = any(is_call_term(s, "Session::open_stream") for s in subterms(fut))
        ctx.ob("R10.4", "create_proxy_stream:waits-on-own-receiver", okf, to[0].site, "the timed wait is on the receiver returned by this open_stream" if okf else "the wait is on %s" % fmt(fut)[:80])


def r6_front_ends(ctx):
    for path, label, ok_pat, fail_pat in (("client::socks5::handle_socks5_connection", "socks5", "REPLY_SUCCEEDED", "REPLY_GENERAL_FAILURE"),
                                          ("client::http_proxy::handle_http_proxy_connection", "http", "send_connect_success", "send_http_error")):
        body = co(ctx, "R10.6", path)
        if body is None:
            continue
        cfg, conds, o = ctx.cfg(body), ctx.conds(body), ctx.origins(body)
        ok_e, err_e = [], []
        for c in conds.all():
            if c.kind == "variant" and is_call_term(c.term, "Client::create_proxy_stream") and c.path == () and "Ok" in sum(c.by_succ.values(), []):
                ok_e += c.edges_for("Ok")
                err_e += c.edges_for("Err")
        if not ok_e:
            ctx.missing("R10.6", "%s: match on create_proxy_stream's result" % label)
            continue
        if label == "socks5":
            replies = calls_norm(body, "socks5::send_connection_reply")
            succ = [c for c in replies if "REPLY_SUCCEEDED" in fmt(o.of_operand(c.args[1]))]
            fail = [c for c in replies if "REPLY_SUCCEEDED" not in fmt(o.of_operand(c.args[1]))]
        else:
            succ = calls_norm(body, "http_proxy::send_connect_success")
            fail = calls_norm(body, "http_proxy::send_http_error")
        spawns = [c for c in body.calls() if (c.norm or "") == "tokio::spawn"]
        fw = calls_norm(body, "Session::write_data_frame")
        for c in succ:
            ok = cfg.edges_dominate(ok_e, c.bb)
            ctx.ob("R10.6", "%s:success-reply-after-open" % label, ok, c.site, "the success reply is dominated by the Ok edge of create_proxy_stream" if ok else "the application is told 'connected' on a path where the tunnel was not established")
        ctx.floor("R10.6", "%s: success reply" % label, len(succ), 1)
        for i, c in enumerate(spawns + fw):
            ok = cfg.edges_dominate(ok_e, c.bb)
            ctx.ob("R10.6", "%s:forwarding-after-open#%d" % (label, i), ok, c.site, "forwarding starts only after the open succeeded" if ok else "application data can be forwarded before the open completed")
        if label == "socks5":
            # whatever is replied on the failure edge is a constant that is not 'succeeded'
            reg = cfg.reach([e[1] for e in err_e])
            for i, c in enumerate([c for c in replies if c.bb in reg]):
                from engine.anl.casts import const_value as _cv
                code = _cv(o.of_operand(c.args[1]))
                okc = code is not None and code != 0
                ctx.ob("R10.6", "socks5:failure-reply-code-is-a-failure#%d" % i, okc, c.site, "failure edge replies with the constant 0x%02x" % code if okc else
                       "the reply code sent when the open failed is `%s`: not a non-zero constant — some failure can be answered with 0x00 = 'succeeded', telling the application it is connected" % fmt(o.of_operand(c.args[1]))[:80])
        if fail:
            p = cfg.path([e[1] for e in err_e], body.return_blocks(), avoid_blocks=[c.bb for c in fail])
            ctx.ob("R10.6", "%s:failure-reply" % label, p is None, fail[0].site, "the Err edge passes the failure reply before returning" if p is None else "the open can fail without a failure reply to the application")
        else:
            ctx.ob("R10.6", "%s:failure-reply" % label, False, "", "no failure reply on the Err edge of create_proxy_stream")


def r7_once(ctx):
    body = co(ctx, "R10.7", "session::stream::Stream::notify_synack")
    if body is None:
        return
    cfg, conds, o = ctx.cfg(body), ctx.conds(body), ctx.origins(body)
    lk = [c for c in calls_norm(body, "Mutex::lock") if var_name(o.of_operand(c.args[0])) == "self.synack_tx"]
    tk = calls_norm(body, "Option::take")
    sn = calls_norm(body, "oneshot::Sender::send")
    ok = bool(lk) and bool(tk) and bool(sn) and cfg.dominates(lk[0].bb, tk[0].bb) and cfg.dominates(tk[0].bb, sn[0].bb)
    some = []
    for c in conds.all():
        if c.kind == "variant" and is_call_term(c.term, "Option::<T>::take", "::take"):
            some += c.edges_for("Some")
    ok = ok and bool(some) and cfg.edges_dominate(some, sn[0].bb)
    # nothing may short-circuit the resolution: every path through notify_synack reaches the take()
    if tk:
        allp, p = cfg.must_pass([0], body.return_blocks(), via_blocks=[tk[0].bb])
        ctx.ob("R10.7", "notify_synack:always-reaches-take", allp, tk[0].site, "every path through notify_synack takes the pending-open slot" if allp else
               "notify_synack can return without looking at the pending-open slot (an early return ahead of the take): close() marks a stream closed before it notifies, so a guard such as `if self.is_closed() { return }` "
               "swallows the session-closed outcome and the open waits for its full timeout", path=None if allp else render_path(body, p))
    ctx.ob("R10.7", "notify_synack:take-under-lock", ok, sn[0].site if sn else "", "lock(synack_tx) -> take() -> send on the Some edge: the first outcome consumes the sender, later ones find None" if ok else
           "notify_synack does not resolve the one-shot through take() under the slot's lock: an open can be completed twice or not at all")


def r7b_answers_only_resolve(ctx):
    """an answer's only effect is to resolve the pending open: whatever arrives after the first answer (a duplicate, a late
    failure text) finds the slot empty and changes nothing — in particular it does not touch the stream tables"""
    from .common import effectful_calls
    from . import C02
    body = co(ctx, "R10.7", S + "handle_frame")
    if body is None:
        return
    sw, arms = C02.arm_regions(ctx, body)
    if not arms or "SynAck" not in arms:
        ctx.missing("R10.7", "SynAck arm of handle_frame")
        return
    s_, own, allr = arms["SynAck"]
    allowed = ("Stream::notify_synack", "RwLock::read", "HashMap::get", "IntoFuture>::into_future", "future::get_context", "Pin::new_unchecked", "Option::cloned", "Clone>::clone", "mem::drop")
    eff = [c for c in effectful_calls(body, own) if not (c.norm or "").split("::{closure")[0].endswith(allowed)]
    ctx.ob("R10.7", "SynAck-arm:only-resolves-the-pending-open", not eff, eff[0].site if eff else "", "the arm looks the stream up and calls notify_synack, nothing else" if not eff else
           "the SynAck arm also calls `%s`: its effect is not conditional on this answer being the first one, so a duplicated or late answer changes the state of a stream whose open was already reported "
           "(e.g. a failure text arriving after success drops the connected stream's inbound queue)" % eff[0].norm.split("::")[-1])


def r8_version_independent_of_padding(ctx):
    """the server records the peer's protocol version (which decides whether it ever answers opens) and sends ServerSettings
    whatever the outcome of the padding-md5 comparison"""
    body = co(ctx, "R10.8", S + "handle_frame")
    if body is None:
        return
    cfg, conds, o = ctx.cfg(body), ctx.conds(body), ctx.origins(body)
    from .common import atomic_method
    st = [c for c in body.calls() if atomic_method(c) == "store" and var_name(o.of_operand(c.args[0])) == "self.peer_version"]
    sw, arms = None, None
    from . import C02
    sw, arms = C02.arm_regions(ctx, body)
    if not arms or "Settings" not in arms:
        ctx.missing("R10.8", "Settings arm")
        return
    own = arms["Settings"][1]
    st = [c for c in st if c.bb in own]
    ss = []
    for c in calls_norm(body, "Session::write_frame", "Session::write_control_frame"):
        t = o.of_operand(c.args[1])
        if c.bb in own and any(isinstance(s_, tuple) and s_[0] == "agg" and s_[2] == "ServerSettings" for s_ in subterms(t)):
            ss.append(c)
    if not ctx.floor("R10.8", "peer_version store / ServerSettings write in the Settings arm", min(len(st), len(ss)), 1):
        return
    md5 = [c for c in conds.all() if c.block in own and ((c.kind == "bool" and "padding-md5" in fmt(c.term) and is_call_term(c.term, "::ne", "::eq")) or (c.kind == "variant" and is_call_term(c.term, "StringMap::get") and "padding-md5" in fmt(c.term)))]
    if not md5:
        ctx.missing("R10.8", "padding-md5 tests in the Settings arm")
        return
    bad = []
    for c in md5:
        for s_, vals in c.by_succ.items():
            reach = cfg.reach([s_])
            for tgt in st + ss:
                if tgt.bb not in reach:
                    bad.append((c, vals, tgt))
    ok = not bad
    ctx.ob("R10.8", "Settings-arm:version-handling-on-every-md5-outcome", ok, st[0].site,
           "storing peer_version and sending ServerSettings are reachable from every outcome of the padding-md5 tests" if ok else
           "when the padding-md5 test takes its `%s` edge the server never reaches `%s`: peer_version stays 0, so the handler (which answers only v>=2 peers) never sends a SYNACK on that session and every open "
           "times out although the target was reached" % (bad[0][1], bad[0][2].norm.split("::")[-1]))


def r8b_every_syn_is_registered(ctx):
    from . import C02
    """on a server session every SYN registers its stream: from the server-role edge of the Syn arm, every way out passes the
    insertion into the stream table.  A guard that drops some SYNs (an id "not above the highest seen": ids are allocated
    atomically but written later, so racing opens can reach the wire out of order) leaves an open never dialled and never answered"""
    body = co(ctx, "R10.8", S + "handle_frame")
    if body is None:
        return
    cfg, conds, o = ctx.cfg(body), ctx.conds(body), ctx.origins(body)
    sw, arms = C02.arm_regions(ctx, body)
    if not arms or "Syn" not in arms:
        ctx.missing("R10.8", "Syn arm of handle_frame")
        return
    s0, own, allr = arms["Syn"]
    server_e = []
    for c in conds.all():
        if c.block in own | {s0} and c.kind == "bool" and var_name(c.term) == "self.is_client":
            server_e += c.succs_for(False)
    ins = [c for c in calls_norm(body, "HashMap::insert") if c.bb in own]
    exits = [b_ for b_ in allr if b_ not in own and any(p_ in own for p_ in cfg.preds(b_))] or body.return_blocks()
    if not server_e or not ins:
        ctx.missing("R10.8", "role test / table insertion in the Syn arm")
        return
    # error exits (a failed write of an answer) end the session and are C09's business; the success exits are what counts
    ok_exits = [b_ for b_ in exits]
    ok, p = cfg.must_pass(server_e, ok_exits, via_blocks=[c.bb for c in ins])
    ctx.ob("R10.8", "Syn-arm:every-SYN-registers-its-stream", ok, ins[0].site, "from the server-role edge every way through the arm inserts the stream into the table" if ok else
           "a server session can leave the Syn arm without registering the stream (a guard ahead of the insertion): that open is never handed to a handler, never dialled and never answered — the client waits "
           "for its SYNACK timeout although the session is healthy", path=None if ok else render_path(body, p)[:12])


def run(ctx):
    from . import C20 as _C20t
    _C20t.r12_subtractions(ctx, _C20t.input_reachable(ctx))   # no subtraction (sizes, Durations) that can underflow and kill the task that computes it
    from . import effects
    effects.check_property(ctx, "C10")    # R10.E: no operation on shared protocol state outside the reviewed table
    from . import C13 as _C13p, C20 as _C20e
    _C13p.r9_lookup_makes_progress(ctx)   # the pool look-up in front of every open terminates: an open always gets *some* outcome
    _C20e.r10_read_loops(ctx, _C20e.input_reachable(ctx))   # a read of 0 bytes ends the receive loop whatever is left in the buffer: an end of the connection in the middle of a frame closes the session, so pending opens hear of it
    from . import C03 as _C03d, C05 as _C05d
    _C03d.r3_totality(ctx)           # the decoder is total: no frame the peer may legally send (any command byte, any declared length) makes it return an error
    _C05d.r7_batching(ctx)          # the SYN and the destination of every open leave the client: buffering is switched off on the way to every first data write, whatever happened to earlier opens
    C09.r3_recv_exits(ctx)          # every way the receive loop ends closes the session, so a pending open always gets a verdict or a session error
    from . import C02
    C02.r3_allocator(ctx)    # racing opens on one session get distinct ids (each verdict reaches its own open)
    r8_version_independent_of_padding(ctx)
    C09.r1_locks(ctx)        # the open path cannot deadlock on its own guards when the SYN write fails (an open that never returns reports nothing)
    r8b_every_syn_is_registered(ctx)
    from . import C01 as _C01q
    _C01q.r3_r4_recv_buffer(ctx)     # every complete frame in the receive buffer is dispatched before the loop waits for more input: an answer that has arrived is delivered
    r1_r2_server(ctx)
    r3_client_arm(ctx)
    r4_client_wait(ctx)
    C09.r4_close_body(ctx)   # R10.5 = R09.4
    r6_front_ends(ctx)
    r7_once(ctx)
    r7b_answers_only_resolve(ctx)
    from . import C07
    C07.r1_port_dependence(ctx)    # ... and the port dialled is the port requested, not one remembered from an earlier request for the same name
    C09.r2_flag_writer(ctx)        # the session's death reaches every pending open: only close() raises the closed flag (a second writer makes close() a no-op)
    C09.r8_io_error_closes(ctx)
    C07.r5_domain_len(ctx)    # the destination the verdict is about is the one that was requested: an over-long name is refused, not truncated into another host
