"""C04 — padding is invisible to the payload and keeps the wire well-formed (structural clauses)."""
from engine.anl.casts import narrowing_casts, check_cast, const_value, guard_bounds
from engine.anl.origin import fmt, subterms, strip_bb
from .common import S, co, calls_norm, is_call_term, var_name, render_path
from . import C03

from .common import ok_return_blocks as _okret

EXPLANATION = (
    "Static decision of the shaping loop's structure: (R04.1) each hand-built padding frame is put_u8(discr(Command::Waste)) "
    "put_u32(0) put_u16(L') put_slice(zeros of length L) with L' a range-guarded cast of the same value L; (R04.2) the numeric "
    "conversions of scheme sizes (i64->i32 in the scheme parser, i32->usize in the shaping loop) are range-guarded; (R04.3) payload "
    "conservation: the split case writes buffer[..size] and continues with split_off(size) of the same size, the payload+padding case "
    "writes the whole buffer and then clears it, after the loop a non-empty buffer is always written, and every transport write's source "
    "is the payload buffer or a padding frame built under R04.1; (R04.4) the receiver's Waste arm has no effect; (R04.5) no "
    "panic-family call in the scheme parser / size generator / shaping loop and the slicing of the payload buffer is guarded by its "
    "length. Not decided: equality of the de-padded byte string."
)
RULE_TEXT = "one obligation per padding-frame field, per cast, per shaping case, per write source; non-trivial = needed an origin, range, dominance or post-dominance query"

GEN = "padding::factory::PaddingFactory::generate_record_payload_sizes"
NEW = "padding::factory::PaddingFactory::new"


def _padding_frames(ctx, body, o):
    """group BufMut puts by the (mutable local) frame they build"""
    groups = {}
    for c in sorted(body.calls(), key=lambda c: c.bb):
        last = (c.norm or "").split("::")[-1]
        if last in ("put_u8", "put_u16", "put_u32", "put_slice", "put_u64", "put_bytes", "extend_from_slice") and c.args:
            t = o.of_operand(c.args[0])
            if isinstance(t, tuple) and t[0] == "var" and len(t) > 2 and t[1] != "buffer":
                groups.setdefault(t[2], []).append((last, c, [o.of_operand(a) for a in c.args[1:]]))
    return groups


def r1_waste_frames(ctx):
    body = co(ctx, "R04.1", S + "write_with_padding")
    if body is None:
        return
    cfg, conds, o = ctx.cfg(body), ctx.conds(body), ctx.origins(body)
    variants = dict(ctx.P.enum_variants("protocol::frame::Command") or [])
    waste = variants.get("Waste")
    groups = _padding_frames(ctx, body, o)
    if not ctx.floor("R04.1", "hand-built padding frames in write_with_padding", len(groups), 2):
        return
    casts = {(c["bb"], c["si"]): c for c in narrowing_casts(body)}
    for gi, (local, puts) in enumerate(sorted(groups.items(), key=lambda kv: kv[1][0][1].bb)):
        label = "payload+padding" if gi == 0 else "padding-only"
        seq = [p[0] for p in puts]
        ok_seq = seq == ["put_u8", "put_u32", "put_u16", "put_slice"]
        ctx.ob("R04.1", "waste[%s]:layout" % label, ok_seq, puts[0][1].site, "put_u8 put_u32 put_u16 put_slice" if ok_seq else "padding frame is built by %s" % seq)
        if not ok_seq:
            continue
        cmd = const_value(puts[0][2][0])
        sid = const_value(puts[1][2][0])
        ctx.ob("R04.1", "waste[%s]:cmd" % label, cmd == waste and waste is not None, puts[0][1].site, "command byte = discr(Command::Waste) = %s" % waste if cmd == waste else
               "padding frame command byte is %s, Command::Waste is %s: the receiver would act on the padding" % (cmd, waste))
        ctx.ob("R04.1", "waste[%s]:stream-id" % label, sid == 0, puts[1][1].site, "stream id 0" if sid == 0 else "padding frame stream id is %s" % fmt(puts[1][2][0]))
        lt = puts[2][2][0]
        fill = puts[3][2][0]
        L1 = lt[3] if isinstance(lt, tuple) and lt[0] == "cast" else lt
        L2 = None
        for s in subterms(fill):
            if is_call_term(s, "vec::from_elem") and len(s[3]) == 2:
                L2 = s[3][1]
                zero = const_value(s[3][0]) == 0
        same = L2 is not None and strip_bb(L1) == strip_bb(L2)
        ctx.ob("R04.1", "waste[%s]:length-field-is-fill-length" % label, same and zero, puts[2][1].site, "length field and zero fill use the same value %s" % fmt(L1)[:80] if same and zero else
               "length field is %s but the fill is %s bytes: the frame's announced and actual sizes differ" % (fmt(L1)[:80], fmt(L2)[:80]))
        # the cast feeding put_u16 is guarded
        mine = [c for c in casts.values() if c["to"] == "u16" and strip_bb(o.of_operand(c["op"])) == strip_bb(L1)]
        if not mine:
            ctx.ob("R04.1", "waste[%s]:length-cast-guarded" % label, isinstance(lt, tuple) and lt[0] != "cast", puts[2][1].site, "length operand needs no narrowing cast")
        for c in mine[:1]:
            ok, det, _ = check_cast(body, cfg, conds, o, c)
            ctx.ob("R04.1", "waste[%s]:length-cast-guarded" % label, ok, "src/session/session.rs:%s" % c["line"],
                   det if ok else det + " -> a scheme size above 65535 (e.g. `5=70000-70000`) emits a header announcing size mod 65536 followed by all the zeros; the surplus re-parses as frames and splices stray bytes into the next frame")


def r2_size_conversions(ctx):
    gen = ctx.body("R04.2", GEN)
    if gen is not None:
        cfg, conds, o = ctx.cfg(gen), ctx.conds(gen), ctx.origins(gen)
        cs = [c for c in narrowing_casts(gen) if c["to"] == "i32"]
        if ctx.floor("R04.2", "i64->i32 casts in generate_record_payload_sizes", len(cs), 2):
            for i, c in enumerate(cs):
                ok, det, _ = check_cast(gen, cfg, conds, o, c)
                ctx.ob("R04.2", "generate_record_payload_sizes:i64->i32#%d" % i, ok, "src/padding/factory.rs:%s" % c["line"],
                       det if ok else det + " -> `1=4294967295-4294967295` becomes -1 (= CHECK_MARK), `1=2147483648-2147483648` a negative size")
    body = co(ctx, "R04.2", S + "write_with_padding")
    if body is not None:
        cfg, conds, o = ctx.cfg(body), ctx.conds(body), ctx.origins(body)
        cs = [c for c in narrowing_casts(body) if c["from"] == "i32" and c["to"] == "usize"]
        if ctx.floor("R04.2", "i32->usize cast of the record size in write_with_padding", len(cs), 1):
            for c in cs:
                ok, det, _ = check_cast(body, cfg, conds, o, c)
                ctx.ob("R04.2", "write_with_padding:size-i32->usize", ok, "src/session/session.rs:%s" % c["line"],
                       det if ok else det + " -> a negative size becomes ~2^64: `vec![0; size]` aborts the writer task with a capacity overflow")


def r3_conservation(ctx):
    body = co(ctx, "R04.3", S + "write_with_padding")
    if body is None:
        return
    cfg, conds, o = ctx.cfg(body), ctx.conds(body), ctx.origins(body)
    nxt = calls_norm(body, "Iterator>::next")
    if not nxt:
        ctx.missing("R04.3", "shaping loop (iterator next) in write_with_padding")
        return
    loop = cfg.cycle_blocks(nxt[0].bb)
    writes = calls_norm(body, "AsyncWriteExt::write_all")
    ctx.floor("R04.3", "write_all calls in write_with_padding", len(writes), 7)
    # classify sources
    frames = {l for l in _padding_frames(ctx, body, o)}
    for i, w in enumerate(writes):
        t = o.of_operand(w.args[1])
        kind = None
        if isinstance(t, tuple) and t[0] == "var" and t[1] == "buffer":
            kind = "buffer"
        elif is_call_term(t, "::index") and var_name(t[3][0]) == "buffer":
            kind = "buffer-prefix"
        elif isinstance(t, tuple) and t[0] == "var" and len(t) > 2 and t[2] in frames:
            kind = "padding-frame"
        ctx.ob("R04.3", "write_all-source#%d" % i, kind is not None, w.site, "transport write of %s" % kind if kind else "transport write of %s: not the payload buffer nor a padding frame" % fmt(t)[:100])
        if kind == "buffer-prefix":
            rng = t[3][1]
            size = rng[3][0] if isinstance(rng, tuple) and rng[0] == "agg" and "RangeTo" in rng[1] and rng[3] else None
            so = [c for c in calls_norm(body, "BytesMut::split_off") if var_name(o.of_operand(c.args[0])) == "buffer"]
            ok = False
            for c in so:
                s2 = o.of_operand(c.args[1])
                if size is not None and strip_bb(s2) == strip_bb(size) and cfg.dominates(w.bb, c.bb):
                    # the split_off result is assigned back to buffer and follows the successful write on every path to the next iteration
                    okpath, p = cfg.must_pass([s for s in _ok_succ(conds, w)], [nxt[0].bb], via_blocks=[c.bb])
                    ok = okpath
            ctx.ob("R04.3", "split-case:continue-with-split_off(size)", ok, w.site, "after writing buffer[..size] the loop continues with buffer.split_off(size) of the same size" if ok else
                   "the split case does not continue with exactly the unwritten tail (split_off of the same size after the write): payload bytes are lost or repeated")
        if kind == "buffer" and w.bb in loop:
            cl = [c for c in calls_norm(body, "BytesMut::clear") if var_name(o.of_operand(c.args[0])) == "buffer"]
            ok = False
            for c in cl:
                okpath, p = cfg.must_pass([s for s in _ok_succ(conds, w)], [nxt[0].bb], via_blocks=[c.bb])
                ok = ok or okpath
            ctx.ob("R04.3", "payload+padding-case:clear-after-write", ok, w.site, "the whole buffer is written, then cleared, before the next size is processed" if ok else
                   "after writing the whole buffer inside the loop it is not cleared on every path: the payload is written twice")
    # after the loop: a non-empty buffer is always written
    tail = [w for w in writes if w.bb not in loop and var_name(o.of_operand(w.args[1])) == "buffer" and cfg.dominates(nxt[0].bb, w.bb)]
    nonempty = []
    for c in conds.all():
        if c.kind == "bool" and is_call_term(c.term, "BytesMut::is_empty") and var_name(c.term[3][0]) == "buffer" and c.block not in loop and cfg.dominates(nxt[0].bb, c.block):
            nonempty += c.edges_for(False)
    if tail and nonempty:
        flush = [c for c in calls_norm(body, "AsyncWriteExt::flush") if cfg.dominates(nxt[0].bb, c.bb)]
        ok, p = cfg.must_pass([e[1] for e in nonempty], [f.bb for f in flush] + body.return_blocks(), via_blocks=[w.bb for w in tail])
        ctx.ob("R04.3", "after-loop:remaining-payload-written", ok, tail[0].site, "a non-empty buffer after the loop is written before the flush" if ok else "payload left after the last size is not written on some path")
    else:
        ctx.ob("R04.3", "after-loop:remaining-payload-written", False, "", "no `if !buffer.is_empty() { write_all(buffer) }` after the shaping loop: payload beyond the scheme's sizes is dropped")


def _ok_succ(conds, w):
    out = []
    for c in conds.all():
        if c.kind == "variant" and isinstance(c.term, tuple) and c.term[0] == "call" and c.term[2] == w.bb and "Ok" in sum(c.by_succ.values(), []):
            out += c.succs_for("Ok")
    return out


def r4_waste_ignored(ctx):
    body = co(ctx, "R04.4", S + "handle_frame")
    if body is None:
        return
    cfg, conds = ctx.cfg(body), ctx.conds(body)
    sw = [c for c in conds.all() if c.kind == "variant" and c.enum and c.enum.endswith("frame::Command")]
    if not sw:
        ctx.missing("R04.4", "match on frame.cmd in handle_frame")
        return
    sw = sw[0]
    succ = sw.succs_for("Waste")
    if not succ:
        ctx.ob("R04.4", "handle_frame:Waste-arm", False, "", "Command::Waste reaches no arm")
        return
    # the arm's own blocks: reachable from the arm start but from no other arm's start
    others = set()
    for s in sw.by_succ:
        if s not in succ:
            others |= cfg.reach([s])
    own = cfg.reach(succ) - others
    calls = [c for c in body.calls() if c.bb in own and not (c.norm or "").endswith(("fmt::Arguments::new", "Argument::new_debug", "Argument::new_display", "fmt::format", "must_use"))]
    rets_err = [bi for kind, bi, si, rv in body.defs().get(0, []) if bi in own and not (kind == "assign" and rv["r"] == "aggregate" and rv["kind"].get("variant") == "Ok")]
    ok = not calls and not rets_err
    ctx.ob("R04.4", "handle_frame:Waste-arm-inert", ok, "src/session/session.rs:%s" % body.blocks[succ[0]]["tspan"]["line"],
           "the arm reached by Command::Waste calls nothing (logging only) and falls through to Ok" if ok else
           "the Waste arm has effects: %s" % ([c.norm for c in calls][:3] or "returns Err"))


def r5_no_panic(ctx):
    targets = [(ctx.body("R04.5", NEW), "PaddingFactory::new"), (ctx.body("R04.5", GEN), "generate_record_payload_sizes"),
               (co(ctx, "R04.5", S + "write_with_padding"), "write_with_padding")]
    for body, name in targets:
        if body is None:
            continue
        pc = C03.panic_calls(body)
        ctx.ob("R04.5", "%s:no-panic-call" % name, not pc, pc[0].site if pc else "", "no unwrap/expect/panic call" if not pc else "%s calls %s: an accepted scheme can crash the sender" % (name, pc[0].callee))
    body = targets[2][0]
    if body is None:
        return
    cfg, conds, o = ctx.cfg(body), ctx.conds(body), ctx.origins(body)
    # slicing / split_off of the payload buffer by `size` is guarded by len(buffer) > size
    sites = [c for c in body.calls() if ((c.norm or "").endswith("::index") and len(c.args) == 2 and var_name(o.of_operand(c.args[0])) == "buffer" and "RangeTo{" in fmt(o.of_operand(c.args[1])) and "HEADER" not in fmt(o.of_operand(c.args[1])) and const_value(_rng_arg(o.of_operand(c.args[1]))) is None)
             or ((c.norm or "").endswith("BytesMut::split_off") and var_name(o.of_operand(c.args[0])) == "buffer")]
    for i, c in enumerate(sites):
        t = o.of_operand(c.args[1])
        n = _rng_arg(t) if (c.norm or "").endswith("::index") else t
        edges = []
        for cc in conds.all():
            tt = cc.term
            if cc.kind == "bool" and isinstance(tt, tuple) and tt[0] == "binop" and tt[1] in ("Lt", "Le") and is_call_term(tt[3], "BytesMut::len") and var_name(tt[3][3][0]) == "buffer" and strip_bb(tt[2]) == strip_bb(n):
                edges += cc.edges_for(True)
        ok = bool(edges) and cfg.edges_dominate(edges, c.bb)
        ctx.ob("R04.5", "write_with_padding:slice-guard#%d" % i, ok, c.site, "%s by `size` is dominated by `buffer.len() > size`" % c.norm.split("::")[-1] if ok else
               "%s of the payload buffer by %s is not guarded by buffer.len() > size: it panics when the size exceeds the pending payload" % (c.norm.split("::")[-1], fmt(n)[:60]))


def _rng_arg(t):
    if isinstance(t, tuple) and t[0] == "agg" and t[3]:
        return t[3][0]
    return None


def r6_flushed_before_success(ctx):
    """whatever write_with_padding hands to the transport is flushed before it reports success"""
    body = co(ctx, "R04.6", S + "write_with_padding")
    if body is None:
        return
    cfg = ctx.cfg(body)
    ws = calls_norm(body, "AsyncWriteExt::write_all")
    fl = calls_norm(body, "AsyncWriteExt::flush")
    ok_rets = _okret(body, ctx.origins(body))
    if not ctx.floor("R04.6", "write_all calls in write_with_padding", len(ws), 4) or not fl or not ok_rets:
        ctx.missing("R04.6", "flush calls / Ok returns in write_with_padding")
        return
    conds = ctx.conds(body)
    for n, w in enumerate(ws):
        # from the point where this write has succeeded (its failure leads to an error return, whatever shape that takes)
        starts = _ok_succ(conds, w)
        if not starts:
            ctx.missing("R04.6", "test of the result of the write_all at line %s" % w.line)
            continue
        ok, p = cfg.must_pass(starts, ok_rets, via_blocks=[f.bb for f in fl])
        ctx.ob("R04.6", "write_with_padding:write#%d-is-flushed-before-Ok" % n, ok, w.site, "every path from this write to a success return passes a flush of the transport" if ok else
               "a record can be written and success reported without a flush: on a transport that stages bytes (TLS when the socket would block, any buffered writer) the frame stays unsent "
               "while the caller believes it is on its way", path=None if ok else render_path(body, p))


def run(ctx):
    from . import effects
    effects.check_property(ctx, "C04")    # R04.E: no operation on shared protocol state outside the reviewed table
    from . import C01 as _C01d, C06 as _C06d
    _C01d.r3_r4_recv_buffer(ctx)    # a padding frame of any legal size (up to 7 + 65535 bytes) is assembled and consumed: nothing caps the receive buffer below that
    _C06d.r3_exact_skip(ctx)        # the server skips exactly the padding0 that was announced (read_exact of that many bytes): leftover zeros would sit in front of the first frame
    from . import C03 as _C03d, C05 as _C05d, C09 as _C09d
    _C03d.r3_totality(ctx)           # the decoder is total: no frame the peer may legally send (any command byte, any declared length) makes it return an error
    _C05d.r6_padding0(ctx)          # the preamble announces exactly the padding it then sends (the drawn size clamped into 0..65535 on both uses): the server skips what was announced
    _C09d.r3_recv_exits(ctx)        # a Waste frame of any legal size is consumed like any other frame: the decoder never refuses one (a refusal ends the receive loop with the session left open)
    from . import C11
    C11.r6_every_write_under_buffer_lock(ctx)   # the records of one packet (payload pieces and their Waste frames) are not interleaved with another writer's
    C11.r2_contiguity(ctx)
    C11.r7_cancellation(ctx)        # a shaped packet is written to the end or the session dies: never abandoned half-way with the session alive (what follows would land inside a Waste frame)
    from . import C09 as _C09w
    _C09w.r9_write_errors_funnel(ctx)
    C11.r5_writer_users(ctx)        # write_with_padding is the only code that writes to the transport: nothing bypasses the shaping and what is queued ahead of it
    C11.r1_flush_atomicity(ctx)     # whatever the cut-off decides about padding, the frames waiting in the first-packet buffer still go out ahead of the frame that follows them
    r6_flushed_before_success(ctx)
    from . import C20
    _reach = C20.input_reachable(ctx)
    C20.r11_counted_loops(ctx, _reach)     # a scheme's numbers size no loop or table without a bound (a pushed `stop=4294967295`)
    C20.r15_map_index(ctx, _reach)         # a scheme with gaps (no line for some packet below stop) is a valid scheme
    C20.r13_slice_indices(ctx, _reach)     # slices of the payload buffer are covered by its length
    r1_waste_frames(ctx)
    r2_size_conversions(ctx)
    r3_conservation(ctx)
    r4_waste_ignored(ctx)
    r5_no_panic(ctx)
