"""C06 — only holders of the password get a session (structural clauses)."""
from engine.anl.conds import place_ty
from engine.anl.origin import fmt, subterms, strip_bb
from engine.anl.casts import const_value
from .common import S, co, calls_norm, is_call_term, var_name, render_path, phi_alts

from .common import ok_return_blocks as _okret

EXPLANATION = (
    "Static decision of the authentication gate: (R06.1) every construction of a server session is dominated by the success "
    "(Continue) edge of `authenticate_client(..).await?` in the same body — no path (timeout, error, early fall-through) reaches "
    "Session::new_server without it; (R06.2) the comparison that decides is a full-width equality of two [u8; 32] values, the "
    "32-byte buffer filled by read_exact and the expected hash, and every path to Ok passes its equal edge; (R06.3) the declared "
    "padding is skipped exactly: length = from_be_bytes of a 2-byte read_exact buffer, the skip is one read_exact into a buffer of "
    "exactly that length, guarded only by `> 0`, and the function performs no other read; (R06.4) nothing is written to the "
    "connection before authentication: the write half is only ever moved into Session::new_server. Not decided: SHA-256 itself, "
    "timing side channels."
)
RULE_TEXT = "one obligation per session construction, per comparison operand, per read, per use of the write half; non-trivial = needed a dominance, type or origin query"

AUTHF = "util::auth::authenticate_client"


def r1_construct_after_auth(ctx):
    n = 0
    for key, body in ctx.P.scan():
        cs = calls_norm(body, "Session::new_server")
        if not cs:
            continue
        cfg, conds = ctx.cfg(body), ctx.conds(body)
        cont = []
        for c in conds.all():
            if c.kind == "variant" and "Continue" in sum(c.by_succ.values(), []) and is_call_term(c.term, AUTHF):
                # the `?` must be applied to the authentication result itself, not to a wrapper that can be Ok without it
                cont += c.edges_for("Continue")
        for c in cs:
            n += 1
            ok = bool(cont) and cfg.edges_dominate(cont, c.bb)
            p = None
            if not ok:
                p = cfg.path([0], [c.bb], avoid_edges=cont)
            ctx.ob("R06.1", "%s|Session::new_server" % key.split("::{closure")[0], ok, c.site,
                   "dominated by the Continue edge of authenticate_client(..).await?" if ok else
                   "a server session can be constructed on a path that did not pass a successful authenticate_client(..)? : an unauthenticated peer gets its frames parsed, streams opened and targets dialled",
                   path=render_path(body, p) if p else None)
    ctx.floor("R06.1", "constructions of a server session", n, 1)


def r2_full_width(ctx):
    body = co(ctx, "R06.2", AUTHF)
    if body is None:
        return
    cfg, conds, o = ctx.cfg(body), ctx.conds(body), ctx.origins(body)
    cmp_conds = []
    for c in conds.all():
        if c.kind == "bool" and isinstance(c.term, tuple) and c.term[0] == "call" and c.term[1].endswith(("::ne", "::eq")) and "PartialEq" in c.term[1]:
            cmp_conds.append(c)
    if not ctx.floor("R06.2", "equality test in authenticate_client", len(cmp_conds), 1):
        return
    c = cmp_conds[0]
    call = [x for x in body.calls() if x.bb == c.term[2]][0]
    tys = []
    for a in call.args:
        ty = place_ty(body, a["place"]) if a["o"] in ("copy", "move") else a["c"]["ty"]
        while ty.get("k") == "ref":
            ty = ty["inner"]
        tys.append(ty.get("s"))
    okt = tys == ["[u8; 32]", "[u8; 32]"]
    ctx.ob("R06.2", "authenticate_client:compare-types", okt, call.site, "both operands are [u8; 32] (all 32 bytes compared)" if okt else
           "the deciding comparison is on %s: not the whole 32-byte hash (a prefix/slice comparison accepts near-miss preambles)" % tys)
    a0, a1 = c.term[3][0], c.term[3][1]
    reads = calls_norm(body, "AsyncReadExt::read_exact")
    first_buf = o.of_operand(reads[0].args[1]) if reads else None
    oko = strip_bb(a0) == strip_bb(first_buf) and var_name(a1) == "expected_password_hash" or (strip_bb(a1) == strip_bb(first_buf) and var_name(a0) == "expected_password_hash")
    ctx.ob("R06.2", "authenticate_client:compare-operands", oko, call.site, "compares the read_exact buffer with expected_password_hash" if oko else
           "comparison operands are %s and %s" % (fmt(a0)[:60], fmt(a1)[:60]))
    # first read fills a [u8;32] local
    if reads:
        fb = first_buf
        okb = isinstance(fb, tuple) and fb[0] == "var" and len(fb) > 2 and body.lty(fb[2]).get("s") == "[u8; 32]"
        ctx.ob("R06.2", "authenticate_client:first-read-32", okb, reads[0].site, "the first read is read_exact into a [u8; 32]" if okb else "the first read does not fill a 32-byte buffer exactly")
    is_ne = c.term[1].endswith("::ne")
    eq_edges = c.edges_for(False) if is_ne else c.edges_for(True)
    ne_edges = c.edges_for(True) if is_ne else c.edges_for(False)
    ok_rets = _okret(body, ctx.origins(body))
    okp = bool(ok_rets) and all(cfg.edges_dominate(eq_edges, b) for b in ok_rets)
    ctx.ob("R06.2", "authenticate_client:Ok-only-after-equal", okp, "", "every Ok return is dominated by the equal edge" if okp else "Ok can be returned without passing the equal edge of the hash comparison")
    # the not-equal edge leads to AuthenticationFailed and nothing else
    region = cfg.reach([e[1] for e in ne_edges])
    rets_ok_in_ne = [b for b in ok_rets if b in region]
    more_reads = [r for r in reads if r.bb in region]
    ctx.ob("R06.2", "authenticate_client:mismatch-rejects", not rets_ok_in_ne and not more_reads, "", "a mismatch returns an error without reading further" if not rets_ok_in_ne and not more_reads else
           "after a hash mismatch the function can still succeed / keep reading")
    # ... and the equal edge leads to acceptance: once the 32 bytes matched, the only way to fail is a transport error while
    # reading the rest of the preamble (a truncated preamble).  A further *judgement* after the match (on the declared padding
    # length, on anything else the peer sent) turns holders of the password away
    eq_region = cfg.reach([e[1] for e in eq_edges])
    judged = []
    for kind, bi, si, rv in body.defs().get(0, []):
        if bi not in eq_region:
            continue
        if kind == "assign" and rv["r"] == "aggregate":
            if rv["kind"].get("variant") == "Err":
                judged.append((bi, "a constructed error"))
        elif kind == "call":
            t = body.blocks[bi]["term"]
            src = o.of_operand(t["args"][0]) if t.get("args") else None
            if not any(isinstance(s_, tuple) and s_ and s_[0] == "call" and ("AsyncReadExt::" in s_[1] or "AsyncRead" in s_[1]) for s_ in subterms(src)):
                judged.append((bi, "an error that does not come from reading the transport (%s)" % fmt(src)[:60]))
    ctx.ob("R06.2", "authenticate_client:match-accepts", not judged, "src/util/auth.rs:%s" % (body.blocks[judged[0][0]]["tspan"]["line"] if judged else body.blocks[eq_edges[0][0]]["tspan"]["line"] if eq_edges else "?"),
           "after the hash matched, the only failures are errors of the remaining transport reads" if not judged else
           "after the 32 bytes matched the function can still refuse the connection with %s: a holder of the password (e.g. one whose declared padding0 length the server does not like) gets no session" % judged[0][1])


def r3_exact_skip(ctx):
    body = co(ctx, "R06.3", AUTHF)
    if body is None:
        return
    cfg, conds, o = ctx.cfg(body), ctx.conds(body), ctx.origins(body)
    allreads = [c for c in body.calls() if (c.norm or "").split("::")[-1] in ("read", "read_exact", "read_buf", "read_to_end", "read_u8", "read_u16", "read_u16_le", "read_to_string", "poll_read", "read_line", "fill_buf", "consume")
                and ("AsyncRead" in (c.norm or "") or "io::" in (c.norm or "") or "AsyncBufRead" in (c.norm or ""))]
    exact = [c for c in allreads if c.norm.endswith("AsyncReadExt::read_exact")]
    other = [c for c in allreads if c not in exact]
    for c in other:
        ctx.ob("R06.3", "authenticate_client:only-read_exact|%s" % c.norm.split("::")[-1], False, c.site,
               "authenticate_client reads with `%s`, which may return fewer bytes than asked: the preamble is then not consumed exactly and frame parsing starts inside padding0" % c.norm.split("::")[-1])
    if not other:
        ctx.ob("R06.3", "authenticate_client:only-read_exact", True, "", "%d reads, all read_exact" % len(exact))
    if not ctx.floor("R06.3", "read_exact calls in authenticate_client", len(exact), 3):
        return
    ctx.ob("R06.3", "authenticate_client:three-reads", len(exact) == 3, "", "hash, length, padding" if len(exact) == 3 else "%d read_exact calls (expected 3: hash, length, padding)" % len(exact))
    b1 = o.of_operand(exact[1].args[1])
    ok2 = isinstance(b1, tuple) and b1[0] == "var" and len(b1) > 2 and body.lty(b1[2]).get("s") == "[u8; 2]"
    ctx.ob("R06.3", "authenticate_client:length-buffer", ok2, exact[1].site, "the length is read_exact into a [u8; 2]" if ok2 else "length buffer is %s" % fmt(b1))
    b2 = o.of_operand(exact[2].args[1])
    init = o.init_of(b2[2]) if isinstance(b2, tuple) and b2[0] == "var" and len(b2) > 2 else b2
    L = None
    for s in subterms(init):
        if is_call_term(s, "vec::from_elem") and len(s[3]) == 2:
            L = s[3][1]
    okL = L is not None and isinstance(L, tuple) and L[0] == "cast" and is_call_term(L[3], "u16::from_be_bytes", "::from_be_bytes") and strip_bb(L[3][3][0]) == strip_bb(b1) and not any(
        isinstance(s, tuple) and s[0] == "binop" for s in subterms(L))
    ctx.ob("R06.3", "authenticate_client:skip-length-identity", okL, exact[2].site, "skips exactly u16::from_be_bytes(len_buf) bytes" if okL else "the skipped length is %s" % fmt(L)[:120])
    # guarded only by `> 0`
    guards = [c for c in conds.all() if c.kind == "bool" and cfg.edges_dominate(c.edges_for(True), exact[2].bb) or c.kind == "bool" and cfg.edges_dominate(c.edges_for(False), exact[2].bb)]
    guards = [c for c in guards if not (isinstance(c.term, tuple) and c.term[0] == "call" and "PartialEq" in c.term[1])]
    okg = all(isinstance(c.term, tuple) and c.term[0] == "binop" and c.term[1] in ("Gt", "Ne", "Eq") and const_value(c.term[3]) == 0 and L is not None and strip_bb(c.term[2]) == strip_bb(L) for c in guards)
    ctx.ob("R06.3", "authenticate_client:skip-guard", okg, "", "the skip is conditional on `len > 0` only (%d guard)" % len(guards) if okg else
           "the padding skip is guarded by %s: some declared lengths are not skipped" % [fmt(c.term)[:60] for c in guards])


def r4_no_reply_before_auth(ctx):
    body = co(ctx, "R06.4", "server::server::handle_connection")
    if body is None:
        return
    o = ctx.origins(body)
    sp = calls_norm(body, "io::split")
    if not ctx.floor("R06.4", "tokio::io::split of the TLS stream", len(sp), 1):
        return
    uses = []
    for c in body.calls(True):
        for i, a in enumerate(c.args):
            t = o.of_operand(a)
            if isinstance(t, tuple) and t[0] == "field" and t[2] == "1" and is_call_term(t[1], "io::split"):
                uses.append((c, i))
            elif is_call_term(t, "io::split") and not c.norm.endswith("Session::new_server") and False:
                uses.append((c, i))
    # q.py shows the write half as `io::split(..)` moved into new_server; find any other consumer of the split result's .1
    bad = [(c, i) for c, i in uses if not c.norm.endswith("Session::new_server")]
    writes = [c for c in body.calls() if (c.norm or "").split("::")[-1] in ("write", "write_all", "flush", "shutdown", "write_buf", "poll_write") and "AsyncWrite" in (c.norm or "")]
    ok = not bad and not writes
    ctx.ob("R06.4", "handle_connection:write-half-untouched", ok, sp[0].site, "the write half of the connection is only moved into Session::new_server; handle_connection writes nothing itself" if ok else
           "the connection is written to in handle_connection (%s): a peer without the password can elicit a protocol reply" % ((bad or [(writes[0], 0)])[0][0].norm))


def r5_hash_of_the_configured_password(ctx):
    n = 0
    for path in ("server::server::Server::new", "server::server::Server::new_with_reloadable_tls", "client::client::Client::with_pool_config"):
        body = ctx.body("R06.5", path)
        if body is None:
            continue
        o = ctx.origins(body)
        hp = calls_norm(body, "auth::hash_password")
        if not hp:
            # a constructor may leave the hashing to a sibling constructor it delegates to, handing the password on as given
            from .common import param as _param
            dele = [c for c in body.calls() if (c.norm or "").endswith(("Server::new", "Server::new_with_reloadable_tls", "Client::with_pool_config", "Client::new")) and c.args
                    and not (c.norm or "").endswith("::" + path.split("::")[-1]) and var_name(o.of_operand(c.args[0])) == "password"]
            ctx.ob("R06.5", "%s:hashes-the-password" % path.split("::")[-1], bool(dele), dele[0].site if dele else "",
                   "delegates to %s with the password as given" % dele[0].norm.split("::")[-1] if dele else "%s does not call hash_password" % path)
            if dele:
                n += 1
            continue
        n += 1
        a = o.of_operand(hp[0].args[0])
        ok = var_name(a) == "password"
        ctx.ob("R06.5", "%s:hashes-the-password-as-given" % path.split("::")[-1], ok, hp[0].site, "hash_password(password) on the configured string itself" if ok else
               "the expected hash is computed from `%s`, not from the configured password as given: holders of the exact password are refused and a related password (trimmed / transformed) is accepted instead" % fmt(a)[:80])
        # and that hash is what the struct stores
        stored = False
        for bi in body.reachable():
            for st in body.blocks[bi]["stmts"]:
                if st["s"] == "assign" and st["rv"]["r"] == "aggregate" and "password_hash" in (st["rv"]["kind"].get("fields") or []):
                    ops = {f: o.of_operand(op) for f, op in zip(st["rv"]["kind"]["fields"], st["rv"]["ops"])}
                    stored = is_call_term(ops["password_hash"], "auth::hash_password")
        ctx.ob("R06.5", "%s:stores-that-hash" % path.split("::")[-1], stored, "", "password_hash field = hash_password(password)" if stored else "the stored hash is not the result of hash_password")
    hb = ctx.body("R06.5", "util::auth::hash_password")
    if hb is not None:
        oh = ctx.origins(hb)
        up = calls_norm(hb, "Digest>::update")
        ok = bool(up) and (var_name(oh.of_operand(up[0].args[1])) == "password") and bool(calls_norm(hb, "Digest>::finalize")) and len(up) == 1
        ctx.ob("R06.5", "hash_password:sha256-of-the-bytes", ok, up[0].site if up else "", "one update(password.as_bytes()) then finalize()" if ok else "hash_password does not hash exactly the password bytes")
    # the connection handler compares against the server's own field
    lb = co(ctx, "R06.5", "server::server::Server::listen")
    if lb is not None:
        ol = ctx.origins(lb)
        sp = [c for c in lb.calls() if (c.norm or "") == "tokio::spawn"]
        ok = bool(sp) and "self.password_hash" in fmt(ol.of_operand(sp[0].args[0]))
        ctx.ob("R06.5", "listen:hands-the-configured-hash-to-the-connection", ok, sp[0].site if sp else "", "the connection task captures self.password_hash" if ok else "the connection task does not use the server's configured hash")


def r6_reads_are_whole_and_direct(ctx):
    """(a) a preamble read is never dropped half-way and issued again (read_exact is not cancellation safe: the bytes it had
    already taken are forgotten, so the comparison / the skip happens at a shifted offset); (b) the preamble is read from the very
    stream the session then reads from, with no limiting adaptor in between (a cap smaller than 34 + 65535 bytes makes a correct
    password with a long padding0 fail)"""
    from .C11 import _future_calls
    body = co(ctx, "R06.6", AUTHF)
    if body is not None:
        cfg, o = ctx.cfg(body), ctx.origins(body)
        reads = calls_norm(body, "AsyncReadExt::read_exact")
        wrapped = set()
        for c in body.calls():
            nm = c.norm or ""
            if nm.endswith(("time::timeout", "time::timeout_at")) and len(c.args) > 1:
                ts = [o.of_operand(c.args[1])]
            elif nm.endswith("future::poll_fn") and c.args:
                t0 = o.of_operand(c.args[0])
                ts = [t0] + [o.init_of(s[2]) for s in subterms(t0) if isinstance(s, tuple) and s and s[0] == "var" and len(s) > 2]
            else:
                continue
            for t in ts:
                wrapped |= {s[2] for s in _future_calls(t) if is_call_term(s, "AsyncReadExt::read_exact")}
        for n, r in enumerate(reads):
            bad = r.bb in wrapped and cfg.in_cycle(r.bb)
            ctx.ob("R06.6", "authenticate_client:read#%d-is-not-cancelled-and-retried" % n, not bad, r.site,
                   "the read runs to completion (not inside a cancelling combinator that loops back to it)" if not bad else
                   "this read_exact is wrapped in a timeout/select and sits in a loop: when the timer fires between two fragments of the field the bytes already consumed are dropped and the retry "
                   "continues at a shifted offset — a correct password then fails (or more than the declared padding0 is swallowed)")
    n = 0
    for key, body in ctx.P.scan():
        au = calls_norm(body, AUTHF)
        ns = calls_norm(body, "Session::new_server")
        if not au or not ns:
            continue
        o = ctx.origins(body)
        for a in au:
            n += 1
            ta, tn = o.of_operand(a.args[0]), o.of_operand(ns[0].args[0])
            same = isinstance(ta, tuple) and isinstance(tn, tuple) and ta[0] == "var" and tn[0] == "var" and len(ta) > 2 and len(tn) > 2 and ta[2] == tn[2]
            same = same or (strip_bb(ta) == strip_bb(tn) and not any(is_call_term(s, "::take", "::chain") for s in subterms(ta)))
            ctx.ob("R06.6", "%s:preamble-read-from-the-session's-own-reader" % ctx.P.owner(key).split("::")[-1], same, a.site,
                   "authenticate_client and Session::new_server are given the same reader" if same else
                   "authenticate_client reads through `%s`, not through the reader the session is built on (`%s`): an adaptor between the two (take/chain/buffer) changes what the preamble parser sees "
                   "— e.g. a byte cap below 32+2+65535 turns a correct password with a long padding0 into UnexpectedEof" % (fmt(ta)[:60], fmt(tn)[:40]))
    ctx.floor("R06.6", "bodies that authenticate and then build a server session", n, 1)


def run(ctx):
    from . import effects
    effects.check_property(ctx, "C06")    # R06.E: no operation on shared protocol state outside the reviewed table
    from . import C01, C20
    C20.r14_gauges_released_on_every_exit(ctx)    # a holder of the password always gets a session: failed attempts by others do not use up a limit for good
    C01.r13_no_cancel_and_retry_of_framed_reads(ctx)
    r6_reads_are_whole_and_direct(ctx)
    r5_hash_of_the_configured_password(ctx)
    r1_construct_after_auth(ctx)
    r2_full_width(ctx)
    r3_exact_skip(ctx)
    r4_no_reply_before_auth(ctx)
