"""C14 — the liveness monitor closes dead sessions and only dead sessions (structural clauses)."""
import re
from engine.anl.origin import fmt, subterms
from engine.anl.casts import const_value
from engine.anl.conds import place_ty
from .common import stores_through, S, co, calls_norm, is_call_term, var_name, render_path, spawned_children, upvar_sources
from . import C02, C09

EXPLANATION = (
    "Static decision of the keep-alive plumbing: (R14.1) the last-response instant has exactly two writers, the constructor (with "
    "Instant::now() at creation, a plain Instant — so a peer silent from the start is measured from session creation) and the HeartResponse "
    "arm, which stores an Instant::now() evaluated inside that arm (the time the response was handled, not an earlier reading); (R14.2) the "
    "HeartRequest arm answers with a HeartResponse carrying the request's stream id; (R14.3) the monitor's give-up test is `now - last "
    "response > timeout` computed directly from the stored instant, give-up and write failure reach close() (= R09.5), and Client starts "
    "the monitor for every session it creates with the pool's interval/timeout; (R14.4) premises extracted from the code — reference "
    "instant written only at response receipt, tick period = interval, give-up test = elapsed > timeout — imply that a healthy peer is "
    "declared dead at the second tick whenever timeout < interval - rtt, so the threshold must depend on the interval or the configuration "
    "must be validated. R14.4 fails on the pinned tree (`-I 30 -T 10` is accepted and kills every healthy session after 30 s): known "
    "finding K-4. Not decided: the detection latency bound (time)."
)
RULE_TEXT = "one obligation per writer of the reference instant, per operand of the give-up test, per configuration hop; non-trivial = needed a who-may-write, origin or dominance query"


def _heartbeat_task(ctx):
    kids = spawned_children(ctx, S + "start_client::{closure#0}")
    for b in kids:
        if any((c.norm or "").endswith("Interval::tick") for c in b.calls()):
            return b
    return None


def r1_writers(ctx):
    n = 0
    for key, body in ctx.P.scan():
        if not key.startswith("session::session::"):
            continue
        if not any((c.norm or "").endswith("Mutex::lock") for c in body.calls()):
            continue
        o = ctx.origins(body)
        for bi, line, base, v, place in stores_through(body, o):
            named = isinstance(base, tuple) and base and base[0] == "var" and len(base) > 2
            if named:
                ty = body.lty(base[2])
                if not (ty.get("k") == "adt" and ty.get("adt") == "tokio::sync::MutexGuard" and ty.get("args") and ty["args"][0]["s"].endswith("time::Instant")):
                    continue
            else:
                # `*state.last_received.lock().await = ..`: the guard is a temporary
                if not any(is_call_term(s_, "Mutex::<T>::lock", "Mutex::lock", "Mutex::<T>::try_lock", "Mutex::<T>::blocking_lock") and "last_received" in fmt(s_) for s_ in subterms(base)):
                    continue
            n += 1
            fn = key.replace(S, "").split("::{closure")[0]
            in_arm = False
            now_in_arm = False
            if fn == "handle_frame":
                sw, arms = C02.arm_regions(ctx, body)
                if arms and "HeartResponse" in arms:
                    s_, own, allr = arms["HeartResponse"]
                    in_arm = bi in own
                    now_in_arm = is_call_term(v, "Instant::now") and v[2] in own
            ok = in_arm and now_in_arm
            ctx.ob("R14.1", "last_received-write|%s" % fn, ok, "src/session/session.rs:%s" % line,
                   "the HeartResponse arm stores Instant::now() evaluated in the arm" if ok else
                   ("the last-response instant is written in %s" % fn if not in_arm else
                    "the HeartResponse arm stores `%s`, not an Instant::now() taken when the response is handled: on an idle session that reading is as old as the previous response, the monitor "
                    "sees an age of about 2*interval and closes a session whose peer answered every keep-alive" % fmt(v)[:80]))
    ctx.floor("R14.1", "writes to HeartbeatState.last_received through its guard", n, 1)
    # constructor: HeartbeatState{.., last_received: Mutex::new(Instant::now())}, type Mutex<Instant>
    adt = ctx.P.adts.get("session::session::HeartbeatState")
    if adt is None:
        ctx.missing("R14.1", "struct HeartbeatState")
    else:
        f = [x for x in adt["variants"][0]["fields"] if x["name"] == "last_received"]
        okty = bool(f) and f[0]["ty"]["s"] == "tokio::sync::Mutex<tokio::time::Instant>"
        ctx.ob("R14.1", "last_received:type", okty, "", "last_received: Mutex<Instant> (always has a reference point)" if okty else
               "last_received is %s: without a reference instant from creation the monitor cannot time out a peer that never answers" % (f[0]["ty"]["s"] if f else "missing"))
    init_ok = False
    for key, body in ctx.P.scan():
        if not key.startswith("session::session::"):      # wherever the state is built (new_client, or a constructor helper shared by both roles)
            continue
        if not any(st["s"] == "assign" and st["rv"]["r"] == "aggregate" and st["rv"]["kind"].get("adt", "").endswith("HeartbeatState") for bi in body.reachable() for st in body.blocks[bi]["stmts"]):
            continue
        o = ctx.origins(body)
        for bi in body.reachable():
            for st in body.blocks[bi]["stmts"]:
                if st["s"] == "assign" and st["rv"]["r"] == "aggregate" and st["rv"]["kind"].get("adt", "").endswith("HeartbeatState"):
                    ops = {fn_: o.of_operand(op) for fn_, op in zip(st["rv"]["kind"]["fields"], st["rv"]["ops"])}
                    t = ops.get("last_received")
                    init_ok = is_call_term(t, "Mutex::<T>::new", "Mutex::new") and t[3] and is_call_term(t[3][0], "Instant::now")
                    iv, to = ops.get("interval"), ops.get("timeout")
                    cfg_ok = "interval" in fmt(iv) and "timeout" in fmt(to)
                    ctx.ob("R14.3", "HeartbeatState:interval/timeout-from-config", cfg_ok, "", "HeartbeatState{interval: cfg.interval, timeout: cfg.timeout}" if cfg_ok else "HeartbeatState fields are %s / %s" % (fmt(iv), fmt(to)))
    ctx.ob("R14.1", "last_received:initialised-at-creation", init_ok, "", "last_received starts at Instant::now() when the session is created" if init_ok else
           "last_received is not initialised with the creation instant")


def r2_request_answered(ctx):
    body = co(ctx, "R14.2", S + "handle_frame")
    if body is None:
        return
    o = ctx.origins(body)
    sw, arms = C02.arm_regions(ctx, body)
    if not arms or "HeartRequest" not in arms:
        ctx.missing("R14.2", "HeartRequest arm")
        return
    s, own, allr = arms["HeartRequest"]
    ws = [c for c in calls_norm(body, "Session::write_control_frame", "Session::write_frame") if c.bb in own]
    ok = False
    for c in ws:
        t = o.of_operand(c.args[1])
        if is_call_term(t, "Frame::control") and isinstance(t[3][0], tuple) and t[3][0][0] == "agg" and t[3][0][2] == "HeartResponse" and var_name(t[3][1]) == "frame.stream_id":
            ok = True
    ctx.ob("R14.2", "HeartRequest-arm:answers-with-same-id", ok, ws[0].site if ws else "", "HeartRequest is answered inline with HeartResponse(frame.stream_id)" if ok else
           "the HeartRequest arm does not write a HeartResponse carrying the request's stream id")


def r3_monitor(ctx):
    hb = _heartbeat_task(ctx)
    if hb is None:
        ctx.missing("R14.3", "heartbeat task")
        return
    ctx.bodies_touched.add(hb.name)
    cfg, conds, o = ctx.cfg(hb), ctx.conds(hb), ctx.origins(hb)
    gt = [c for c in conds.all() if c.kind == "bool" and is_call_term(c.term, "PartialOrd::lt", "PartialOrd>::lt", "PartialOrd::le") and any("timeout" in (s[1] if isinstance(s, tuple) and s[0] == "var" else "") for s in subterms(c.term))]
    if not ctx.floor("R14.3", "give-up comparison in the heartbeat task", len(gt), 1):
        return
    t = gt[0].term
    rhs, lhs = t[3][0], t[3][1]   # canonical form: timeout < elapsed
    direct = is_call_term(lhs, "Instant::saturating_duration_since", "Instant::duration_since", "Instant::elapsed") and any(is_call_term(s, "Instant::now") for s in subterms(lhs)) and \
        any(is_call_term(s, "Mutex::<T>::lock") and "last_received" in fmt(s) for s in subterms(lhs)) and not any(is_call_term(s, "::unwrap_or", "::unwrap_or_default", "::unwrap_or_else", "::map") for s in subterms(lhs))
    ctx.ob("R14.3", "monitor:elapsed-is-now-minus-last-response", direct, "src/session/session.rs:%s" % hb.blocks[gt[0].block]["tspan"]["line"],
           "give-up test compares now.saturating_duration_since(*last_received) with the timeout" if direct else
           "the monitor's elapsed value is `%s`: not a direct difference between now and the stored instant (a defaulted/optional reference makes a never-answering peer look fresh for ever)" % fmt(lhs)[:120])
    okr = (var_name(rhs) or "").endswith(".timeout") and "." in (var_name(rhs) or "")
    ctx.ob("R14.3", "monitor:threshold-is-configured-timeout", okr, "", "threshold = the HeartbeatState's timeout field" if okr else "threshold is %s" % fmt(rhs))
    iv = calls_norm(hb, "time::interval")
    oki = bool(iv) and (var_name(o.of_operand(iv[0].args[0])) or "").endswith(".interval")
    ctx.ob("R14.3", "monitor:period-is-configured-interval", oki, iv[0].site if iv else "", "tick period = heartbeat_state.interval" if oki else "tick period is not the configured interval")
    # every tick that does not give up sends a request
    ticks = [c for c in hb.calls() if (c.norm or "").endswith("Interval::tick")]
    ws = calls_norm(hb, "Session::write_control_frame", "Session::write_frame")
    okw = bool(ws) and any(isinstance(s, tuple) and s[0] == "agg" and s[2] == "HeartRequest" for s in subterms(o.of_operand(ws[0].args[1])))
    ctx.ob("R14.3", "monitor:sends-HeartRequest", okw, ws[0].site if ws else "", "each surviving tick writes a HeartRequest" if okw else "the monitor does not send HeartRequest")
    # Client starts the monitor for every session, with the pool's values
    cn = co(ctx, "R14.3", "client::client::Client::create_new_session")
    if cn is not None:
        oc = ctx.origins(cn)
        nc = calls_norm(cn, "Session::new_client")
        if ctx.floor("R14.3", "Session::new_client call in create_new_session", len(nc), 1):
            hbarg = oc.of_operand(nc[0].args[3])
            f = fmt(hbarg)
            ok = isinstance(hbarg, tuple) and hbarg[0] == "agg" and hbarg[2] == "Some" and "check_interval" in f and "idle_timeout" in f
            cfgagg = [s for s in subterms(hbarg) if isinstance(s, tuple) and s[0] == "agg" and s[1].endswith("SessionHeartbeatConfig")]
            if cfgagg:
                a = cfgagg[0]
                ok = ok and var_name(a[3][0]) == "self.pool_config.check_interval" and var_name(a[3][1]) == "self.pool_config.idle_timeout"
            ctx.ob("R14.3", "Client:monitor-started-with-pool-config", ok, nc[0].site, "every client session gets Some(SessionHeartbeatConfig{interval: pool.check_interval, timeout: pool.idle_timeout})" if ok else
                   "client sessions are created with heartbeat config %s" % f[:140])
    # R14.4: threshold vs period
    dep_on_interval = "interval" in fmt(rhs)
    validated = False
    for key, body in ctx.P.scan():
        if key.startswith(("client::client::Client::", "anytls_client::", "session::session::Session::new_client", "client::session_pool::SessionPool::with_config")):
            cs = ctx.conds(body)
            for c in cs.all():
                f = fmt(c.term)
                if ("check_interval" in f or "interval" in f) and ("idle_timeout" in f or "timeout" in f) and c.kind == "bool" and any(isinstance(s, tuple) and s[0] in ("binop",) or is_call_term(s, "PartialOrd::lt", "PartialOrd::gt", "PartialOrd::le", "PartialOrd::ge") for s in subterms(c.term)):
                    validated = True
    ok4 = dep_on_interval or validated
    ctx.ob("R14.4", "monitor:threshold-vs-period", ok4, "src/session/session.rs:%s" % hb.blocks[gt[0].block]["tspan"]["line"],
           "the give-up threshold depends on the interval / the configuration compares the two" if ok4 else
           "premises read from the code: the reference instant is written only when a response is handled; the tick period is `interval`; give-up is `now - ref > timeout`. At the second tick the reference is about "
           "interval - rtt old, so a healthy peer is declared dead whenever timeout < interval - rtt; nothing relates the two values (`-I 30 -T 10` is accepted and closes every healthy session after 30 s)")


def r5_every_tick_probes(ctx):
    """no tick is skipped: every turn of the monitor loop evaluates the give-up test and, unless it gives up, sends a request
    (a tick that neither checks nor probes lets the reference instant go stale while the peer is perfectly alive)"""
    hb = _heartbeat_task(ctx)
    if hb is None:
        return
    cfg, conds, o = ctx.cfg(hb), ctx.conds(hb), ctx.origins(hb)
    ticks = [c for c in hb.calls() if (c.norm or "").endswith("Interval::tick")]
    ws = [c for c in calls_norm(hb, "Session::write_control_frame", "Session::write_frame") if any(isinstance(s, tuple) and s[0] == "agg" and s[2] == "HeartRequest" for s in subterms(o.of_operand(c.args[1])))]
    gt = [c for c in conds.all() if c.kind == "bool" and is_call_term(c.term, "PartialOrd::lt", "PartialOrd>::lt", "PartialOrd::le") and any("timeout" in (s[1] if isinstance(s, tuple) and s[0] == "var" else "") for s in subterms(c.term))]
    if not ticks or not ws or not gt:
        ctx.missing("R14.5", "tick / HeartRequest write / give-up test in the monitor loop")
        return
    ok1, p1 = cfg.must_pass(cfg.succ(ticks[0].bb), [ticks[0].bb], via_blocks=[w.bb for w in ws])
    ctx.ob("R14.5", "monitor:every-surviving-tick-sends-a-request", ok1, ws[0].site, "no path returns to the next tick without having written a HeartRequest" if ok1 else
           "a tick can go back to waiting without sending a HeartRequest (a `continue` ahead of the probe): while that condition lasts no response can refresh the reference instant, and the first tick that does check "
           "declares a peer dead that answered every request it was sent", path=None if ok1 else render_path(hb, p1))
    ok2, p2 = cfg.must_pass(cfg.succ(ticks[0].bb), [ticks[0].bb] + hb.return_blocks(), via_blocks=[gt[0].block] + [c.block for c in conds.all() if c.kind == "bool" and is_call_term(c.term, S + "is_closed")])
    ctx.ob("R14.5", "monitor:every-tick-evaluates-the-give-up-test", ok2, "", "every tick evaluates `elapsed > timeout` (or finds the session closed)" if ok2 else "a tick can skip the give-up test", path=None if ok2 else render_path(hb, p2))
    # the response arm refreshes the instant unconditionally (whenever a monitor exists)
    body = co(ctx, "R14.5", S + "handle_frame")
    if body is None:
        return
    cfgh, condsh, oh = ctx.cfg(body), ctx.conds(body), ctx.origins(body)
    sw, arms = C02.arm_regions(ctx, body)
    if not arms or "HeartResponse" not in arms:
        return
    s_, own, allr = arms["HeartResponse"]
    stores = [bi for bi, line, base, v, place in stores_through(body, oh) if bi in own and is_call_term(v, "Instant::now")]
    some = []
    for c in condsh.all():
        if c.block in own | {s_} and c.kind == "variant" and var_name(c.term) == "self.heartbeat":
            some += c.succs_for("Some")
    exits = [b for b in allr if b not in own and any(p in own for p in cfgh.preds(b))] or body.return_blocks()
    if stores and some:
        ok3, p3 = cfgh.must_pass(some, exits, via_blocks=stores)
        ctx.ob("R14.5", "HeartResponse-arm:every-response-refreshes-the-instant", ok3, "", "with a monitor configured, every HeartResponse stores Instant::now()" if ok3 else
               "a HeartResponse can be dropped without refreshing the reference instant (the store is conditional): answers that arrive after the next request has gone out (round trip > interval, still < timeout) are "
               "discarded and a peer that answered in time is declared dead", path=None if ok3 else render_path(body, p3))
    else:
        ctx.missing("R14.5", "store of Instant::now() / `self.heartbeat` test in the HeartResponse arm")


def r6_monitor_is_the_only_silence_rule(ctx):
    """the keep-alive monitor is the only code that ends a session because nothing arrived: the receive loop's read carries no
    deadline of its own (a read deadline equal to the timeout is a second, stricter liveness rule — it tolerates `timeout`
    between two inbound chunks where the monitor tolerates timeout + interval, so with timeout = interval any jitter in the
    reply time closes a healthy session)"""
    from .C11 import _future_calls
    body = co(ctx, "R14.6", S + "recv_loop")
    if body is None:
        return
    o = ctx.origins(body)
    reads = [c for c in body.calls() if (c.norm or "").endswith(("AsyncReadExt::read_buf", "AsyncReadExt::read", "AsyncReadExt::read_exact"))]
    if not ctx.floor("R14.6", "transport reads in recv_loop", len(reads), 1):
        return
    wrapped = []
    for c in body.calls():
        nm = c.norm or ""
        if nm.endswith(("time::timeout", "time::timeout_at")) and len(c.args) > 1:
            ts = [o.of_operand(c.args[1])]
        elif nm.endswith("future::poll_fn") and c.args:
            t0 = o.of_operand(c.args[0])
            ts = [t0] + [o.init_of(s_[2]) for s_ in subterms(t0) if isinstance(s_, tuple) and s_ and s_[0] == "var" and len(s_) > 2]
        else:
            continue
        for t in ts:
            if any(s_[2] in {r.bb for r in reads} for s_ in _future_calls(t) if isinstance(s_, tuple) and len(s_) > 2):
                wrapped.append(c)
    ctx.ob("R14.6", "recv_loop:read-has-no-deadline-of-its-own", not wrapped, wrapped[0].site if wrapped else reads[0].site,
           "the receive loop waits for input without a deadline; only the monitor decides that a peer is dead" if not wrapped else
           "the receive loop's read is wrapped in `%s`: a second liveness rule next to the monitor, and a stricter one — with timeout = interval (accepted by the CLI) any variation in the peer's reply time "
           "exceeds it and a session whose peer answers every request is closed" % wrapped[0].norm.split("::")[-1])


def _nonzero_at(body, cfg, conds, o, term, bb):
    """the integer `term` is proven non-zero at block bb: a positive lower bound from shape/guards, or a dominating `!= 0` edge"""
    from engine.anl.casts import range_of
    from engine.anl.origin import strip_bb
    used = []
    lo, hi = range_of(body, cfg, conds, o, term, bb, used)
    if (lo is not None and lo >= 1) or (hi is not None and hi <= -1):
        return True
    key = strip_bb(term)
    for c in conds.all():
        t = c.term
        if c.kind != "bool" or not (isinstance(t, tuple) and t and t[0] == "binop" and t[1] in ("Eq", "Ne")):
            continue
        a, b = t[2], t[3]
        if const_value(b) == 0 and strip_bb(a) == key or const_value(a) == 0 and strip_bb(b) == key:
            edges = c.edges_for(t[1] == "Ne")
            if edges and cfg.edges_dominate(edges, bb):
                return True
    return False


def r7_zero_period_is_not_accepted(ctx):
    """`tokio::time::interval` panics on a zero period, inside the detached monitor task: the client keeps running without any
    liveness monitor and a silent peer is never closed.  The command line therefore must not accept 0 for the check interval:
    every integer it turns into the pool's `check_interval` is proven non-zero (by the parser it comes from or at the store)."""
    from .common import ok_return_blocks
    sites = []
    for key, body in ctx.P.scan():
        if not key.startswith("anytls_client::"):
            continue
        o = None
        for bi in sorted(body.reachable()):
            for st in body.blocks[bi]["stmts"]:
                if st["s"] != "assign":
                    continue
                pr = st["place"]["proj"]
                vals = []
                if pr and pr[-1].get("p") == "field" and pr[-1].get("name") == "check_interval":
                    o = o or ctx.origins(body)
                    vals.append(o._rvalue(st["rv"], (), bi, 0, frozenset()))
                elif st["rv"]["r"] == "aggregate" and "check_interval" in (st["rv"]["kind"].get("fields") or []) and str(st["rv"]["kind"].get("adt", "")).endswith("SessionPoolConfig"):
                    o = o or ctx.origins(body)
                    vals.append(o.of_operand(st["rv"]["ops"][st["rv"]["kind"]["fields"].index("check_interval")]))
                for v in vals:
                    for s_ in subterms(v):
                        if is_call_term(s_, "Duration::from_secs", "Duration::from_millis", "Duration::from_micros", "Duration::from_nanos") and s_[3] and const_value(s_[3][0]) is None:
                            sites.append((key, body, bi, st["span"]["line"], s_[3][0]))
    if not sites:
        ctx.ob("R14.7", "CLI:check-interval-not-settable", True, "", "the client binary does not derive the pool's check interval from a run-time integer")
        return
    def proven(body, x, bi, depth=0):
        """(ok, how): the integer term x is non-zero at block bi of body — by a guard there, by every Ok return of the local
        function it comes from, or (when it is a parameter of a helper) at every call site of that helper"""
        cfg, conds, o = ctx.cfg(body), ctx.conds(body), ctx.origins(body)
        ctx.bodies_touched.add(body.name)
        if _nonzero_at(body, cfg, conds, o, x, bi):
            return True, "guarded non-zero at the use"
        if depth > 3 or not isinstance(x, tuple) or not x:
            return False, ""
        if x[0] == "phi":
            alts = [a for a in x[1] if not (isinstance(a, tuple) and a and a[0] == "agg" and len(a) > 2 and a[2] == "None")]
            alts = [a[3][0] if isinstance(a, tuple) and a[0] == "agg" and len(a) > 2 and a[2] == "Some" and a[3] else a for a in alts]
            rs = [proven(body, a, bi, depth + 1) for a in alts]
            return (bool(rs) and all(r[0] for r in rs)), "; ".join(sorted({r[1] for r in rs}))
        if x[0] == "call":
            k = ctx.cg.resolve(body, re.sub(r"::<[^>]*>", "", x[1]))
            f = ctx.P.bodies.get(k) if k else None
            if f is None:
                return False, ""
            ctx.bodies_touched.add(f.name)
            fc, fcd, fo = ctx.cfg(f), ctx.conds(f), ctx.origins(f)
            oks = ok_return_blocks(f, fo)
            good = bool(oks)
            for rb in oks:
                pay = None
                for st in f.blocks[rb]["stmts"]:
                    if st["s"] == "assign" and st["rv"]["r"] == "aggregate" and st["rv"]["kind"].get("variant") == "Ok":
                        pay = fo.of_operand(st["rv"]["ops"][0])
                if pay is None or not _nonzero_at(f, fc, fcd, fo, pay, rb):
                    good = False
            return good, "every Ok return of %s is guarded non-zero" % k.split("::")[-1]
        if x[0] == "var" and isinstance(x[1], str):
            root = re.split(r"[<.\[(*]", x[1].lstrip("(*"))[0]
            idx = [i for i, nm in body.debug.items() if nm == root and 1 <= i <= body.arg_count]
            if not idx or body.is_coroutine:
                return False, ""
            callers = [e for e in ctx.cg.callers(ctx.cg.key_of(body)) if e.kind in ("call", "spawn")]
            if not callers:
                return False, ""
            hows = []
            for e in callers:
                cb = ctx.P.bodies[e.src]
                co_ = ctx.origins(cb)
                call = [c for c in cb.calls() if c.bb == e.bb]
                if not call or len(call[0].args) < idx[0]:
                    return False, ""
                r = proven(cb, co_.of_operand(call[0].args[idx[0] - 1]), e.bb, depth + 1)
                if not r[0]:
                    return False, ""
                hows.append(r[1])
            return True, "parameter of %s; at its call site(s): %s" % (body.name.split("::")[-1], "; ".join(sorted(set(hows))))
        return False, ""

    for key, body, bi, line, x in sites:
        ok, how = proven(body, x, bi)
        ctx.ob("R14.7", "CLI:check-interval-is-never-zero", ok, "src/bin/client.rs:%s" % line, how if ok else
               "the check interval is built from `%s`, which can be 0: the command line accepts `-I 0`, tokio::time::interval panics on a zero period inside the detached monitor task (and the pool's reaper), "
               "the client keeps running without a liveness monitor and a server that falls silent is never closed" % fmt(x)[:100])


def r8_give_up_test_is_taken_at_the_tick(ctx):
    """the age compared with the timeout is measured at the tick, before this tick's probe is written: a write can wait for the
    session's locks behind stream traffic, and time spent there is not silence of the peer (with timeout = interval, accepted by
    the command line, any such wait closes a session whose peer answered every request)"""
    hb = _heartbeat_task(ctx)
    if hb is None:
        return
    cfg, conds, o = ctx.cfg(hb), ctx.conds(hb), ctx.origins(hb)
    ticks = [c for c in hb.calls() if (c.norm or "").endswith("Interval::tick")]
    ws = [c for c in calls_norm(hb, "Session::write_control_frame", "Session::write_frame") if any(isinstance(s, tuple) and s[0] == "agg" and s[2] == "HeartRequest" for s in subterms(o.of_operand(c.args[1])))]
    gt = [c for c in conds.all() if c.kind == "bool" and is_call_term(c.term, "PartialOrd::lt", "PartialOrd>::lt", "PartialOrd::le") and any("timeout" in (s[1] if isinstance(s, tuple) and s[0] == "var" else "") for s in subterms(c.term))]
    if not ticks or not ws or not gt:
        ctx.missing("R14.8", "tick / HeartRequest write / give-up test in the monitor loop")
        return
    nows = sorted({s[2] for s in subterms(gt[0].term) if is_call_term(s, "Instant::now") and len(s) > 2 and isinstance(s[2], int)})
    if not nows:
        ctx.missing("R14.8", "Instant::now() reading of the give-up test")
        return
    ok, p = cfg.must_pass(cfg.succ(ticks[0].bb), [w.bb for w in ws], via_blocks=nows)
    ctx.ob("R14.8", "monitor:age-is-read-before-the-probe-is-written", ok, ws[0].site, "between a tick and its HeartRequest the clock has already been read for the give-up test" if ok else
           "the probe is written before the age is measured: the wait for the session's write locks (behind stream data on a slow uplink) is charged to the peer, and with timeout = interval a session whose peer answers "
           "every request is closed", path=None if ok else render_path(hb, p))


def r9_nothing_stalls_the_give_up_test(ctx):
    """the give-up test runs once per tick only as long as the loop gets back to the tick: whatever the monitor awaits between
    two ticks must not be able to wait, without a bound, behind a transport write.  A probe written inline with
    `write_control_frame(..).await` queues for Session.buffer / Session.writer; a data write that is stuck in the transport
    (the peer no longer reads: exactly the silent peer the monitor exists for) holds those locks for as long as TCP keeps
    retrying, the monitor never reaches another tick, and the session is not closed within timeout + interval"""
    from .C11 import _future_calls, _cls_names, BUFFER_CLS_FIELD, WRITER_CLS_FIELD
    hb = _heartbeat_task(ctx)
    if hb is None:
        return
    cfg, o = ctx.cfg(hb), ctx.origins(hb)
    ticks = [c for c in hb.calls() if (c.norm or "").endswith("Interval::tick")]
    if not ticks:
        ctx.missing("R14.9", "tick of the monitor loop")
        return
    loop = cfg.cycle_blocks(ticks[0].bb)
    names = _cls_names(ctx)
    la = ctx.locks("client")
    key = ctx.cg.key_of(hb)
    bounded = set()
    for c in hb.calls():
        if (c.norm or "").endswith(("time::timeout", "time::timeout_at")) and len(c.args) > 1:
            for s_ in _future_calls(o.of_operand(c.args[1])):
                if isinstance(s_, tuple) and len(s_) > 2:
                    bounded.add(s_[2])
    n = 0
    stalls = []
    for e in ctx.cg.callees(key):
        if e.bb not in loop or e.kind == "await":
            continue
        held = {names.get(cls, cls) for (cls, mode) in la.summary.get(e.dst, {})}
        if not held & {BUFFER_CLS_FIELD, WRITER_CLS_FIELD}:
            continue
        n += 1
        if e.bb not in bounded:
            stalls.append(e)
    if not ctx.floor("R14.9", "calls inside the monitor loop that reach the transport locks", n, 1):
        return
    ctx.ob("R14.9", "monitor:probe-write-cannot-stall-the-give-up-test", not stalls, stalls[0].site if stalls else "",
           "every call of the monitor loop that can queue for the transport locks is bounded by a deadline" if not stalls else
           "the monitor loop awaits `%s` inline: it queues for Session.buffer / Session.writer, which a data write stuck in the transport holds for as long as the peer does not read; the loop never returns to the "
           "tick, the give-up test is not evaluated again, and a peer that fell silent during an upload is not detected within timeout + interval (not until TCP itself gives up)" % stalls[0].dst.split("::{closure")[0].split("::")[-1])


def run(ctx):
    from . import C20 as _C20t
    _C20t.r12_subtractions(ctx, _C20t.input_reachable(ctx))   # no subtraction (sizes, Durations) that can underflow and kill the task that computes it
    r6_monitor_is_the_only_silence_rule(ctx)
    from . import effects
    effects.check_property(ctx, "C14")    # R14.E: no operation on shared protocol state outside the reviewed table
    from . import C01 as _C01r
    _C01r.r3_r4_recv_buffer(ctx)    # every complete frame in the receive buffer is dispatched before the loop waits for more input: a response that has arrived is handled, not left behind a backlog
    r5_every_tick_probes(ctx)
    r7_zero_period_is_not_accepted(ctx)
    r8_give_up_test_is_taken_at_the_tick(ctx)
    r9_nothing_stalls_the_give_up_test(ctx)
    C09.r4_close_body(ctx)    # giving up releases all waiters: close() drains streams before it waits for the transport
    from . import C08
    C08.r2_single_sender_owner(ctx)   # ... and dropping the table's sender is enough to release a reader only if nobody else holds a clone
    r1_writers(ctx)
    r2_request_answered(ctx)
    r3_monitor(ctx)
    C09.r5_heartbeat(ctx)
