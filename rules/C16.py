"""C16 — the SOCKS5 front-end follows the protocol for every client byte stream (structural clauses)."""
from engine.anl.casts import const_value
from engine.anl.origin import fmt, subterms, strip_bb
from .common import S, co, calls_norm, is_call_term, var_name, render_path, spawned_children

from .common import ok_return_blocks as _okret

EXPLANATION = (
    "Static decision of the SOCKS5 front-end's control structure: (R16.1) both parsers reject a version byte other than 5 before anything "
    "else; the method selection [5,0] is written on the true edge of methods.contains(NO_AUTH) and [5,0xFF] plus an error on the false edge; "
    "(R16.2) a tunnel is opened only for CONNECT: the create_proxy_stream call is dominated by the equal edge of a comparison of the command "
    "byte returned by read_connection_request with CMD_CONNECT, and the other edge answers 'command not supported' without opening anything; "
    "(R16.3) every field of the greeting and the request is read with read_exact (fragmentation independent), the reply codes and the start of "
    "forwarding depend on the open's result (= R10.6), the address table and the destination plumbing agree with the other codecs (= R07.3/R07.4); "
    "(R16.4) isolation: the accept loop has no exit, accept errors included, and every connection is handled in its own spawned task."
)
RULE_TEXT = "one obligation per version check, per selection write, per read, per command test, per accept loop; non-trivial = needed a dominance, reachability or origin query"

SK = "client::socks5::"


def r1_negotiation(ctx):
    body = co(ctx, "R16.1", SK + "authenticate")
    if body is None:
        return
    cfg, conds, o = ctx.cfg(body), ctx.conds(body), ctx.origins(body)
    ver_ok_edges = []
    for c in conds.all():
        t = c.term
        if c.kind == "bool" and isinstance(t, tuple) and t[0] == "binop" and t[1] in ("Ne", "Eq") and const_value(t[3]) == 5:
            ver_ok_edges += c.edges_for(False) if t[1] == "Ne" else c.edges_for(True)
    t_e, f_e = [], []
    for c in conds.all():
        if c.kind == "bool" and is_call_term(c.term, "::contains") and const_value(c.term[3][1]) == 0:
            t_e += c.edges_for(True)
            f_e += c.edges_for(False)
    ws = calls_norm(body, "AsyncWriteExt::write_all")
    sel = {}
    chosen = {}     # method value -> blocks where it is chosen, when one write sends a method selected earlier (`let m = if .. {0} else {0xFF}`)
    for w in ws:
        t = o.of_operand(w.args[1])
        if isinstance(t, tuple) and t[0] == "agg" and len(t[3]) == 2:
            m = t[3][1]
            if isinstance(m, tuple) and m[0] == "phi" and const_value(t[3][0]) == 5:
                for alt, bi in o.phi_sites.get(m, []):
                    if const_value(alt) is not None:
                        sel[(5, const_value(alt))] = w
                        chosen.setdefault(const_value(alt), []).append(bi)
                continue
            sel[(const_value(t[3][0]), const_value(t[3][1]))] = w
    ok_ver = bool(ver_ok_edges) and all(cfg.edges_dominate(ver_ok_edges, w.bb) for w in ws)
    ctx.ob("R16.1", "authenticate:version-checked-first", ok_ver, "", "every reply is dominated by the version == 5 edge" if ok_ver else "the greeting's version byte is not checked before answering")
    a = sel.get((5, 0))
    r = sel.get((5, 255))
    oka = a is not None and bool(t_e) and all(cfg.edges_dominate(t_e, b_) for b_ in chosen.get(0, [a.bb]))
    ctx.ob("R16.1", "authenticate:no-auth-selected-iff-offered", oka, a.site if a else "", "[5,0] is written on the true edge of methods.contains(0)" if oka else "'no authentication' can be selected although it was not offered (or is never selected)")
    okr = r is not None and bool(f_e) and all(cfg.edges_dominate(f_e, b_) for b_ in chosen.get(255, [r.bb]))
    ok_rets = _okret(body, ctx.origins(body))
    # what can follow a 'not offered' outcome: the same (immutable) test evaluated again later takes the same side
    refuse_region = cfg.reach([e[1] for e in f_e], avoid_edges=t_e)
    okr = okr and not [b for b in ok_rets if b in refuse_region]
    ctx.ob("R16.1", "authenticate:refuses-otherwise", okr, r.site if r else "", "[5,0xFF] is written on the false edge and the function fails" if okr else "a greeting without 'no authentication' is not refused with [5,0xFF] + error")
    # methods buffer: nmethods bytes
    rd = calls_norm(body, "AsyncReadExt::read_exact")
    if len(rd) >= 2:
        b1 = o.of_operand(rd[1].args[1])
        init = o.init_of(b1[2]) if isinstance(b1, tuple) and len(b1) > 2 else b1
        okm = any(is_call_term(s, "vec::from_elem") and isinstance(s[3][1], tuple) and s[3][1][0] == "cast" for s in subterms(init))
        ctx.ob("R16.1", "authenticate:reads-nmethods-bytes", okm, rd[1].site, "the method list buffer has NMETHODS bytes" if okm else "method list buffer is %s" % fmt(init)[:80])
    rq = co(ctx, "R16.1", SK + "read_connection_request")
    if rq is not None:
        c2 = ctx.conds(rq)
        cf = ctx.cfg(rq)
        ve = []
        for c in c2.all():
            t = c.term
            if c.kind == "bool" and isinstance(t, tuple) and t[0] == "binop" and t[1] in ("Ne", "Eq") and const_value(t[3]) == 5:
                ve += c.edges_for(False) if t[1] == "Ne" else c.edges_for(True)
        rds = calls_norm(rq, "AsyncReadExt::read_exact")
        ok = bool(ve) and len(rds) >= 2 and all(cf.edges_dominate(ve, r_.bb) for r_ in rds[1:])
        ctx.ob("R16.1", "read_connection_request:version-checked-first", ok, "", "the request's version byte is checked before the address is read" if ok else "the request's version byte is not checked before parsing continues")


def r2_connect_only(ctx):
    body = co(ctx, "R16.2", SK + "handle_socks5_connection")
    if body is None:
        return
    cfg, conds, o = ctx.cfg(body), ctx.conds(body), ctx.origins(body)
    cps = calls_norm(body, "Client::create_proxy_stream")
    if not ctx.floor("R16.2", "create_proxy_stream call in handle_socks5_connection", len(cps), 1):
        return
    cmd_connect = ctx.P.const_int("CMD_CONNECT")
    eq_e, ne_e = [], []
    for c in conds.all():
        t = c.term
        if c.kind == "bool" and isinstance(t, tuple) and t[0] == "binop" and t[1] in ("Eq", "Ne"):
            sides = [t[2], t[3]]
            cmd_side = [x for x in sides if isinstance(x, tuple) and x[0] == "field" and x[2] == "1" and is_call_term(x[1], "socks5::read_connection_request")]
            const_side = [const_value(x) for x in sides if const_value(x) is not None]
            if cmd_side and const_side and const_side[0] == cmd_connect:
                eq_e += c.edges_for(True) if t[1] == "Eq" else c.edges_for(False)
                ne_e += c.edges_for(False) if t[1] == "Eq" else c.edges_for(True)
        if c.kind == "int" and isinstance(t, tuple) and t[0] == "field" and t[2] == "1" and is_call_term(t[1], "socks5::read_connection_request"):
            eq_e += c.edges_for(cmd_connect)
            ne_e += c.edges_not(cmd_connect)
    ok = bool(eq_e) and all(cfg.edges_dominate(eq_e, c.bb) for c in cps)
    ctx.ob("R16.2", "handle_socks5_connection:tunnel-only-for-CONNECT", ok, cps[0].site,
           "create_proxy_stream is dominated by the `cmd == CMD_CONNECT` edge" if ok else
           "the command byte returned by read_connection_request is never compared with CMD_CONNECT before the tunnel is opened: BIND (2) and UDP ASSOCIATE (3) requests are served as CONNECT and answered 'succeeded'")
    if ne_e:
        region = cfg.reach([e[1] for e in ne_e])
        rep = [c for c in calls_norm(body, "socks5::send_connection_reply") if c.bb in region and const_value(o.of_operand(c.args[1])) == ctx.P.const_int("REPLY_COMMAND_NOT_SUPPORTED")]
        p = cfg.path([e[1] for e in ne_e], body.return_blocks(), avoid_blocks=[c.bb for c in rep]) if rep else [0]
        opens = [c for c in cps if c.bb in region and not cfg.edges_dominate(eq_e, c.bb)]
        okn = bool(rep) and p is None and not opens
        ctx.ob("R16.2", "handle_socks5_connection:other-commands-refused", okn, rep[0].site if rep else "", "other commands are answered with REPLY_COMMAND_NOT_SUPPORTED and nothing is opened" if okn else
               "a non-CONNECT request is not answered with 'command not supported' on every path")


def r3_reads(ctx):
    for fn in ("authenticate", "read_connection_request"):
        body = co(ctx, "R16.3", SK + fn)
        if body is None:
            continue
        allr = [c for c in body.calls() if (c.norm or "").split("::")[-1] in ("read", "read_exact", "read_buf", "read_u8", "read_u16", "read_to_end") and "AsyncRead" in (c.norm or "")]
        bare = [c for c in allr if not c.norm.endswith("::read_exact")]
        for c in bare:
            ctx.ob("R16.3", "%s:only-read_exact|%s" % (fn, c.norm.split("::")[-1]), False, c.site, "`%s` may return fewer bytes than requested: a greeting/request split across TCP segments is mis-parsed" % c.norm.split("::")[-1])
        if not bare:
            ctx.ob("R16.3", "%s:only-read_exact" % fn, len(allr) >= 2, "", "%d reads, all read_exact" % len(allr))
    # every read goes to the connection itself: a buffering wrapper that is dropped at the end of the function swallows whatever
    # it read ahead (a request that arrived in the same segment as the greeting)
    from .common import param
    for fn in ("authenticate", "read_connection_request"):
        b = co(ctx, "R16.3", SK + fn)
        if b is None:
            continue
        ob = ctx.origins(b)
        conn = param(b, 0)
        rds = [c for c in b.calls() if (c.norm or "").split("::")[-1] in ("read", "read_exact", "read_buf", "read_u8", "read_u16", "fill_buf", "read_until", "read_line")]
        bad = [c for c in rds if var_name(ob.of_operand(c.args[0])) != conn]
        ctx.ob("R16.3", "%s:reads-the-connection-directly" % fn, bool(rds) and not bad, (bad or rds or [None])[0].site if (bad or rds) else "",
               "all %d reads are on the connection parameter" % len(rds) if rds and not bad else
               "a read goes through `%s`, not the connection itself: a local buffering reader that is dropped when the function returns loses the bytes it read ahead — a client that sends greeting and request in one "
               "segment never gets its reply" % (fmt(ob.of_operand(bad[0].args[0]))[:60] if bad else "?"))
    rq = co(ctx, "R16.3", SK + "read_connection_request")
    if rq is not None:
        o = ctx.origins(rq)
        rets = [o.of_operand(rv["ops"][0]) for kind, bi, si, rv in rq.defs().get(0, []) if kind == "assign" and rv["r"] == "aggregate" and rv["kind"].get("variant") == "Ok"]
        ok = False
        for r in rets:
            if isinstance(r, tuple) and r[0] == "agg" and len(r[3]) == 2:
                cmd = r[3][1]
                # an element of the 4-byte request header, i.e. of the buffer filled by the first read_exact
                rds = sorted(calls_norm(rq, "AsyncReadExt::read_exact"), key=lambda c: c.bb)
                hb = o.of_operand(rds[0].args[1]) if rds else None
                ok = isinstance(cmd, tuple) and cmd[0] == "var" and len(cmd) > 2 and isinstance(hb, tuple) and len(hb) > 2 and cmd[2] == hb[2] and rq.lty(hb[2]).get("s") == "[u8; 4]"
        ctx.ob("R16.3", "read_connection_request:returns-command-byte", ok, "", "the command byte of the header is returned to the caller" if ok else "read_connection_request does not return the header's command byte")


def accept_loop_rules(ctx, rule, fn_path, handler_suffix, label):
    body = co(ctx, rule, fn_path)
    if body is None:
        return
    cfg = ctx.cfg(body)
    acc = calls_norm(body, "TcpListener::accept")
    if not ctx.floor(rule, "%s: accept call" % label, len(acc), 1):
        return
    in_loop = cfg.in_cycle(acc[0].bb)
    after = cfg.reach_after(acc[0].bb)
    rets = [b for b in body.return_blocks() if b in after]
    ctx.ob(rule, "%s:accept-loop-never-exits" % label, in_loop and not rets, acc[0].site, "no return is reachable once the accept loop is entered (accept errors and connection errors included)" if in_loop and not rets else
           "the accept loop can terminate (line %s): one failing accept/connection ends service for everybody" % (body.blocks[rets[0]]["tspan"]["line"] if rets else "?"))
    # the accept loop does no per-connection I/O itself: nothing in the loop awaits on the accepted socket
    o = ctx.origins(body)
    loop = cfg.cycle_blocks(acc[0].bb) if in_loop else set()
    inline_io = []
    spawn_sites = {e.bb for e in ctx.cg.out.get(body.name, []) if e.kind == "spawn"}
    for c in body.calls():
        if c.bb not in loop or c.bb == acc[0].bb or c.bb in spawn_sites:
            continue        # a future that is created here and handed to spawn is not awaited by the loop
        nm = c.norm or ""
        callee_body = ctx.P.bodies.get(c.callee or "")
        is_async = callee_body is not None and callee_body.j.get("is_async_fn") in (True, "true")
        is_io = any(x in nm for x in ("AsyncReadExt::", "AsyncWriteExt::", "AsyncBufReadExt::", "TlsAcceptor::accept", "TlsConnector::connect"))
        if not (is_async or is_io):
            continue
        for a in c.args:
            t = o.of_operand(a)
            ts = [t] + [o.init_of(s_[2]) for s_ in subterms(t) if isinstance(s_, tuple) and s_ and s_[0] == "var" and len(s_) > 2]
            if any(isinstance(s_, tuple) and s_ and s_[0] == "call" and s_[2] == acc[0].bb for t_ in ts for s_ in subterms(t_)):
                inline_io.append(c)
                break
    ctx.ob(rule, "%s:no-connection-io-in-the-accept-loop" % label, not inline_io, inline_io[0].site if inline_io else acc[0].site,
           "nothing in the accept loop awaits on an accepted socket" if not inline_io else
           "the accept loop itself awaits `%s` on the socket it has just accepted: a peer that sends its first bytes slowly, incompletely or not at all stalls the loop, and every other connection waits behind it"
           % inline_io[0].norm.split("::")[-1])
    direct = [c for c in body.calls() if (c.norm or "").endswith(handler_suffix)]
    kids = spawned_children(ctx, body.name)
    in_kid = any(any((c.norm or "").endswith(handler_suffix) for c in k.calls()) for k in kids)
    ctx.ob(rule, "%s:connection-in-own-task" % label, in_kid and not direct, acc[0].site, "each connection is handled in a task spawned for it" if in_kid and not direct else
           "connections are handled inline in the accept loop: a slow or panicking connection blocks/ends all others")


def r5_reply_format(ctx):
    body = co(ctx, "R16.5", SK + "send_connection_reply")
    if body is None:
        return
    o = ctx.origins(body)
    from .common import param
    # the reply is a 10-byte vector [5, rep, 0, 1, 0,0,0,0, 0,0]; vec![..] is lowered to a boxed array aggregate
    arr = None
    for bi in sorted(body.reachable()):
        for st in body.blocks[bi]["stmts"]:
            if st["s"] == "assign" and st["rv"]["r"] == "aggregate" and st["rv"]["kind"]["a"] == "array" and len(st["rv"]["ops"]) >= 4:
                arr = [o.of_operand(x) for x in st["rv"]["ops"]]
    if arr is None:
        ctx.missing("R16.5", "reply byte array in send_connection_reply")
        return
    okv = const_value(arr[0]) == 5
    okr = var_name(arr[1]) == param(body, 1)
    okrest = len(arr) == 10 and const_value(arr[2]) == 0 and const_value(arr[3]) == 1 and all(const_value(x) == 0 for x in arr[4:])
    ctx.ob("R16.5", "send_connection_reply:layout", okv and okr and okrest, "", "reply = [VER=5, REP=<reply parameter>, RSV=0, ATYP=1, 0.0.0.0, 0]" if okv and okr and okrest else
           "the SOCKS5 reply is %s: not [5, reply, 0, 1, 0,0,0,0, 0,0]" % [fmt(x)[:12] for x in arr])
    wa = calls_norm(body, "AsyncWriteExt::write_all")
    ctx.ob("R16.5", "send_connection_reply:written-whole", len(wa) == 1, wa[0].site if wa else "", "one write_all of the reply" if len(wa) == 1 else "%d write_all calls" % len(wa))


def r4_isolation(ctx):
    from . import C20
    C20.r14_gauges_released_on_every_exit(ctx)   # a connection limit is given back by failed connections too
    accept_loop_rules(ctx, "R16.4", SK + "start_socks5_server", "socks5::handle_socks5_connection", "socks5")


def r6_a_fully_read_request_is_passed_on(ctx):
    """read_connection_request refuses only what it cannot read or parse (version, address type, length): once the last field
    — the port — has been read, it hands the request to the caller, whatever the values are.  The caller owns the replies
    ('command not supported', the tunnel's failure code); a refusal *here*, after a complete request, ends the connection
    without any reply (`UDP ASSOCIATE 0.0.0.0:0`, the form RFC 1928 tells clients to send, has port 0)"""
    body = co(ctx, "R16.6", SK + "read_connection_request")
    if body is None:
        return
    cfg, o = ctx.cfg(body), ctx.origins(body)
    reads = calls_norm(body, "AsyncReadExt::read_exact", "AsyncReadExt::read_u16", "AsyncReadExt::read_u8", "AsyncReadExt::read")
    last = [r for r in reads if not any(q.bb in cfg.reach_after(r.bb) for q in reads if q.bb != r.bb)]
    if not ctx.floor("R16.6", "final read (the port) of read_connection_request", len(last), 1):
        return
    after = cfg.reach_after(last[0].bb)
    bad = []
    for kind, bi, si, rv in body.defs().get(0, []):
        if bi not in after:
            continue
        if kind == "assign" and rv["r"] == "aggregate" and rv["kind"].get("variant") == "Err":
            bad.append(bi)
        elif kind == "call":
            t = body.blocks[bi]["term"]
            src = o.of_operand(t["args"][0]) if t.get("args") else None
            if not any(isinstance(s_, tuple) and s_ and s_[0] == "call" and len(s_) > 2 and s_[2] == last[0].bb for s_ in subterms(src)):
                bad.append(bi)
    ctx.ob("R16.6", "read_connection_request:nothing-is-refused-after-the-last-field", not bad, last[0].site, "after the port has been read the only failure is that read's own error" if not bad else
           "read_connection_request can return an error after the whole request has been read (line %s): the caller never sees the request, so neither 'command not supported' nor a failure code is sent — "
           "the connection just ends" % body.blocks[bad[0]]["tspan"]["line"])


def run(ctx):
    from . import effects
    effects.check_property(ctx, "C16")    # R16.E: no operation on shared protocol state outside the reviewed table
    from . import C07, C10
    r1_negotiation(ctx)
    r2_connect_only(ctx)
    r3_reads(ctx)
    r6_a_fully_read_request_is_passed_on(ctx)
    r4_isolation(ctx)
    r5_reply_format(ctx)
    C10.r6_front_ends(ctx)
    C10.r1_r2_server(ctx)        # ... and the server's refusal is recognisable as one: a failure SYNACK is never empty (an empty one *is* the success answer)
    C07.r4_plumbing(ctx)         # the destination asked of the server is the address the client named, unchanged (an IPv6 literal is not an authority to be split at its last colon)
    C10.r4_client_wait(ctx)      # 'succeeded' means the server's verdict: create_proxy_stream returns Ok only after the SYNACK wait, for every stream of every session (the peer version is not yet known on a fresh one)
    C07.r3_atyp_tables(ctx)
    C07.r9_decoded_address_is_the_bytes_read(ctx)
