"""C07 — traffic goes to exactly the destination that was requested (structural clauses)."""
import re

from engine.anl.casts import narrowing_casts, check_cast
from engine.anl.origin import fmt, subterms, strip_bb
from engine.anl.prov import MayDepend
from .common import co, calls_norm, is_call_term, phi_alts, contains_var, var_name, render_path

EXPLANATION = (
    "Static decision of the destination plumbing: (R07.1) every Ok(SocketAddr) returned by resolve_host_with_cache "
    "data-depends on the requested port (a cache hit must not answer with the port of the request that filled the cache); "
    "(R07.2) only big-endian APIs on multi-byte wire fields anywhere in the crate; (R07.3) the five sibling address codecs "
    "agree on the ATYP table {1->4 bytes, 4->16 bytes, 3->length-prefixed} with a 2-byte port last; (R07.4) the parsed "
    "(host, port) reaches create_proxy_stream / the encoder / the dial / every send_to by identity; (R07.5) the domain "
    "length cast is range-guarded; (R07.6) the resolver is consulted only on the Err edge of the IP-literal parse. "
    "Not decided: the resolver itself, cache expiry timing, byte-for-byte equality of the address."
)
RULE_TEXT = ("one obligation per Ok-return of the resolver, per endian-sensitive call, per codec and table row, per plumbing hop; "
             "non-trivial = needed a provenance, origin or dominance query on a matched site")

RESOLVE = "util::dns_cache::resolve_host_with_cache"

BE_LAST = {"to_be_bytes", "from_be_bytes", "put_u16", "put_u32", "put_u64", "put_u128", "put_i16", "put_i32", "put_i64",
           "get_u16", "get_u32", "get_u64", "get_u128", "get_i16", "get_i32", "get_i64", "read_u16", "read_u32", "read_u64",
           "write_u16", "write_u32", "write_u64"}
NONBE_RE = re.compile(r"(_le|_ne)$|^(to|from)_(le|ne)_bytes$|^swap_bytes$|^(to|from)_le$|^reverse_bits$")


def r1_port_dependence(ctx):
    body = co(ctx, "R07.1", RESOLVE)
    if body is None:
        return
    md = MayDepend(body)
    n = 0
    for kind, bi, si, rv in body.defs().get(0, []):
        if kind != "assign" or rv["r"] != "aggregate" or rv["kind"].get("variant") != "Ok":
            continue
        n += 1
        src = set()
        for op in rv["ops"]:
            src |= md.operand_sources(op)
        line = body.blocks[bi]["stmts"][si]["span"]
        o = ctx.origins(body)
        t = o.of_operand(rv["ops"][0]) if rv["ops"] else None
        label = "cache-hit" if any(is_call_term(s, "DnsCache::get") for s in subterms(t)) else \
            ("ip-literal" if any(is_call_term(s, "SocketAddr::new") for s in subterms(t)) and not any(is_call_term(s, "lookup_ip", "lookup_host") for s in subterms(t)) else "resolved")
        ok = "port" in src
        ctx.ob("R07.1", "resolve_host_with_cache:Ok[%s]" % label, ok, "src/util/dns_cache.rs:%s" % line["line"],
               "returned address depends on {%s}" % ",".join(sorted(src)) if ok else
               "this Ok(SocketAddr) does not depend on the `port` parameter (depends on {%s}): request host:80 then host:443 within the cache TTL "
               "and the second is dialled at :80" % ",".join(sorted(src)))
    ctx.floor("R07.1", "Ok returns of resolve_host_with_cache", n, 3)


def r2_byte_order(ctx):
    be = 0
    for key, body in ctx.P.scan():
        for c in body.calls(True):
            last = (c.callee or "").split("::")[-1]
            if last in BE_LAST:
                be += 1
                ctx.ob("R07.2", "%s|%s#%d" % (key, last, be), True, c.site, "big-endian API %s" % c.callee, nontrivial=False)
            elif NONBE_RE.search(last) and ("num::" in (c.callee or "") or "bytes::Buf" in (c.callee or "") or "AsyncReadExt" in (c.callee or "") or "AsyncWriteExt" in (c.callee or "")):
                ctx.ob("R07.2", "%s|%s" % (key, last), False, c.site,
                       "non-big-endian integer API `%s` in the crate: every multi-byte wire field of the protocol (frame header, ports, length prefixes) is big-endian" % c.callee)
    ctx.floor("R07.2", "big-endian integer API call sites (matcher self-check)", be, 20)


# ---------- R07.3 ATYP table ----------
def _arm_region(cfg, start, stop):
    return cfg.reach([start], avoid_blocks=[stop] if stop is not None else [])


def _buf_len_of(body, o, term):
    """fixed byte width of a read_exact buffer argument: [u8; N] variable -> N; vec![0; len] -> 'len'"""
    if isinstance(term, tuple) and term[0] == "var" and len(term) > 2:
        ty = body.lty(term[2])
        if ty.get("k") == "array":
            return int(ty["len"]) if ty.get("len") is not None else None
        if ty.get("adt") == "std::vec::Vec":
            return "len"
    return None


def _decoder_table(ctx, body, rule, name):
    """{atyp value: [buffer widths read in that arm]} + widths read after the match"""
    cfg = ctx.cfg(body)
    conds = ctx.conds(body)
    o = ctx.origins(body)
    sw = None
    for c in conds.all():
        if c.kind == "int" and {1, 3, 4} <= {v for vs in c.by_succ.values() for v in vs if isinstance(v, int)}:
            sw = c
            break
        if c.kind == "int" and len([v for vs in c.by_succ.values() for v in vs if isinstance(v, int)]) >= 3 and "atyp" in fmt(c.term):
            sw = c
            break
    if sw is None:
        ctx.missing(rule, "%s: switch on the address-type byte" % name)
        return None
    reads = calls_norm(body, "::read_exact")
    # what follows the match is what every accepting arm reaches; an arm's own part is the rest of what it reaches.  Reads are
    # put in execution order by their depth in the dominator tree (block numbers say nothing once a helper has been spliced in)
    idom = cfg.idom()

    def depth(b):
        d, seen = 0, set()
        while b in idom and idom[b] != b and b not in seen and idom[b] is not None:
            seen.add(b)
            b = idom[b]
            d += 1
        return d
    reach_of = {s: cfg.reach([s]) for s in sw.by_succ}
    accepting = [s for s, vals in sw.by_succ.items() if any(isinstance(v, int) for v in vals) and any(r.bb in reach_of[s] for r in reads)]
    common = set.intersection(*[reach_of[s] for s in accepting]) if accepting else set()
    table = {}
    for s, vals in sw.by_succ.items():
        region = reach_of[s] - common
        widths = []
        for r in sorted(reads, key=lambda r: (depth(r.bb), r.bb)):
            if r.bb in region and len(r.args) > 1:
                widths.append(_buf_len_of(body, o, o.of_operand(r.args[1])))
        for v in vals:
            table[v] = widths
    after = []
    for r in sorted(reads, key=lambda r: (depth(r.bb), r.bb)):
        if r.bb in common and len(r.args) > 1:
            after.append(_buf_len_of(body, o, o.of_operand(r.args[1])))
    return table, after, sw


def _norm_dec(widths):
    """arm widths -> canonical row: address width, and whether the arm itself reads the 2-byte port"""
    w = list(widths)
    port_in_arm = False
    if w and w[-1] == 2:
        port_in_arm = True
        w = w[:-1]
    if w == [4]:
        return "4", port_in_arm
    if w == [16]:
        return "16", port_in_arm
    if w == [1, "len"]:
        return "len8", port_in_arm
    return "?%s" % (w,), port_in_arm


def _encoder_rows(ctx, body, rule, name):
    """rows {atyp const: kind} recovered from an encoder: the nearest dominating one-byte constant write before
    Ipv4Addr::octets / Ipv6Addr::octets / a one-byte length cast"""
    cfg = ctx.cfg(body)
    o = ctx.origins(body)
    byte_writes = []  # (bb, const)
    for c in calls_norm(body, "Vec::push", "BufMut::put_u8"):
        if len(c.args) > 1:
            t = o.of_operand(c.args[1])
            if isinstance(t, tuple) and t[0] == "const" and t[1] is not None:
                byte_writes.append((c.bb, t[1]))
    rows = {}

    def nearest(bb, skip=0):
        # walk the dominator tree upwards; among dominating byte writes take the closest
        idom = cfg.idom()
        cur = bb
        seen = 0
        while True:
            for (wb, val) in byte_writes:
                if wb == cur:
                    if seen == skip:
                        return val
                    seen += 1
            nx = idom.get(cur)
            if nx is None or nx == cur:
                return None
            cur = nx

    for c in body.calls(True):
        n = c.norm or ""
        if n.endswith("Ipv4Addr::octets"):
            rows[nearest(c.bb)] = "4"
        elif n.endswith("Ipv6Addr::octets"):
            rows[nearest(c.bb)] = "16"
    # domain: a push of `len() as u8` (the length prefix)
    for c in calls_norm(body, "Vec::push", "BufMut::put_u8"):
        if len(c.args) > 1:
            t = o.of_operand(c.args[1])
            if isinstance(t, tuple) and t[0] == "cast" and t[2] == "u8":
                rows[nearest(c.bb)] = "len8"
    # port: 2-byte big-endian write
    port = bool(calls_norm(body, "::to_be_bytes")) or bool(calls_norm(body, "BufMut::put_u16"))
    return rows, port


EXPECT = {1: "4", 4: "16", 3: "len8"}


def r3_atyp_tables(ctx):
    decs = [("server::handler::read_socks_addr", "read_socks_addr"),
            ("client::socks5::read_connection_request", "read_connection_request"),
            ("server::udp_proxy::read_initial_request", "read_initial_request")]
    encs = [("client::client::Client::create_proxy_stream", "create_proxy_stream", (1, 3, 4)),
            ("client::udp_client::encode_initial_request", "encode_initial_request", (1, 4))]
    for path, name in decs:
        body = co(ctx, "R07.3", path)
        if body is None:
            continue
        res = _decoder_table(ctx, body, "R07.3", name)
        if res is None:
            continue
        table, after, sw = res
        for v, want in EXPECT.items():
            if v not in table:
                ctx.ob("R07.3", "%s:atyp=%d" % (name, v), False, "", "decoder %s has no arm for address type %d" % (name, v))
                continue
            got, port_in_arm = _norm_dec(table[v])
            port_ok = port_in_arm or (after and after[-1] == 2)
            ok = got == want and port_ok
            ctx.ob("R07.3", "%s:atyp=%d" % (name, v), ok, "src:%s" % body.blocks[sw.block]["tspan"]["line"],
                   "arm reads %s then a 2-byte port" % table[v] if ok else
                   "decoder %s reads %s (+%s after the match) for address type %d; the sibling codecs use %s followed by a 2-byte port" % (name, table[v], after, v, want))
        other = [v for v in table if v not in EXPECT and v != "otherwise"]
        ctx.ob("R07.3", "%s:no-extra-types" % name, not other, "", "only types 1,3,4 are accepted" if not other else "extra address types accepted: %s" % other)
    for path, name, kinds in encs:
        body = ctx.P.bodies.get(path + "::{closure#0}") or ctx.P.bodies.get(path)
        if body is None:
            ctx.missing("R07.3", path)
            continue
        ctx.bodies_touched.add(body.name)
        rows, port = _encoder_rows(ctx, body, "R07.3", name)
        for v in kinds:
            got = rows.get(v)
            ok = got == EXPECT[v]
            ctx.ob("R07.3", "%s:atyp=%d" % (name, v), ok, "", "encoder writes type byte %d before a %s address" % (v, EXPECT[v]) if ok else
                   "encoder %s pairs address kind %s with type byte(s) %s; decoders expect %d" % (name, EXPECT[v], [k for k, x in rows.items() if x == EXPECT[v]], v))
        ctx.ob("R07.3", "%s:port" % name, port, "", "2-byte big-endian port written" if port else "no 2-byte big-endian port write found")


# ---------- R07.4 identity plumbing ----------
def tb_push(body, o):
    return calls_norm(body, "Vec::push")


def r9_decoded_address_is_the_bytes_read(ctx):
    """each decoder turns exactly the bytes it read into the address: V4(from([u8;4])), V6(from([u8;16])), from_utf8(domain)"""
    for path, name in (("server::handler::read_socks_addr", "read_socks_addr"), ("client::socks5::read_connection_request", "read_connection_request"),
                       ("server::udp_proxy::read_initial_request", "read_initial_request")):
        body = co(ctx, "R07.9", path)
        if body is None:
            continue
        o = ctx.origins(body)
        n = 0
        for c in body.calls():
            nm = c.norm or ""
            if nm.endswith("From<[u8; 4]>>::from") or nm.endswith("From<[u8; 16]>>::from"):
                n += 1
                width = 4 if "[u8; 4]" in nm else 16
                a = o.of_operand(c.args[0])
                okb = isinstance(a, tuple) and a[0] == "var" and len(a) > 2 and body.lty(a[2]).get("s") == "[u8; %d]" % width
                # what is done with the address: only wrapped (IpAddr::V4/V6, SocketAddr::from, to_string) — never transformed
                users = []
                for c2 in body.calls():
                    for a2 in c2.args:
                        t2 = o.of_operand(a2)
                        if any(isinstance(s, tuple) and s[0] == "call" and s[2] == c.bb for s in subterms(t2)) and c2.bb != c.bb:
                            users.append(c2)
                bad = [u for u in users if (u.norm or "").split("::")[-1] not in ("to_string", "from", "new", "fmt", "new_display", "new_debug", "into", "clone", "eq", "ne") ]
                ctx.ob("R07.9", "%s:ipv%d-is-the-bytes-read#%d" % (name, 4 if width == 4 else 6, n), okb and not bad, c.site,
                       "the %d address bytes read are converted and used as they are" % width if okb and not bad else
                       "the %d-byte address read by %s is passed through `%s` before use: some addresses are rewritten (e.g. ::1 -> 0.0.0.1 via to_ipv4())" % (width, name, (bad[0].norm if bad else fmt(a))[:60]))
        ctx.floor("R07.9", "%s: IPv4/IPv6 conversions" % name, n, 2)


def r4_plumbing(ctx):
    P = ctx.P
    # (a) SOCKS5 front-end: create_proxy_stream((dest.addr, dest.port)) with dest = read_connection_request(..).0
    body = co(ctx, "R07.4", "client::socks5::handle_socks5_connection")
    if body is not None:
        o = ctx.origins(body)
        cs = calls_norm(body, "Client::create_proxy_stream")
        if ctx.floor("R07.4", "socks5 create_proxy_stream call", len(cs), 1):
            t = o.of_operand(cs[0].args[1])
            ok = isinstance(t, tuple) and t[0] == "agg" and len(t[3]) == 2 and all(
                any(is_call_term(s, "socks5::read_connection_request") for s in subterms(x)) for x in t[3]) and \
                "addr" in fmt(t[3][0]) and "port" in fmt(t[3][1])
            ctx.ob("R07.4", "socks5:request->create_proxy_stream", ok, cs[0].site,
                   "destination tuple is (request.addr, request.port) of read_connection_request" if ok else
                   "the destination given to create_proxy_stream is not the parsed request: %s" % fmt(t)[:200])
    # (b) HTTP front-end
    body = co(ctx, "R07.4", "client::http_proxy::handle_http_proxy_connection")
    if body is not None:
        o = ctx.origins(body)
        cs = calls_norm(body, "Client::create_proxy_stream")
        if ctx.floor("R07.4", "http create_proxy_stream call", len(cs), 1):
            t = o.of_operand(cs[0].args[1])
            f = fmt(t)
            ok = isinstance(t, tuple) and t[0] == "agg" and len(t[3]) == 2 and "parse_http_request" in f and ".host" in fmt(t[3][0]) and ".port" in fmt(t[3][1])
            ctx.ob("R07.4", "http:request->create_proxy_stream", ok, cs[0].site,
                   "destination tuple is (request.host, request.port) of parse_http_request" if ok else
                   "the destination given to create_proxy_stream is not the parsed request: %s" % f[:200])
    # (c) client encoder: bytes come from destination.0 / destination.1
    body = co(ctx, "R07.4", "client::client::Client::create_proxy_stream")
    if body is not None:
        o = ctx.origins(body)
        tb = calls_norm(body, "::to_be_bytes")
        ok = bool(tb) and all(var_name(o.of_operand(c.args[0])) == "destination.1" for c in tb)
        ctx.ob("R07.4", "client-encoder:port", ok, tb[0].site if tb else "", "port bytes are to_be_bytes(destination.1)" if ok else
               "the encoded port is not the requested port: %s" % [fmt(o.of_operand(c.args[0])) for c in tb])
        parses = calls_norm(body, "str::parse") or [c for c in body.calls(True) if (c.norm or "").endswith("::parse")]
        okp = len(parses) >= 2 and all(var_name(o.of_operand(c.args[0])) == "destination.0" for c in parses)
        ctx.ob("R07.4", "client-encoder:host-literals", okp, parses[0].site if parses else "", "both literal parses read destination.0" if okp else "address literal parse does not read the requested host")
        # the address bytes under each type byte are those of the literal parsed from destination.0, nothing derived from it
        for fam, pty in (("Ipv4Addr", "Ipv4Addr"), ("Ipv6Addr", "Ipv6Addr")):
            for c in [c for c in body.calls() if (c.norm or "").endswith(fam + "::octets")]:
                recv = o.of_operand(c.args[0])
                okf = is_call_term(recv, "::parse") and var_name(recv[3][0]) == "destination.0"
                ctx.ob("R07.4", "client-encoder:%s-bytes-are-the-parsed-literal" % fam, okf, c.site, "octets() of parse::<%s>(destination.0)" % fam if okf else
                       "the %s bytes that are encoded come from `%s`, not directly from the parsed destination literal: some addresses are rewritten on the way (e.g. an IPv6 literal mapped/truncated to IPv4)" % (fam, fmt(recv)[:100]))
        ext = [c for c in calls_norm(body, "Vec::extend_from_slice") if len(c.args) > 1]
        srcs = [fmt(o.of_operand(c.args[1])) for c in ext]
        okd = any(s == "destination.0" for s in srcs)
        ctx.ob("R07.4", "client-encoder:domain-bytes", okd, "", "domain bytes are destination.0" if okd else "no extend_from_slice(destination.0) found: %s" % srcs)
        wd = calls_norm(body, "Session::write_data_frame")
        # the vector the address was assembled in (receiver of the extend_from_slice/push calls) is what is sent
        asm = {o.of_operand(c.args[0])[2] for c in ext + tb_push(body, o) if isinstance(o.of_operand(c.args[0]), tuple) and len(o.of_operand(c.args[0])) > 2}
        okw = bool(wd) and any(any(isinstance(s, tuple) and s[0] == "var" and len(s) > 2 and s[2] in asm for s in subterms(o.of_operand(c.args[2]))) for c in wd)
        ctx.ob("R07.4", "client-encoder:sent", okw, wd[0].site if wd else "", "the encoded address is what write_data_frame sends" if okw else "write_data_frame does not send the encoded address")
    # (d) server: handler passes the decoded destination on; the dial uses it
    body = ctx.P.bodies.get("<server::handler::TcpProxyHandler as server::handler::StreamHandler>::handle_stream::{closure#0}")
    if body is None:
        ctx.missing("R07.4", "TcpProxyHandler::handle_stream async block")
    else:
        ctx.bodies_touched.add(body.name)
        o = ctx.origins(body)
        cs = calls_norm(body, "proxy_tcp_connection_with_synack_internal")
        if ctx.floor("R07.4", "handler -> proxy call", len(cs), 1):
            t = o.of_operand(cs[0].args[4])
            ok = is_call_term(t, "handler::read_socks_addr")
            ctx.ob("R07.4", "server:decoded->proxy", ok, cs[0].site, "the proxy function receives the result of read_socks_addr" if ok else "destination passed to the proxy is %s" % fmt(t)[:160])
    body = co(ctx, "R07.4", "server::handler::read_socks_addr")
    if body is not None:
        o = ctx.origins(body)
        rets = [(bi, rv) for kind, bi, si, rv in body.defs().get(0, []) if kind == "assign" and rv["r"] == "aggregate" and rv["kind"].get("variant") == "Ok"]
        okr = False
        det = ""
        for bi, rv in rets:
            t = o.of_operand(rv["ops"][0])
            det = fmt(t)[:200]
            if isinstance(t, tuple) and t[0] == "agg" and t[1].endswith("SocksAddr") and len(t[3]) == 2:
                port = t[3][1]
                # port = u16::from_be_bytes(<the [u8; 2] buffer filled by the last read_exact>)
                rds = sorted(calls_norm(body, "::read_exact"), key=lambda c: c.bb)
                last_buf = o.of_operand(rds[-1].args[1]) if rds else None
                okr = is_call_term(port, "::from_be_bytes") and last_buf is not None and strip_bb(port[3][0]) == strip_bb(last_buf) and isinstance(last_buf, tuple) and len(last_buf) > 2 and body.lty(last_buf[2]).get("s") == "[u8; 2]"
        ctx.ob("R07.4", "server:decoder-result", okr, "", "SocksAddr{addr, port=from_be_bytes(port_buf)}" if okr else "decoder result is %s" % det)
    body = co(ctx, "R07.4", "server::handler::proxy_tcp_connection_with_synack_internal")
    if body is not None:
        o = ctx.origins(body)
        cfg = ctx.cfg(body)
        conds = ctx.conds(body)
        con = calls_norm(body, "TcpStream::connect")
        if ctx.floor("R07.4", "TcpStream::connect in the proxy function", len(con), 1):
            t = o.of_operand(con[0].args[0])
            alts = phi_alts(t)
            good = []
            for a in alts:
                if is_call_term(a, "SocketAddr::new"):
                    good.append(len(a[3]) == 2 and var_name(a[3][1]) == "destination.port" and any(is_call_term(s, "::parse") and var_name(s[3][0]) == "destination.addr" for s in subterms(a[3][0])))
                elif is_call_term(a, RESOLVE):
                    good.append(len(a[3]) == 2 and var_name(a[3][0]) == "destination.addr" and var_name(a[3][1]) == "destination.port")
                else:
                    good.append(False)
            ok = bool(alts) and all(good) and len(alts) == 2
            ctx.ob("R07.4", "server:dial-target", ok, con[0].site,
                   "connect() dials SocketAddr::new(parse(destination.addr), destination.port) | resolve(destination.addr, destination.port)" if ok else
                   "the dialled address is not built from the decoded destination: %s" % fmt(t)[:260])
        # R07.6 literal bypass
        res = calls_norm(body, "resolve_host_with_cache")
        err_edges = []
        for c in conds.all():
            if c.kind == "variant" and is_call_term(c.term, "::parse") and var_name(c.term[3][0]) == "destination.addr":
                err_edges += c.edges_for("Err")
        if res and err_edges:
            ok6 = all(cfg.edges_dominate(err_edges, r.bb) for r in res)
            ctx.ob("R07.6", "server:resolver-only-for-names", ok6, res[0].site, "the resolver call is dominated by the Err edge of parse::<IpAddr>(destination.addr)" if ok6 else
                   "resolve_host_with_cache is reachable for IP literals (not dominated by the parse Err edge)")
        else:
            ctx.missing("R07.6", "resolver call / IP-literal parse in the proxy function")
    # (e) UDP: the initial request's address is every send_to target
    body = co(ctx, "R07.4", "server::udp_proxy::handle_udp_over_tcp")
    if body is not None:
        o = ctx.origins(body)
        cs = calls_norm(body, "udp_proxy::stream_to_udp")
        if ctx.floor("R07.4", "stream_to_udp call", len(cs), 1):
            t = o.of_operand(cs[0].args[2])
            ok = is_call_term(t, "udp_proxy::read_initial_request")
            ctx.ob("R07.4", "udp-server:target<-initial-request", ok, cs[0].site, "stream_to_udp is given the address returned by read_initial_request" if ok else "target is %s" % fmt(t)[:160])
    body = co(ctx, "R07.4", "server::udp_proxy::stream_to_udp")
    if body is not None:
        o = ctx.origins(body)
        st = calls_norm(body, "UdpSocket::send_to")
        if ctx.floor("R07.4", "send_to in stream_to_udp", len(st), 1):
            ok = all(var_name(o.of_operand(c.args[2])) == "target_addr" for c in st)
            ctx.ob("R07.4", "udp-server:send_to-target", ok, st[0].site, "every send_to goes to the target_addr parameter" if ok else "send_to target is %s" % [fmt(o.of_operand(c.args[2])) for c in st])
    body = co(ctx, "R07.4", "server::udp_proxy::read_initial_request")
    if body is not None:
        o = ctx.origins(body)
        rs = calls_norm(body, "resolve_host_with_cache")
        if rs:
            t1 = o.of_operand(rs[0].args[1])
            ok = is_call_term(t1, "::from_be_bytes")
            ctx.ob("R07.4", "udp-server:domain-port", ok, rs[0].site, "resolver is given the decoded port" if ok else "resolver port is %s" % fmt(t1))


def r7_cache_discipline(ctx):
    """the resolver cache: entries are keyed by the requested host; an entry's expiry is fixed when it is inserted"""
    body = co(ctx, "R07.7", RESOLVE)
    if body is not None:
        o = ctx.origins(body)
        n = 0
        for c in calls_norm(body, "DnsCache::get", "DnsCache::advance", "DnsCache::insert"):
            n += 1
            k = o.of_operand(c.args[1])
            ok = var_name(k) == "host" or (is_call_term(k, "::to_string", "::to_owned", "String::from") and var_name(k[3][0]) == "host")
            ctx.ob("R07.7", "resolve:cache-key|%s#%d" % (c.norm.split("::")[-1], n), ok, c.site, "cache accessed under the requested host" if ok else "cache %s keyed by `%s`, not by the requested host" % (c.norm.split("::")[-1], fmt(k)[:60]))
        ctx.floor("R07.7", "cache accesses in resolve_host_with_cache", n, 4)
    writers = []
    for key, b in ctx.P.scan():
        if not key.startswith("util::dns_cache::"):
            continue
        for bi in b.reachable():
            for st in b.blocks[bi]["stmts"]:
                if st["s"] == "assign" and st["place"]["proj"]:
                    fl = [e for e in st["place"]["proj"] if e["p"] == "field"]
                    if fl and fl[-1].get("name") == "expires_at":
                        writers.append((key, st["span"]["line"]))
    ctx.ob("R07.8", "dns-cache:expiry-fixed-at-insert", not writers, "", "CacheEntry.expires_at is set only by the struct literal in DnsCache::insert" if not writers else
           "CacheEntry.expires_at is re-assigned in %s (line %s): the lifetime becomes sliding, so a name that is requested regularly is never resolved again and requests keep going to an address that no longer belongs to the name" % (writers[0][0].split("::{closure")[0], writers[0][1]))
    ins = co(ctx, "R07.8", "util::dns_cache::DnsCache::insert")
    if ins is not None:
        oi = ctx.origins(ins)
        ok = False
        for bi in ins.reachable():
            for st in ins.blocks[bi]["stmts"]:
                if st["s"] == "assign" and st["rv"]["r"] == "aggregate" and st["rv"]["kind"].get("adt", "").endswith("CacheEntry"):
                    ops = {f: oi.of_operand(op) for f, op in zip(st["rv"]["kind"]["fields"], st["rv"]["ops"])}
                    e = ops.get("expires_at")
                    ok = any(is_call_term(s, "Instant::now") for s in subterms(e)) and "DEFAULT_TTL" in fmt(e)
        ctx.ob("R07.8", "dns-cache:entry-expires-after-TTL", ok, "", "expires_at = Instant::now() + DEFAULT_TTL at insertion" if ok else "a cache entry's expiry is not now + DEFAULT_TTL")
    g = co(ctx, "R07.8", "util::dns_cache::DnsCache::get")
    if g is not None:
        cg_ = ctx.conds(g)
        ok = any(c.kind == "bool" and "expires_at" in fmt(c.term) and any(is_call_term(s, "Instant::now") for s in subterms(c.term)) for c in cg_.all())
        ctx.ob("R07.8", "dns-cache:get-honours-expiry", ok, "", "get() compares now with the entry's expires_at" if ok else "DnsCache::get does not test the entry's expiry")


def r5_domain_len(ctx):
    body = co(ctx, "R07.5", "client::client::Client::create_proxy_stream")
    if body is None:
        return
    cfg, conds, o = ctx.cfg(body), ctx.conds(body), ctx.origins(body)
    cs = [c for c in narrowing_casts(body) if c["to"] == "u8"]
    if not ctx.floor("R07.5", "usize->u8 domain length cast in create_proxy_stream", len(cs), 1):
        return
    for c in cs:
        ok, det, term = check_cast(body, cfg, conds, o, c)
        ctx.ob("R07.5", "create_proxy_stream:domain-len-cast", ok, "src/client/client.rs:%s" % c["line"], det)


IP_PREDICATES = ("is_broadcast", "is_multicast", "is_loopback", "is_private", "is_unspecified", "is_link_local", "is_documentation", "is_global", "is_unique_local", "is_unicast_link_local", "is_benchmarking",
                 "is_reserved", "is_shared")


def r10_no_judgement_on_the_destination(ctx):
    """the proxy goes where it is told: no code looks at *which* address was requested to decide whether to serve it (address
    classes, the value of an octet) — x.y.z.255 is an ordinary host outside a /24, loopback and private ranges are what a proxy
    inside a network is for. `octets()` is used to encode addresses; a comparison on one octet is a judgement"""
    n = 0
    bad = []
    for key, body in ctx.P.scan():
        if key.startswith(("anytls_", "util::cert", "util::tls")):
            continue
        o = None
        for c in body.calls():
            last = (c.norm or "").split("::")[-1]
            if last in IP_PREDICATES and ("Ipv4Addr" in (c.norm or "") or "Ipv6Addr" in (c.norm or "") or "IpAddr" in (c.norm or "") or "SocketAddr" in (c.norm or "")):
                bad.append((key, c, last))
            if last in ("octets", "segments"):
                n += 1
        # a condition on an octet of an address
        for cd in ctx.conds(body).all():
            if cd.kind in ("bool", "int") and any(is_call_term(s_, "::octets", "::segments") for s_ in subterms(cd.term)):
                bad.append((key, None, "a test of `%s`" % fmt(cd.term)[:50]))
    ctx.ob("R07.10", "crate:no-judgement-on-the-requested-address", not bad, bad[0][1].site if bad and bad[0][1] is not None else "",
           "%d uses of octets()/segments(), all to encode addresses; no address-class predicate" % n if not bad else
           "%s decides on %s: destinations in that class are refused or treated differently although they were requested like any other (an IPv4 address ending in .255 is not a broadcast address unless the network is a /24)"
           % (ctx.P.owner(bad[0][0]), bad[0][2]))
    # ... and names: the resolver decides what is a resolvable name.  Every refusal of resolve_host_with_cache comes after a
    # resolver has been asked (lookup_ip / lookup_host); a syntax filter in front of it (letters first, no underscore, ...) turns
    # away names that exist — `0.pool.ntp.org`, `163.com`
    rb = ctx.body("R07.10", "util::dns_cache::resolve_host_with_cache::{closure#0}")
    if rb is not None:
        cfg = ctx.cfg(rb)
        asks = calls_norm(rb, "::lookup_ip", "net::lookup_host", "::lookup")
        if ctx.floor("R07.10", "resolver calls in resolve_host_with_cache", len(asks), 1):
            errs = [bi for kind, bi, si, rv in rb.defs().get(0, []) if not (kind == "assign" and rv["r"] == "aggregate" and rv["kind"].get("variant") == "Ok")
                    and not (kind == "assign" and rv["r"] == "use")]
            ok, p = cfg.must_pass([0], errs, via_blocks=[c.bb for c in asks])
            ctx.ob("R07.10", "resolve_host_with_cache:refuses-only-what-the-resolver-refused", ok, asks[0].site, "no error return is reachable without having asked a resolver" if ok else
                   "resolve_host_with_cache can refuse a name without asking any resolver (a syntax check in front of it): names the check does not like but that exist (a label starting with a digit, an underscore) "
                   "are never dialled although they were requested like any other", path=None if ok else render_path(rb, p)[:12])


def r11_resolvers_consult_the_same_sources(ctx):
    """the resolver built for operator-supplied DNS servers answers from the same sources as the system resolver it replaces —
    the hosts file first: no code switches `use_hosts_file` off (a name the operator pinned in /etc/hosts would be resolved
    upstream and dialled at another machine's address as soon as custom servers are configured)"""
    bad = []
    n = 0
    for key, body in ctx.P.scan():
        if not key.startswith("util::dns_cache::"):
            continue
        n += 1
        for bi in sorted(body.reachable()):
            for st in body.blocks[bi]["stmts"]:
                if st["s"] == "assign" and st["place"]["proj"] and st["place"]["proj"][-1].get("p") == "field" and st["place"]["proj"][-1].get("name") in ("use_hosts_file", "ip_strategy", "ndots", "num_concurrent_reqs") \
                        and st["place"]["proj"][-1].get("name") == "use_hosts_file":
                    rv = st["rv"]
                    val = rv.get("op", {}).get("c", {}).get("disp") if rv.get("r") == "use" else None
                    if str(val) != "true":
                        bad.append((key, st["span"]["line"]))
    # ... and over the same transports: every configured server is registered for UDP *and* TCP — a truncated UDP answer (a large
    # record set) is retried over TCP; with the TCP entry dropped as a "duplicate" such names resolve to nothing and are never dialled
    protos = set()
    for key, body in ctx.P.scan():
        if not key.startswith("util::dns_cache::set_custom_dns_servers"):
            continue
        for bi in sorted(body.reachable()):
            for st in body.blocks[bi]["stmts"]:
                if st["s"] == "assign" and st["rv"]["r"] == "aggregate" and str(st["rv"]["kind"].get("adt", "")).endswith("Protocol") and "config" in str(st["rv"]["kind"].get("adt", "")):
                    protos.add(st["rv"]["kind"].get("variant"))
    if protos:
        ctx.ob("R07.11", "dns_cache:custom-servers-are-registered-for-udp-and-tcp", {"Udp", "Tcp"} <= protos, "src/util/dns_cache.rs",
               "each custom server gets a UDP and a TCP entry" if {"Udp", "Tcp"} <= protos else
               "custom DNS servers are registered for %s only: an answer that does not fit a UDP datagram comes back truncated and cannot be retried over TCP, so names with large record sets resolve to "
               "nothing and are never dialled once --dns is used" % sorted(protos))
    else:
        ctx.missing("R07.11", "NameServerConfig protocol entries in set_custom_dns_servers")
    ctx.floor("R07.11", "bodies of util::dns_cache examined", n, 3)
    ctx.ob("R07.11", "dns_cache:custom-resolver-honours-the-hosts-file", not bad, "src/util/dns_cache.rs:%s" % bad[0][1] if bad else "",
           "no resolver option that changes where names are looked up is altered" if not bad else
           "%s switches `use_hosts_file` off for the custom-server resolver: with DNS servers configured, a name pinned in /etc/hosts is resolved upstream and the connection goes to another machine than "
           "without them" % ctx.P.owner(bad[0][0]).split("::")[-1])


def run(ctx):
    r10_no_judgement_on_the_destination(ctx)
    from . import effects
    effects.check_property(ctx, "C07")    # R07.E: no operation on shared protocol state outside the reviewed table
    from . import C17
    C17.r6_target_derivation(ctx)    # the HTTP front-end: which host:port a request names (absolute form, Host header, default ports)
    C17.r9_host_field_name_any_case(ctx)     # the Host line is recognised by its field *name* (what precedes the colon), in any case — not by a substring that other headers contain too
    C17.r10_no_test_that_cannot_match(ctx)   # the explicit port of an authority is used: no branch that extracts it is dead by construction
    r11_resolvers_consult_the_same_sources(ctx)
    C17.r7_parsing_totality(ctx)
    from . import C16 as _C16d
    _C16d.r3_reads(ctx)              # the SOCKS5 greeting is consumed exactly (NMETHODS bytes): what follows it — the request naming the destination — is not swallowed
    C17.r3b_scan_window(ctx)         # the head of an HTTP request is recognised wherever the reads cut it, so that its destination is extracted at all
    from . import C01 as _C01f
    _C01f.r17_fill_loops_write_at_the_cursor(ctx)   # the address bytes are assembled in order even when a frame boundary falls inside the address, the name or the port
    r1_port_dependence(ctx)
    r2_byte_order(ctx)
    r3_atyp_tables(ctx)
    r4_plumbing(ctx)
    r9_decoded_address_is_the_bytes_read(ctx)
    r7_cache_discipline(ctx)
    r5_domain_len(ctx)
