"""C01 — every stream is a lossless, ordered, exact byte pipe (structural clauses)."""
from engine.anl.casts import narrowing_casts, check_cast, guard_bounds, range_of
from engine.anl.origin import fmt, subterms, strip_bb
from .common import S, co, calls_norm, is_call_term, var_name, render_path, phi_alts
from . import C03

EXPLANATION = (
    "Static decision of the conditions without which bytes are lost, duplicated or truncated on some path: (R01.1) the "
    "payload-length cast of the frame encoder is range-guarded; (R01.2) every payload handed to Frame::data by "
    "Session::write_data_frame is at most 65535 bytes on every path (chunking); (R01.3) the receive buffer of recv_loop is "
    "created outside every cycle and inside the loop is only touched by read_buf (append) and decode; (R01.4) after a "
    "decoded frame control returns to decode before the next transport read (all complete frames are drained); (R01.5) the "
    "PSH arm forwards exactly frame.data; (R01.6) StreamReader::read keeps the unread remainder and drains exactly what it "
    "copied; (R01.7) a 0-byte read can only mean EOF (empty chunks are skipped); (R01.8) one forwarder owns the outbound "
    "queue and passes (id, chunk) unchanged to write_data_frame; (R01.9) every write to the transport or to a proxied socket uses a "
    "whole-buffer API (write_all), never a single-shot partial write. Not decided: byte-for-byte equality of payloads."
)
RULE_TEXT = "one obligation per cast, per Frame::data call, per buffer mutator, per loop edge, per copy/drain pair; non-trivial = needed a range, dominance, cycle or origin query"

READ = "session::stream_reader::StreamReader::read"
MAXP = 65535


def r1_encode_cast(ctx):
    enc = ctx.body("R01.1", C03.ENC)
    if enc is None:
        return
    cfg, conds, o = ctx.cfg(enc), ctx.conds(enc), ctx.origins(enc)
    casts = [c for c in narrowing_casts(enc) if c["to"] == "u16"]
    if not casts:
        le_ = [x for x in C03.layout(ctx, enc, "put") if x[0] == "put_u16"]
        if le_ and C03.checked_len_conversion(le_[0][3][1]):
            ctx.ob("R01.1", "encode:payload-length-cast", True, le_[0][2].site, "the length field is u16::try_from(item.data.len())?: lossless, and an oversized payload is an error")
            return
    if not ctx.floor("R01.1", "usize->u16 cast in encode", len(casts), 1):
        return
    for c in casts:
        ok, det, _ = check_cast(enc, cfg, conds, o, c)
        ctx.ob("R01.1", "encode:payload-length-cast", ok, "src/protocol/codec.rs:%s" % c["line"],
               det if ok else det + " -> Stream::poll_write/send_data accept any chunk size; a 65536-byte chunk is framed with length 0 and its bytes re-parse as frames")


def _len_hi(body, cfg, conds, o, term, site_bb):
    """upper bound on the byte length of a Bytes-valued term at a site"""
    if is_call_term(term, "Bytes::split_to", "BytesMut::split_to") and len(term[3]) == 2:
        used = []
        lo, hi = range_of(body, cfg, conds, o, term[3][1], site_bb, used)
        return hi, "split_to(_, %s)" % fmt(term[3][1])
    if is_call_term(term, "Bytes::slice") or is_call_term(term, "Bytes::copy_from_slice"):
        return None, fmt(term)[:80]
    # a variable: look for a dominating guard on its len()
    key = ("call", "bytes::Bytes::len", 0, (term,))
    lo, hi, used = guard_bounds(body, cfg, conds, o, key, site_bb)
    return hi, "; ".join(used) if used else "no dominating guard on %s.len()" % fmt(term)


def r2_chunking(ctx):
    body = co(ctx, "R01.2", S + "write_data_frame")
    if body is None:
        return
    cfg, conds, o = ctx.cfg(body), ctx.conds(body), ctx.origins(body)
    fd = calls_norm(body, "Frame::data")
    if not ctx.floor("R01.2", "Frame::data calls in write_data_frame", len(fd), 1):
        return
    for i, c in enumerate(fd):
        t = o.of_operand(c.args[1])
        worst = None
        dets = []
        ok = True
        for a in phi_alts(t):
            hi, det = _len_hi(body, cfg, conds, o, a, c.bb)
            dets.append(det)
            if hi is None or hi > MAXP:
                ok = False
        ctx.ob("R01.2", "write_data_frame:Frame::data#%d" % i, ok, c.site,
               "payload bounded by %d (%s)" % (MAXP, "; ".join(dets)) if ok else
               "the payload given to Frame::data is not bounded by 65535 (%s): chunks larger than one frame are not split, the encoder truncates their length field" % "; ".join(dets))


def r3_r4_recv_buffer(ctx):
    body = co(ctx, "R01.3", S + "recv_loop")
    if body is None:
        return
    cfg, conds, o = ctx.cfg(body), ctx.conds(body), ctx.origins(body)
    dec = calls_norm(body, "Decoder>::decode")
    rb = calls_norm(body, "AsyncReadExt::read_buf")
    if not dec or not rb:
        ctx.missing("R01.3", "decode / read_buf call in recv_loop")
        return
    bt = o.of_operand(dec[0].args[1])
    if not (isinstance(bt, tuple) and bt[0] == "var" and len(bt) > 2):
        ctx.missing("R01.3", "decode buffer is a local variable of recv_loop (got %s)" % fmt(bt))
        return
    local = bt[2]
    same = var_name(o.of_operand(rb[0].args[1])) == bt[1] and o.of_operand(rb[0].args[1])[2] == local
    ctx.ob("R01.3", "recv_loop:one-buffer", same, rb[0].site, "read_buf appends to the buffer decode consumes" if same else "read_buf and decode use different buffers")
    # a read that returns 0 bytes is taken for the end of the connection — true only for an uncapped read into a buffer with room:
    # a limiting adaptor in front of the transport (`take(limit - buffer.len())`) reads 0 bytes as soon as the cap is reached, e.g.
    # while a maximum-size frame (7 + 65535 bytes, more than a 64 KiB cap) is being assembled, and the session is closed
    rt = o.of_operand(rb[0].args[0])
    capped = [s_ for s_ in subterms(rt) if isinstance(s_, tuple) and s_ and s_[0] == "call" and s_[1].split("::")[-1] in ("take", "chain", "take_while")]
    ctx.ob("R01.3", "recv_loop:read-is-not-capped", not capped, rb[0].site, "read_buf reads from the session's reader itself" if not capped else
           "the transport read goes through `%s(..)`: once the cap is reached the read returns 0 bytes, which the loop takes for the peer closing — a frame larger than the cap (a full-size Waste or data frame) "
           "ends the session, and everything behind it is lost" % capped[0][1].split("::")[-1])
    # initialised outside every cycle
    inits = [d for d in body.defs().get(local, []) if d[0] in ("assign", "call")]
    in_cycle = [d for d in inits if cfg.in_cycle(d[1])]
    ctx.ob("R01.3", "recv_loop:buffer-outlives-loop", bool(inits) and not in_cycle, "", "the buffer is created once, before the loop" if inits and not in_cycle else
           "the receive buffer is (re)created inside the loop: a frame split across two transport reads loses its first part")
    # mutators inside the loop
    allowed = ("AsyncReadExt::read_buf", "Decoder>::decode")
    bad = []
    n = 0
    for c in body.calls():
        for a in c.args:
            t = o.of_operand(a)
            if isinstance(t, tuple) and t[0] == "var" and len(t) > 2 and t[2] == local:
                # is the argument a mutable borrow?
                aty = body.lty(a["place"]["local"]) if a["o"] in ("copy", "move") and not a["place"]["proj"] else None
                mut = aty is not None and aty.get("k") == "ref" and aty.get("mut") in (True, "true")
                if mut:
                    n += 1
                    if not (c.norm or "").endswith(allowed):
                        bad.append(c)
    for c in bad:
        ctx.ob("R01.3", "recv_loop:buffer-mutator:%s" % c.norm.split("::")[-1], False, c.site, "%s modifies the receive buffer between read_buf and decode: undecoded bytes of a partial frame can be lost" % c.callee)
    if not bad:
        ctx.ob("R01.3", "recv_loop:buffer-mutators", n >= 2, "", "%d mutable uses of the buffer, all read_buf/decode" % n)
    # R01.4: from the Some edge of decode every path to the next read_buf passes decode again
    some_edges = []
    none_edges = []
    for c in conds.all():
        if c.kind == "variant" and is_call_term(c.term, "Decoder>::decode") and "Some" in sum(c.by_succ.values(), []):
            some_edges += c.edges_for("Some")
            none_edges += c.edges_for("None")
    if not some_edges:
        ctx.missing("R01.4", "match on decode's Option result in recv_loop")
        return
    ok, p = cfg.must_pass([e[1] for e in some_edges], [rb[0].bb], via_blocks=[dec[0].bb])
    ctx.ob("R01.4", "recv_loop:drain-all-frames", ok, dec[0].site, "after a decoded frame control always returns to decode before the next transport read" if ok else
           "after one decoded frame the loop can go back to read_buf without calling decode again: complete frames already in the buffer wait for more transport bytes and are dropped at EOF",
           path=None if ok else render_path(body, p))


def r5_push_payload(ctx):
    body = co(ctx, "R01.5", S + "handle_frame")
    if body is None:
        return
    o = ctx.origins(body)
    sends = [c for c in calls_norm(body, "UnboundedSender::send") if len(c.args) > 1 and any(is_call_term(s, "HashMap::<K, V, S, A>::get") for s in subterms(o.of_operand(c.args[0])))]
    if not ctx.floor("R01.5", "inbound-queue send in the PSH arm", len(sends), 1):
        return
    for c in sends:
        t = o.of_operand(c.args[1])
        ok = var_name(t) == "frame.data"
        ctx.ob("R01.5", "handle_frame:push-forwards-frame.data", ok, c.site, "the queue receives frame.data" if ok else "the PSH arm forwards %s instead of frame.data" % fmt(t)[:120])


def r6_r7_reader(ctx):
    body = co(ctx, "R01.6", READ)
    if body is None:
        return
    cfg, conds, o = ctx.cfg(body), ctx.conds(body), ctx.origins(body)
    recv = calls_norm(body, "UnboundedReceiver::recv")
    if not recv:
        ctx.missing("R01.6", "reader_rx.recv() in StreamReader::read")
        return
    some_edges, none_edges = [], []
    for c in conds.all():
        if c.kind == "variant" and is_call_term(c.term, "UnboundedReceiver::<T>::recv"):
            some_edges += c.edges_for("Some")
            none_edges += c.edges_for("None")
    if not some_edges:
        ctx.missing("R01.6", "match on recv()'s Option in StreamReader::read")
        return
    some_region = cfg.reach([e[1] for e in some_edges], stop_at=[recv[0].bb])
    copies = calls_norm(body, "::copy_from_slice")
    ctx.floor("R01.6", "copy_from_slice calls in StreamReader::read", len(copies), 2)

    def slice_bound(t):
        """the `n` of an index/index_mut(.., RangeTo{n}) term"""
        for s in subterms(t):
            if is_call_term(s, "::index", "::index_mut") and len(s[3]) == 2 and isinstance(s[3][1], tuple) and s[3][1][0] == "agg" and "RangeTo" in s[3][1][1] and s[3][1][3]:
                return s[3][1][3][0]
        return None

    for c in copies:
        a, b = o.of_operand(c.args[0]), o.of_operand(c.args[1])
        na, nb = slice_bound(a), slice_bound(b)
        ok = na is not None and nb is not None and strip_bb(na) == strip_bb(nb)
        where = "chunk" if c.bb in some_region else "buffered"
        ctx.ob("R01.6", "read:copy-both-sides-same-n[%s]" % where, ok, c.site, "buf[..n] <- src[..n] with the same n" if ok else "copy_from_slice sides are sliced by different values: %s vs %s" % (fmt(na), fmt(nb)))
        if where == "chunk":
            # (a) remainder kept: extend_from_slice(reader_buffer, data[n..]) on the true edge of n < data.len()
            ext = [e for e in calls_norm(body, "Vec::extend_from_slice") if e.bb in some_region]
            det = "no extend_from_slice(reader_buffer, <unread tail of the chunk>) in the chunk arm"

            def tail_of_chunk(t):
                """`data[n..]` or `data.split_at(n).1` for the chunk just received and the n of the copy"""
                for s in subterms(t):
                    cut = None
                    if is_call_term(s, "::index") and len(s[3]) == 2 and isinstance(s[3][1], tuple) and s[3][1][0] == "agg" and "RangeFrom" in s[3][1][1] and s[3][1][3]:
                        cut, whole = s[3][1][3][0], s[3][0]
                    elif isinstance(s, tuple) and s and s[0] == "field" and str(s[2]) == "1" and is_call_term(s[1], "::split_at") and len(s[1][3]) == 2:
                        cut, whole = s[1][3][1], s[1][3][0]
                    if cut is not None and na is not None and strip_bb(cut) == strip_bb(na) and any(is_call_term(x, "UnboundedReceiver::<T>::recv") for x in subterms(whole)):
                        return True
                return False
            good_ext = [e for e in ext if var_name(o.of_operand(e.args[0])) == "self.reader_buffer" and tail_of_chunk(o.of_operand(e.args[1]))]
            # the tail may be skipped only where it is known to be empty: the false edge of `n < data.len()`, the true edge of `tail.is_empty()`
            empty_edges = []
            for cc in conds.all():
                t = cc.term
                if cc.kind == "bool" and isinstance(t, tuple) and t[0] == "binop" and t[1] == "Lt" and na is not None and strip_bb(t[2]) == strip_bb(na) and is_call_term(t[3], "Bytes::len", "::len"):
                    empty_edges += cc.edges_for(False)
                if cc.kind == "bool" and is_call_term(t, "::is_empty") and t[3] and tail_of_chunk(t[3][0]):
                    empty_edges += cc.edges_for(True)
            oka = False
            if good_ext:
                oka, pth = cfg.must_pass(cfg.succ(c.bb), body.return_blocks(), via_blocks=[e.bb for e in good_ext], via_edges=empty_edges)
                det = "the unread tail of the chunk is appended to reader_buffer on every way out that does not know it to be empty" if oka else \
                    "a path from the copy to the return neither appends the unread tail nor has established that it is empty"
            elif ext:
                det = "remainder handling: extend_from_slice(%s, %s) is not the unread tail of this chunk cut at the n of the copy" % (fmt(o.of_operand(ext[0].args[0]))[:30], fmt(o.of_operand(ext[0].args[1]))[:60])
            ctx.ob("R01.6", "read:remainder-kept", oka, ext[0].site if ext else c.site, det if oka else det + " -> bytes of a chunk larger than the caller's buffer are lost")
        else:
            # (b) drain(reader_buffer, ..n) post-dominates the copy with the same n
            dr = [d for d in calls_norm(body, "Vec::drain") if var_name(o.of_operand(d.args[0])) == "self.reader_buffer"]
            okb = False
            for d in dr:
                rng = o.of_operand(d.args[1])
                nd = rng[3][0] if isinstance(rng, tuple) and rng[0] == "agg" and "RangeTo" in rng[1] and rng[3] else None
                if nd is not None and na is not None and strip_bb(nd) == strip_bb(na) and cfg.postdominates(d.bb, c.bb):
                    okb = True
            ctx.ob("R01.6", "read:buffered-drain-exact", okb, dr[0].site if dr else c.site, "reader_buffer.drain(..n) follows the copy on every path with the same n" if okb else
                   "the buffered branch does not drain exactly the copied bytes: they are delivered twice or skipped")
    # R01.7: in the Some arm, the Ok(n) return is dominated by a non-empty check on the chunk
    nonempty_edges = []
    for cc in conds.all():
        t = cc.term
        if cc.kind == "bool" and is_call_term(t, "Bytes::is_empty") and any(is_call_term(s, "UnboundedReceiver::<T>::recv") for s in subterms(t)):
            nonempty_edges += cc.edges_for(False)
        if cc.kind == "bool" and isinstance(t, tuple) and t[0] == "binop" and is_call_term(t[2], "Bytes::len") and isinstance(t[3], tuple) and t[3][0] == "const" and t[3][1] == 0:
            if t[1] in ("Eq",):
                nonempty_edges += cc.edges_for(False)
            elif t[1] in ("Gt", "Ne"):
                nonempty_edges += cc.edges_for(True)
    rets = [(bi, rv) for kind, bi, si, rv in body.defs().get(0, []) if kind == "assign" and rv["r"] == "aggregate" and rv["kind"].get("variant") == "Ok" and bi in some_region]
    # only the return that reports the chunk copy length (depends on recv)
    rets = [(bi, rv) for bi, rv in rets if any(is_call_term(s, "UnboundedReceiver::<T>::recv") for s in subterms(o.of_operand(rv["ops"][0])))]
    if not ctx.floor("R01.7", "Ok(n) return of the chunk arm", len(rets), 1):
        return
    for bi, rv in rets:
        ok = bool(nonempty_edges) and cfg.edges_dominate(nonempty_edges, bi)
        ctx.ob("R01.7", "read:zero-means-eof-only", ok, "src/session/stream_reader.rs:%s" % body.blocks[bi]["tspan"]["line"],
               "the chunk arm returns only after a non-empty check: Ok(0) can come from EOF alone" if ok else
               "the chunk arm returns Ok(min(chunk.len(), buf.len())) without skipping empty chunks: an empty PSH (send_data(Bytes::new()) or any peer) surfaces as a "
               "0-byte read, which every forwarding loop treats as end of stream -> the rest of the stream is dropped")


def r8_single_forwarder(ctx):
    n = 0
    for key, body in ctx.P.scan():
        for c in calls_norm(body, "UnboundedReceiver::recv"):
            recvty = ""
            if c.targs:
                recvty = c.targs[0].get("s", "")
            if "(u32, bytes::Bytes)" not in recvty:
                continue
            n += 1
            ok = key.startswith(S + "process_stream_data::{closure#0}")
            ctx.ob("R01.8", "outbound-queue-recv|%s" % key.split("::{closure")[0], ok, c.site, "the outbound queue is drained by process_stream_data" if ok else
                   "a second consumer of the outbound (stream id, chunk) queue: per-stream FIFO on the wire is no longer guaranteed")
    ctx.floor("R01.8", "recv on the outbound queue", n, 1)
    body = co(ctx, "R01.8", S + "process_stream_data")
    if body is None:
        return
    o = ctx.origins(body)
    tk = calls_norm(body, "Option::take")
    ctx.ob("R01.8", "process_stream_data:takes-receiver", bool(tk), tk[0].site if tk else "", "the receiver is obtained by Option::take (at most one forwarder per session)" if tk else "the receiver is not taken out of its slot")
    wd = calls_norm(body, "Session::write_data_frame")
    if ctx.floor("R01.8", "write_data_frame call in process_stream_data", len(wd), 1):
        a1, a2 = o.of_operand(wd[0].args[1]), o.of_operand(wd[0].args[2])
        f1, f2 = fmt(a1), fmt(a2)

        def from_recv(t, depth=0):
            """the term is (a projection of) the value produced by receiver.recv(), possibly through select!'s poll_fn"""
            for s in subterms(t):
                if is_call_term(s, "UnboundedReceiver::<T>::recv"):
                    return True
                if depth < 3 and isinstance(s, tuple) and s and s[0] == "var" and len(s) > 2:
                    if from_recv(o.init_of(s[2]), depth + 1):
                        return True
            return False

        same_base = isinstance(a1, tuple) and isinstance(a2, tuple) and a1[0] == "field" and a2[0] == "field" and a1[1] == a2[1] and a1[2] == "0" and a2[2] == "1"
        ok = same_base and from_recv(a1[1])
        ctx.ob("R01.8", "process_stream_data:tuple-forwarded", ok, wd[0].site, "write_data_frame(item.0, item.1) of the tuple received from the outbound queue" if ok else "write_data_frame gets (%s, %s)" % (f1[:80], f2[:80]))


def r12_every_dequeued_chunk_is_written(ctx):
    """the forwarding task writes every chunk it takes off the outbound queue (or leaves the loop): no path from 'got a chunk'
    back to waiting skips write_data_frame"""
    body = co(ctx, "R01.12", S + "process_stream_data")
    if body is None:
        return
    cfg, conds, o = ctx.cfg(body), ctx.conds(body), ctx.origins(body)
    wd = calls_norm(body, "Session::write_data_frame")
    got = []
    waits = set()
    for c in conds.all():
        if c.kind != "variant" or "Some" not in sum(c.by_succ.values(), []):
            continue
        roots = [s for s in subterms(c.term) if isinstance(s, tuple) and s and s[0] == "call" and (s[1].endswith("future::poll_fn") or "UnboundedReceiver" in s[1] and s[1].endswith("::recv"))]
        if not roots or not cfg.in_cycle(c.block):
            continue
        got += c.succs_for("Some")
        waits |= {r[2] for r in roots}
    if not wd or not got:
        ctx.missing("R01.12", "dequeue test (Some edge of the outbound queue's recv) / write_data_frame call in process_stream_data")
        return
    ok, p = cfg.must_pass(got, sorted(waits), via_blocks=[w.bb for w in wd])
    ctx.ob("R01.12", "process_stream_data:every-dequeued-chunk-is-written", ok, wd[0].site,
           "from 'a chunk was dequeued' every path back to waiting passes write_data_frame (the only other way on is out of the loop)" if ok else
           "a dequeued chunk can be dropped: a path leads from the dequeue back to waiting for the next one without write_data_frame — Stream::send_data/poll_write already reported those bytes as written "
           "(e.g. a 'stream is gone' guard consulting the stream table, which a peer's FIN empties although FIN only ends the peer's direction)", path=None if ok else render_path(body, p))


FRAMED_READS = ("AsyncReadExt::read_exact", "StreamReader::read_exact", "AsyncReadExt::read_u8", "AsyncReadExt::read_u16", "AsyncReadExt::read_u32",
                "AsyncReadExt::read_to_end", "AsyncBufReadExt::read_line", "AsyncBufReadExt::read_until", "AsyncReadExt::read_to_string")


def r13_no_cancel_and_retry_of_framed_reads(ctx):
    """a multi-step read (read_exact & co., or a crate function that performs one) is never both handed to a cancelling
    combinator (time::timeout, select!) and re-issued in a loop: the bytes the dropped future had already consumed are gone, so
    the retry continues in the middle of a field / datagram / frame"""
    from .C11 import _future_calls
    # crate functions that (transitively, without crossing a spawn) perform a framed read
    direct = set()
    for key, body in ctx.P.bodies.items():
        if any((c.norm or "").endswith(FRAMED_READS) for c in body.calls()):
            direct.add(key)
    readers = set(direct)
    changed = True
    while changed:
        changed = False
        for key in list(ctx.P.bodies):
            if key in readers:
                continue
            if any(e.dst in readers for e in ctx.cg.out.get(key, []) if e.kind in ("call", "async", "await")):
                readers.add(key)
                changed = True
    n = 0
    for key, body in ctx.P.scan():
        o = None
        cfg = None
        for c in body.calls():
            nm = c.norm or ""
            if nm.endswith(("time::timeout", "time::timeout_at")) and len(c.args) > 1:
                o = o or ctx.origins(body)
                front = [o.of_operand(c.args[1])]
            elif nm.endswith("future::poll_fn") and c.args:
                o = o or ctx.origins(body)
                front = [o.of_operand(c.args[0])]
            else:
                continue
            cfg = cfg or ctx.cfg(body)
            if not cfg.in_cycle(c.bb):
                continue
            n += 1
            ts, seen = [], set()
            for _ in range(4):
                nxt = []
                for t in front:
                    ts.append(t)
                    for s_ in subterms(t):
                        if isinstance(s_, tuple) and s_ and s_[0] == "var" and len(s_) > 2 and s_[2] not in seen:
                            seen.add(s_[2])
                            nxt.append(o.init_of(s_[2]))
                front = nxt
            hit = None
            for t in ts:
                for s_ in _future_calls(t):
                    callee = s_[1]
                    if callee.endswith(FRAMED_READS) or ctx.cg.resolve(body, callee) in readers or (ctx.cg.resolve(body, callee) or "") + "::{closure#0}" in readers:
                        # the read must be re-issued by the loop, i.e. created inside the cycle
                        if cfg.in_cycle(s_[2]) and s_[2] in cfg.cycle_blocks(c.bb):
                            hit = s_
            ctx.ob("R01.13", "%s|cancellable-read-in-loop#%d" % (ctx.P.owner(key), n), hit is None, c.site,
                   "the looped %s does not wrap a framed read" % nm.split("::")[-1] if hit is None else
                   "`%s` is wrapped in %s inside a loop that issues it again: when the other branch / the timer wins while the read has consumed part of its field, those bytes are lost and the next attempt starts "
                   "mid-field (a shifted length prefix, a frame header read from payload bytes)" % (hit[1].split("::")[-1], "select!" if "poll_fn" in nm else "time::timeout"))
    ctx.ob("R01.13", "crate:no-cancel-and-retry-of-framed-reads", True, "", "%d looped timeout/select sites examined, %d bodies perform framed reads" % (n, len(readers)), nontrivial=False)


def r15_no_read_ahead_is_thrown_away(ctx):
    """a buffering reader put in front of a socket is never unwrapped again: `into_inner()` returns the socket and silently
    drops whatever the reader had already pulled in (data the application sent without waiting for the reply)"""
    n = 0
    bad = []
    for key, body in ctx.P.scan():
        if key.startswith(("util::cert", "util::tls", "anytls_")):
            continue
        for c in body.calls():
            nm = c.norm or ""
            if nm.endswith(("BufReader::new", "BufReader::with_capacity", "BufStream::new", "Framed::new", "FramedRead::new")):
                n += 1
            if nm.endswith(("BufReader::into_inner", "BufStream::into_inner", "FramedRead::into_inner", "Framed::into_inner", "Take::into_inner", "Chain::into_inner")) and "BufWriter" not in nm:
                bad.append((key, c))
    ctx.ob("R01.15", "crate:buffered-readers-are-never-unwrapped", not bad, bad[0][1].site if bad else "", "%d buffering readers, none unwrapped with into_inner()" % n if not bad else
           "%s unwraps a buffering reader with `into_inner()`: bytes it had read ahead — tunnel payload pipelined behind the handshake — are discarded, so the peer receives the stream with a hole at its start"
           % ctx.P.owner(bad[0][0]))


def r16_poll_read_appends(ctx):
    """Stream::poll_read hands bytes to the caller by *appending* to the ReadBuf (put_slice / advance): a caller may come in with a
    partly filled buffer (read_exact across two chunks, io::copy under back-pressure), and anything that sets the filled length
    absolutely (`set_filled(n)`) moves the cursor backwards over bytes already delivered"""
    n = 0
    bad = []
    app = []
    for key, body in ctx.P.bodies.items():
        if not (key.startswith("<session::stream::Stream as tokio::io::AsyncRead>::poll_read")) or key in ctx.P.inlined_away:
            continue
        n += 1
        for c in body.calls():
            last = (c.norm or "").split("::")[-1]
            if "ReadBuf" in (c.norm or ""):
                if last in ("set_filled", "clear", "assume_init", "take", "unfilled_mut"):
                    bad.append(c)
                if last in ("put_slice", "advance"):
                    app.append(c)
    if not ctx.floor("R01.16", "bodies of Stream::poll_read", n, 1):
        return
    ctx.ob("R01.16", "poll_read:appends-to-the-ReadBuf", bool(app) and not bad, (bad or app or [None])[0].site if (bad or app) else "",
           "bytes are published with %s only" % sorted({(c.norm or "").split("::")[-1] for c in app}) if app and not bad else
           "Stream::poll_read publishes its bytes with `%s`: entered with a partly filled ReadBuf the filled cursor jumps backwards, so bytes already handed to the caller are overwritten or lost "
           "(read_exact of a record spanning two chunks stalls or reports a bogus early eof)" % ((bad[0].norm.split("::")[-1]) if bad else "nothing that appends"))


def r14_one_path_per_stream(ctx):
    """the bytes a front-end / relay submits on a stream take one route to the wire: either the stream's outbound queue
    (Stream::send_data / AsyncWrite, drained by the forwarding task) or direct Session::write_data_frame calls — never both, because
    each route is FIFO but nothing orders one against the other"""
    per_owner = {}
    for key, body in ctx.P.scan():
        if key.startswith(("session::", "<session::")):
            continue
        for c in body.calls():
            nm = c.norm or ""
            if nm.endswith(("Stream::send_data", "AsyncWriteExt::write_all")) and nm.endswith("Stream::send_data"):
                per_owner.setdefault(ctx.P.owner(key), {}).setdefault("queue", []).append(c)
            elif nm.endswith("Session::write_data_frame"):
                per_owner.setdefault(ctx.P.owner(key), {}).setdefault("direct", []).append(c)
    n = 0
    for owner, d in sorted(per_owner.items()):
        n += 1
        mixed = "queue" in d and "direct" in d
        ctx.ob("R01.14", "%s|one-route-to-the-wire" % owner, not mixed, (d.get("queue") or d.get("direct"))[0].site,
               "all stream data of this function goes through %s" % ("the outbound queue" if "queue" in d else "write_data_frame") if not mixed else
               "this function sends on a stream both through its outbound queue (send_data, line %s) and directly (write_data_frame, line %s): the two routes are not ordered against each other, so bytes submitted "
               "later can reach the peer first (a request body overtaking its head)" % (d["queue"][0].line, d["direct"][0].line))
    ctx.floor("R01.14", "functions outside the session that send stream data", n, 6)


PARTIAL_WRITES = ("AsyncWriteExt::write", "AsyncWriteExt::write_buf", "AsyncWriteExt::write_vectored", "AsyncWrite::poll_write", "AsyncWriteExt::write_all_buf_partial",
                  "io::Write::write", "io::Write::write_vectored")


def r9_complete_writes(ctx):
    """bytes handed to a socket / the transport are written completely: only whole-buffer write APIs are used"""
    n_all = 0
    for key, body in ctx.P.scan():
        if key.startswith(("util::cert", "util::tls")):
            continue
        for c in body.calls():
            nm = c.norm or ""
            if nm.endswith("AsyncWriteExt::write_all") or nm.endswith("AsyncWriteExt::write_all_buf"):
                n_all += 1
            elif nm.endswith(PARTIAL_WRITES):
                ctx.ob("R01.9", "%s|%s" % (key.split("::{closure")[0], nm.split("::")[-1]), False, c.site,
                       "`%s` performs one write and may accept only part of the buffer; the remainder is silently dropped under back-pressure, so the peer's decoder swallows the following frame headers as payload "
                       "(use write_all)" % nm.split("::")[-1])
    ctx.ob("R01.9", "whole-buffer-writes-only", True, "", "%d write_all call sites, no partial-write API in the data path" % n_all, nontrivial=False)
    ctx.floor("R01.9", "write_all call sites (matcher self-check)", n_all, 15)


def r11_poll_write_accounting(ctx):
    """AsyncWrite::poll_write reports exactly what it queued: the whole caller buffer is copied and its length returned"""
    body = ctx.body("R01.11", "<session::stream::Stream as tokio::io::AsyncWrite>::poll_write")
    if body is None:
        return
    o = ctx.origins(body)
    from .common import param
    bufp = param(body, 2)
    cp = calls_norm(body, "Bytes::copy_from_slice")
    if not ctx.floor("R01.11", "Bytes::copy_from_slice in poll_write", len(cp), 1):
        return
    src = o.of_operand(cp[0].args[0])
    whole = var_name(src) == bufp
    rets = []
    for kind, bi, si, rv in body.defs().get(0, []):
        if kind == "assign" and rv["r"] == "aggregate" and rv["kind"].get("variant") == "Ready":
            t = o.of_operand(rv["ops"][0])
            if isinstance(t, tuple) and t[0] == "agg" and t[2] == "Ok" and t[3]:
                rets.append(t[3][0])
    lens_ok = bool(rets) and all((is_call_term(r, "::len") and var_name(r[3][0]) == bufp) or (isinstance(r, tuple) and r[0] == "len" and var_name(r[1]) == bufp) or
                                 (whole is False and is_call_term(r, "::len") and strip_bb(r[3][0]) == strip_bb(o.of_operand(cp[0].dest and cp[0].args[0]))) for r in rets)
    if whole:
        ok = lens_ok
        det = "poll_write queues a copy of the whole buffer and returns buf.len()"
    else:
        # a partial copy is fine only if exactly the copied length is what is reported
        copied = None
        for s in subterms(src):
            if isinstance(s, tuple) and s[0] == "agg" and "RangeTo" in s[1] and s[3]:
                copied = s[3][0]
        ok = copied is not None and bool(rets) and all(strip_bb(r) == strip_bb(copied) for r in rets)
        det = "poll_write queues buf[..n] and returns the same n"
    ctx.ob("R01.11", "poll_write:reports-what-it-queued", ok, cp[0].site, det if ok else
           "poll_write queues `%s` but reports %s bytes as written: the caller is told that bytes were accepted which are never sent — the tail of a large write silently disappears" % (fmt(src)[:70], [fmt(r)[:30] for r in rets]))


FWD_SINKS = ("AsyncWriteExt::write_all", "Stream::send_data", "Session::write_data_frame")
FWD_SOURCES = ("AsyncReadExt::read", "StreamReader::read")


COPY_WRAPPERS = (">::from", ">::into", "::to_vec", "::to_owned", "::clone", "Bytes::copy_from_slice", "Bytes::from", "From>::from", "Into>::into", "::as_ref", "::deref", "::borrow", "BytesMut::from", "::freeze", "Vec::from")


def exactly_what_was_read(data, rbuf, read_bb):
    """the term `data` is `rbuf[..n]` with n the count returned by the read in block read_bb — itself, or a plain copy of it
    (to_vec / Bytes::copy_from_slice / ...): nothing selected by content, nothing joined from two alternatives"""
    t = data
    for _ in range(6):
        if is_call_term(t, *COPY_WRAPPERS) and t[3]:
            t = t[3][0]
        else:
            break
    if not (is_call_term(t, "::index") and len(t[3]) == 2 and isinstance(t[3][1], tuple) and t[3][1][0] == "agg" and t[3][1][3]):
        return False
    rng = t[3][1]
    if "RangeTo" not in rng[1] or "Inclusive" in rng[1]:
        return False
    cnt = rng[3][0]
    return strip_bb(t[3][0]) == strip_bb(rbuf) and isinstance(cnt, tuple) and cnt[0] == "call" and cnt[2] == read_bb


def r10_forwarding_slices(ctx):
    """every relay loop forwards exactly what this iteration read: the sink gets buf[..n] (or a copy of it) with buf the buffer
    this iteration's read filled and n the count that read returned"""
    n = 0
    for key, body in ctx.P.scan():
        if not key.startswith(("client::socks5::", "client::http_proxy::", "server::handler::")):
            continue
        rds = [c for c in body.calls() if (c.norm or "").endswith(FWD_SOURCES)]
        if not rds:
            continue
        cfg, o = ctx.cfg(body), ctx.origins(body)
        for r in rds:
            if not cfg.in_cycle(r.bb):
                continue
            loop = cfg.cycle_blocks(r.bb)
            sinks = [c for c in body.calls() if c.bb in loop and (c.norm or "").endswith(FWD_SINKS)]
            if not sinks:
                continue
            rbuf = o.of_operand(r.args[1])
            for s in sinks:
                n += 1
                data = o.of_operand(s.args[-1])
                # find index(buf, RangeTo{n}) inside the data term
                det = fmt(data)[:90]
                ok = exactly_what_was_read(data, rbuf, r.bb)
                owner = ctx.P.owner(key)
                ctx.ob("R01.10", "%s|relay:%s<-%s#%d" % (owner, s.norm.split("::")[-1], r.norm.split("::")[-1], n), ok, s.site,
                       "forwards buf[..n] of this iteration's read" if ok else
                       "the relay loop forwards `%s`: not exactly buf[..n] for the buffer and count of this iteration's read — bytes are dropped, repeated or stale bytes are sent" % det)
    ctx.floor("R01.10", "relay loop sinks (socks5, http, server handler)", n, 6)


def r17_fill_loops_write_at_the_cursor(ctx):
    """a loop that fills a caller's buffer piece by piece writes each piece where the previous one ended: inside a cycle, a
    `copy_from_slice` into a slice of a buffer that lives across the turns starts at a position that changes from turn to turn
    (`buf[offset..]`), never at a fixed one (`buf[..n]`) — the second piece would land on top of the first and the tail of the
    buffer stay unwritten (a field that straddles two chunks is decoded from scrambled bytes)"""
    n = 0
    for key, body in ctx.P.scan():
        if key.startswith(("anytls_", "util::cert", "util::tls")):
            continue
        cs = [c for c in body.calls() if (c.norm or "").endswith(("::copy_from_slice", "::clone_from_slice")) and c.args]
        if not cs:
            continue
        cfg, o = ctx.cfg(body), ctx.origins(body)
        for c in cs:
            if not cfg.in_cycle(c.bb):
                continue
            cyc = cfg.cycle_blocks(c.bb)
            dst = o.of_operand(c.args[0])
            if not (is_call_term(dst, "::index_mut") and len(dst[3]) > 1):
                continue
            base, rng = dst[3][0], dst[3][1]
            # a buffer created afresh in every turn is not being *filled* by the loop
            bl = base[2] if isinstance(base, tuple) and base and base[0] == "var" and len(base) > 2 else None
            if bl is not None and any(d[1] in cyc for d in body.defs().get(bl, []) if d[0] in ("assign", "call")) and bl > body.arg_count:
                continue
            if not (isinstance(rng, tuple) and rng and rng[0] == "agg" and "Range" in str(rng[1])):
                continue
            n += 1
            kind = str(rng[1]).split("::")[-1]
            start = rng[3][0] if kind in ("Range", "RangeFrom", "RangeInclusive") and rng[3] else None
            moving = False
            if start is not None:
                for s_ in subterms(start):
                    if isinstance(s_, tuple) and s_ and s_[0] == "var" and len(s_) > 2 and any(d[1] in cyc for d in body.defs().get(s_[2], []) if d[0] in ("assign", "call")):
                        moving = True
                    if isinstance(s_, tuple) and s_ and s_[0] == "phi":
                        moving = True
            ctx.ob("R01.17", "%s|fill#%d" % (ctx.P.owner(key), n), moving, c.site, "the piece is written at a position that advances with the loop" if moving else
                   "inside a loop, `copy_from_slice` writes into `%s[%s]`, whose start is the same in every turn: the second piece overwrites the first and the rest of the buffer keeps its old contents — "
                   "a value that straddles two chunks (an address, a port, a length prefix cut by a frame boundary) is decoded from scrambled bytes" % (fmt(base)[:20], fmt(rng)[:40]))
    ctx.ob("R01.17", "crate:fill-loops-write-at-the-cursor", True, "", "%d copies into long-lived buffers inside loops examined" % n, nontrivial=False)


def run(ctx):
    from . import effects
    effects.check_property(ctx, "C01")    # R01.E: no operation on shared protocol state outside the reviewed table
    from . import C04, C11
    r12_every_dequeued_chunk_is_written(ctx)
    r13_no_cancel_and_retry_of_framed_reads(ctx)
    r14_one_path_per_stream(ctx)
    r15_no_read_ahead_is_thrown_away(ctx)
    r16_poll_read_appends(ctx)
    r17_fill_loops_write_at_the_cursor(ctx)
    from . import C09 as _C09w
    _C09w.r9_write_errors_funnel(ctx)   # a failed transport write is never retried: the transport may hold a prefix of the frame, and a second attempt sends that prefix twice
    from . import C02 as _C02a
    _C02a.r3_allocator(ctx)     # every open takes an id of its own in one atomic step: two streams with one id share one inbound queue
    from . import C11 as _C11c
    _C11c.r7_cancellation(ctx)    # a frame write dropped half-way leaves a fragment in front of the stream data that follows
    from . import C17 as _C17
    _C17.r3b_scan_window(ctx)   # the HTTP front-end finds the end of the head wherever the reads happen to cut it: nothing behind it is mistaken for header lines
    from . import C08
    C08.r6_loop_exits(ctx)      # a relay direction stops only when its own source ends or fails: queued bytes are not abandoned
    C08.r8_buffered_sinks_are_flushed(ctx)
    C03.r3_totality(ctx)        # the decoder accepts every frame the 16-bit length field can announce
    C04.r6_flushed_before_success(ctx)   # bytes reported as written are actually pushed to the transport
    C04.r1_waste_frames(ctx)    # a padding frame whose body is not the length its header announces desynchronises every later frame of the session
    C11.r3_open_order(ctx)      # the inbound queue exists before the SYN is on the wire: a peer that speaks first is not dropped
    r10_forwarding_slices(ctx)
    r11_poll_write_accounting(ctx)
    r1_encode_cast(ctx)
    r2_chunking(ctx)
    r3_r4_recv_buffer(ctx)
    r5_push_payload(ctx)
    r6_r7_reader(ctx)
    r8_single_forwarder(ctx)
    r9_complete_writes(ctx)
