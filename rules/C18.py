"""C18 — certificate hot-reload is all-or-nothing (structural clauses)."""
from engine.anl.origin import fmt, subterms, strip_bb
from .common import S, co, calls_norm, is_call_term, var_name, render_path, stores_through

from .common import ok_return_blocks as _okret

from engine.anl.casts import const_value as const_value_

EXPLANATION = (
    "Static decision of the reload protocol: (R18.1) in CertReloader::reload no path from the first write to any of the four published "
    "fields {tls_acceptor, cert_info, reload_count, last_reload} reaches an error return, and all four writes lie on every path from the "
    "first write to Ok; (R18.2) those fields (and the shared acceptor pointer handed to the server) have no writer other than reload; "
    "(R18.3) Server::listen takes its snapshot of the acceptor inside the accept cycle, after accept and before the connection task is "
    "spawned; (R18.4) the installed acceptor is built from create_server_config_from_files(cert_path, key_path), which feeds the chain and "
    "the key parsed in the same call into rustls' validating builder with_single_cert (rejects a key that does not match the certificate); "
    "(R18.5) when check_expiry is on, the is_expired() rejection dominates the first write. Not decided: torn reads of the two files by the "
    "OS; rustls internals."
)
RULE_TEXT = "one obligation per published field, per writer, per builder operand, per path class; non-trivial = needed a path, dominance, who-may-write or origin query"

FIELDS = ("tls_acceptor", "cert_info", "reload_count", "last_reload")
RELOAD = "util::cert_reloader::CertReloader::reload"


def _field_writes(ctx, body):
    """{field: [write-lock call bb]} for std RwLock::write on self.<field>"""
    o = ctx.origins(body)
    out = {}
    for c in calls_norm(body, "RwLock::write"):
        v = var_name(o.of_operand(c.args[0]))
        if v and v.startswith("self.") and v[5:] in FIELDS:
            out.setdefault(v[5:], []).append(c)
    return out


def r1_r5_reload(ctx):
    body = ctx.body("R18.1", RELOAD)
    if body is None:
        return
    cfg, conds, o = ctx.cfg(body), ctx.conds(body), ctx.origins(body)
    fw = _field_writes(ctx, body)
    for f in FIELDS:
        if f not in fw:
            ctx.ob("R18.1", "reload:writes:%s" % f, False, "", "reload() never updates %s: what operators are told no longer matches what is served" % f)
    if len(fw) < 4:
        return
    allw = sorted((c.bb, f) for f, cs in fw.items() for c in cs)
    # the first write: the one that dominates all others
    firsts = [bb for bb, f in allw if all(cfg.dominates(bb, b2) for b2, _ in allw)]
    if not firsts:
        ctx.ob("R18.1", "reload:single-commit-point", False, "", "the four writes are not ordered on a single straight commit sequence")
        return
    first = firsts[0]
    err_rets = [bi for kind, bi, si, rv in body.defs().get(0, []) if not (kind == "assign" and rv["r"] == "aggregate" and rv["kind"].get("variant") == "Ok")]
    ok_rets = _okret(body, ctx.origins(body))
    after = cfg.reach_after(first)
    bad = [b for b in err_rets if b in after]
    ctx.ob("R18.1", "reload:no-failure-after-first-write", not bad, "src/util/cert_reloader.rs:%s" % body.blocks[first]["tspan"]["line"],
           "no error return is reachable once the first published field has been written" if not bad else
           "reload() can fail (line %s) after it has already replaced %s: a failed reload leaves a half-updated state (new certificate served / reported although the reload is reported as failed)" %
           (body.blocks[bad[0]]["tspan"]["line"], [f for bb, f in allw if bb == first][0]),
           path=None if not bad else render_path(body, cfg.path([first], [bad[0]]) or [])[:12])
    for f, cs in fw.items():
        ok, p = cfg.must_pass([first], ok_rets, via_blocks=[c.bb for c in cs]) if cs[0].bb != first else (True, None)
        ctx.ob("R18.1", "reload:all-four-on-success:%s" % f, ok, cs[0].site, "%s is written on every path from the first write to Ok" % f if ok else "a successful reload can skip the update of %s" % f)
    # ... nor a panic: once the first field has been written, nothing that can unwind stands before the last write (an
    # `unwrap()`/`expect()` on anything but the locks themselves) — an unwinding reload leaves the new certificate served with the
    # old counters, and poisons the lock it held for every later reload and query
    pan = []
    for c in body.calls():
        if c.bb in after and (c.norm or "").split("::")[-1] in ("unwrap", "expect", "unwrap_unchecked", "unwrap_err", "expect_err") and c.args and not c.is_tracing:
            recv = o.of_operand(c.args[0])
            if not is_call_term(recv, "RwLock::<T>::write", "RwLock::<T>::read", "Mutex::<T>::lock", "RwLock::write", "RwLock::read", "Mutex::lock"):
                pan.append(c)
    ctx.ob("R18.1", "reload:no-panic-after-first-write", not pan, pan[0].site if pan else "src/util/cert_reloader.rs:%s" % body.blocks[first]["tspan"]["line"],
           "after the first published write only the lock acquisitions are unwrapped" if not pan else
           "after %s has been replaced, reload() calls `%s` on `%s`: when that is None/Err the reload unwinds half-way — the new certificate is served while counters (and possibly the info) are the old ones, and the "
           "lock held at that moment stays poisoned" % ([f for bb, f in allw if bb == first][0], pan[0].norm.split("::")[-1], fmt(o.of_operand(pan[0].args[0]))[:60]))
    # success means installed: no Ok return is reachable from the entry without the writes (an early `return Ok(())` — a debounce,
    # an "unchanged" shortcut — reports a reload that no later handshake will see)
    for f, cs in fw.items():
        ok, p = cfg.must_pass([0], ok_rets, via_blocks=[c.bb for c in cs])
        ctx.ob("R18.1", "reload:ok-only-after-writing:%s" % f, ok, cs[0].site, "every Ok return of reload() has written %s" % f if ok else
               "reload() can return Ok without having written %s: a reload that is reported successful is not what later handshakes (or the reported information / counters) use" % f,
               path=None if ok else render_path(body, p)[:14])
    # what is stored
    stores = stores_through(body, o)
    acc_store = [s for s in stores if "self.tls_acceptor" in fmt(s[2])]
    if acc_store:
        v = acc_store[0][3]
        okv = any(is_call_term(s, "tls::create_server_config_from_files") and var_name(s[3][0]) == "self.config.cert_path" and var_name(s[3][1]) == "self.config.key_path" for s in subterms(v))
        ctx.ob("R18.4", "reload:acceptor-built-by-validating-loader", okv, "src/util/cert_reloader.rs:%s" % acc_store[0][1],
               "the installed acceptor comes from create_server_config_from_files(cert_path, key_path)" if okv else "the installed acceptor is %s" % fmt(v)[:120])
    else:
        ctx.missing("R18.4", "store into *self.tls_acceptor.write()")
    info_store = [s for s in stores if "self.cert_info" in fmt(s[2])]
    if info_store:
        v = info_store[0][3]
        oki = any(is_call_term(s, "CertificateInfo::from_pem_file") and var_name(s[3][0]) == "self.config.cert_path" for s in subterms(v))
        ctx.ob("R18.4", "reload:info-describes-the-loaded-file", oki, "src/util/cert_reloader.rs:%s" % info_store[0][1], "cert_info = analysis of the same certificate file" if oki else "cert_info is %s" % fmt(v)[:100])
    # R18.5 expiry gate
    ce_false, exp_false = [], []
    for c in conds.all():
        if c.kind == "bool" and var_name(c.term) == "self.config.check_expiry":
            ce_false += c.edges_for(False)
        if c.kind == "bool" and is_call_term(c.term, "CertificateInfo::is_expired"):
            exp_false += c.edges_for(False)
            exp_true = c.succs_for(True)
    if not exp_false:
        ctx.ob("R18.5", "reload:expired-certificate-rejected", False, "", "reload() does not test is_expired() of the new certificate")
    else:
        p = cfg.path([0], [first], avoid_edges=ce_false + exp_false)
        reg = cfg.reach(exp_true)
        rejects = not [b for b in ok_rets if b in reg] and first not in reg
        ok = p is None and rejects
        ctx.ob("R18.5", "reload:expired-certificate-rejected", ok, "src/util/cert_reloader.rs:%s" % body.blocks[first]["tspan"]["line"],
               "every path to the first write passed `!check_expiry` or `!is_expired()`; the expired branch returns an error without writing" if ok else
               "the first write to the published state is reachable without having passed the expiry check (check_expiry on, certificate expired): an expired certificate is installed / reported and only then rejected",
               path=None if ok else render_path(body, p or [])[:12])


def r2_writers(ctx):
    n = 0
    for key, body in ctx.P.scan():
        o = None
        for c in calls_norm(body, "RwLock::write"):
            if "std::sync::RwLock" not in (c.callee or ""):
                continue
            o = o or ctx.origins(body)
            t = o.of_operand(c.args[0])
            from engine.anl.locks import lock_class_of_arg, lock_fields
            cls = lock_class_of_arg(body, c.args[0])
            names = lock_fields(ctx.P).get(cls, [])
            if not any(n_.startswith(("CertReloader.", "Server.tls_config")) for n_ in names):
                continue
            n += 1
            ok = key == RELOAD
            ctx.ob("R18.2", "%s|write(%s)" % (key.split("::{closure")[0], "/".join(names)), ok, c.site, "written by reload() only" if ok else
                   "%s is written outside CertReloader::reload: the active certificate / its reported state can change without the reload protocol" % "/".join(names))
    ctx.floor("R18.2", "write-lock sites on the published reload state", n, 4)


def r3_snapshot(ctx):
    body = co(ctx, "R18.3", "server::server::Server::listen")
    if body is None:
        return
    cfg, conds, o = ctx.cfg(body), ctx.conds(body), ctx.origins(body)
    acc = calls_norm(body, "TcpListener::accept")
    rd = [c for c in calls_norm(body, "RwLock::read") if var_name(o.of_operand(c.args[0])) == "self.tls_config"]
    sp = [c for c in body.calls() if (c.norm or "") == "tokio::spawn"]
    if not ctx.floor("R18.3", "accept / tls_config.read() / spawn in Server::listen", min(len(acc), len(rd), len(sp)), 1):
        return
    ok_e = []
    for c in conds.all():
        if c.kind == "variant" and is_call_term(c.term, "TcpListener::accept") and "Ok" in sum(c.by_succ.values(), []):
            ok_e += c.edges_for("Ok")
    in_cycle = rd[0].bb in cfg.cycle_blocks(acc[0].bb)
    ok = in_cycle and cfg.edges_dominate(ok_e, rd[0].bb) and cfg.dominates(rd[0].bb, sp[0].bb)
    ctx.ob("R18.3", "listen:snapshot-per-accept", ok, rd[0].site, "the acceptor pointer is read inside the accept cycle, after accept and before the spawn" if ok else
           "the TLS acceptor is not re-read for every accepted connection (read hoisted out of the loop / after the spawn): a successful reload is never used by later handshakes")
    # the spawned connection gets that snapshot
    t = o.of_operand(sp[0].args[0])
    oks = any(is_call_term(s, "RwLock::<T>::read") and var_name(s[3][0]) == "self.tls_config" for s in subterms(t))
    ctx.ob("R18.3", "listen:connection-uses-the-snapshot", oks, sp[0].site, "the connection task captures the snapshot taken for it" if oks else "the connection task does not capture the per-accept snapshot")


def r4_pair_validation(ctx):
    body = None
    for k, b in ctx.P.scan():
        if k.startswith("util::tls::create_server_config_from_files") and "{closure" not in k:
            body = b
    if body is None:
        ctx.missing("R18.4", "util::tls::create_server_config_from_files")
        return
    ctx.bodies_touched.add(body.name)
    o = ctx.origins(body)
    wsc = calls_norm(body, "::with_single_cert")
    if not wsc:
        ctx.ob("R18.4", "loader:validating-builder", False, "", "create_server_config_from_files does not build the configuration with rustls' with_single_cert (the builder that rejects a key not matching the certificate): "
               "a certificate paired with a foreign key (a reload landing between the two file writes of a rotation) can be accepted")
        return
    certs, key = o.of_operand(wsc[0].args[1]), o.of_operand(wsc[0].args[2])
    fc, fk = fmt(certs), fmt(key)

    def from_path(t, pathvar, parser):
        has_parser = any(is_call_term(s, parser) for s in subterms(t))
        vars_ = set()
        for s in subterms(t):
            if isinstance(s, tuple) and s[0] == "var" and len(s) > 2:
                init = o.init_of(s[2])
                for s2 in subterms(init):
                    if isinstance(s2, tuple) and s2[0] == "var":
                        vars_.add(s2[1])
                    if isinstance(s2, tuple) and s2[0] == "var" and len(s2) > 2:
                        for s3 in subterms(o.init_of(s2[2])):
                            if isinstance(s3, tuple) and s3[0] == "var":
                                vars_.add(s3[1])
            elif isinstance(s, tuple) and s[0] == "var":
                vars_.add(s[1])
        return has_parser, pathvar in vars_

    pc, vc = from_path(certs, "cert_path", "rustls_pemfile::certs")
    pk, vk = from_path(key, "key_path", "rustls_pemfile::private_key")
    ctx.ob("R18.4", "loader:validating-builder", True, wsc[0].site, "the configuration is built by with_single_cert(chain, key)")
    ctx.ob("R18.4", "loader:chain-from-cert-file", pc and vc, wsc[0].site, "chain = rustls_pemfile::certs(File::open(cert_path))" if pc and vc else "the chain given to the builder is %s" % fc[:100])
    ctx.ob("R18.4", "loader:key-from-key-file", pk and vk, wsc[0].site, "key = rustls_pemfile::private_key(File::open(key_path))" if pk and vk else "the key given to the builder is %s" % fk[:100])
    # the builder's verdict is propagated: with_single_cert(..)? with no arm that swallows an Err
    cfg, conds = ctx.cfg(body), ctx.conds(body)
    okp = False
    for c in conds.all():
        if c.kind == "variant" and is_call_term(c.term, "::with_single_cert") and "Break" in sum(c.by_succ.values(), []):
            okp = True
    ctx.ob("R18.4", "loader:builder-error-propagated", okp, "", "`with_single_cert(..)?` — a rejected pair fails the load" if okp else "the builder's result is not propagated with `?`")


def r6_info_is_about_the_leaf(ctx):
    """the certificate whose expiry gates the reload and whose details are reported is the first one of the file — the leaf
    that with_single_cert serves — not some other certificate of the chain"""
    body = None
    for k, b in ctx.P.scan():
        if k.startswith("util::cert_analyzer::CertificateInfo::from_pem_bytes") and "{closure" not in k:
            body = b
    if body is None:
        ctx.missing("R18.6", "CertificateInfo::from_pem_bytes")
        return
    ctx.bodies_touched.add(body.name)
    o = ctx.origins(body)
    der = calls_norm(body, "::from_der")
    if not ctx.floor("R18.6", "X509 parse (from_der) in from_pem_bytes", len(der), 1):
        return
    src = o.of_operand(der[0].args[0])
    first = False
    for s in subterms(src):
        if is_call_term(s, "::index") and len(s[3]) == 2 and isinstance(s[3][1], tuple) and s[3][1][0] == "const" and s[3][1][1] == 0:
            first = True
        if is_call_term(s, "::first", "Iterator::next", "Iterator>::next") and not any(is_call_term(x, "::rev", "::last", "::pop") for x in subterms(s)):
            first = True
    bad = [s for s in subterms(src) if is_call_term(s, "::pop", "::last", "::rev", "::swap_remove", "Iterator::last", "Iterator::max_by_key", "Iterator::min_by_key")]
    ok = first and not bad
    ctx.ob("R18.6", "from_pem_bytes:analyses-the-first-certificate", ok, der[0].site, "the analysed certificate is element 0 of the parsed chain (the served leaf)" if ok else
           "the certificate that is analysed is `%s`: not the first certificate of the file. With a full-chain file the expiry gate and the reported details then describe a CA certificate — an expired leaf passes the "
           "gate and is served, while operators are shown the CA's subject and expiry" % fmt(src)[:100])
    fp = None
    for k, b in ctx.P.scan():
        if k.startswith("util::cert_analyzer::CertificateInfo::from_pem_file") and "{closure" not in k:
            fp = b
    if fp is not None:
        of = ctx.origins(fp)
        okf = bool(calls_norm(fp, "CertificateInfo::from_pem_bytes"))
        ctx.ob("R18.6", "from_pem_file:delegates-to-from_pem_bytes", okf, "", "from_pem_file reads the file and analyses it with from_pem_bytes" if okf else "from_pem_file does not use from_pem_bytes")


PEM_SOURCES = ("rustls_pemfile::certs", "rustls_pemfile::pkcs8_private_keys", "rustls_pemfile::rsa_private_keys", "rustls_pemfile::ec_private_keys",
               "rustls_pemfile::private_key", "rustls_pemfile::read_all", "rustls_pemfile::read_one")
ERROR_DROPPING = ("flatten", "filter_map", "flat_map", "map_while", "take_while", "skip_while", "filter", "find_map")


def r7_strict_parsing_and_fixed_paths(ctx):
    """(a) the files are parsed strictly: a PEM block that does not parse fails the load instead of being skipped (a chain file
    caught half written must be refused, not served without its issuing CA); (b) every reload reads the paths the reloader was
    configured with: they are not rewritten (e.g. canonicalised, which pins the symlink targets of start-up)"""
    n = 0
    bad = []
    for key, body in ctx.P.scan():
        if not key.startswith(("util::tls::", "util::cert_reloader::", "util::cert_analyzer::")):
            continue
        o = None
        for c in body.calls():
            last = (c.norm or "").split("::")[-1]
            if last not in ERROR_DROPPING or "Iterator" not in (c.norm or "") or not c.args:
                continue
            o = o or ctx.origins(body)
            t = o.of_operand(c.args[0])
            ts = [t] + [o.init_of(s_[2]) for s_ in subterms(t) if isinstance(s_, tuple) and s_ and s_[0] == "var" and len(s_) > 2]
            if any(is_call_term(s_, *PEM_SOURCES) for t_ in ts for s_ in subterms(t_)):
                bad.append(c)
        n += len(calls_norm(body, *PEM_SOURCES))
    if ctx.floor("R18.7", "PEM item iterators in util::tls / cert_analyzer", n, 3):
        ctx.ob("R18.7", "pem-parsing:errors-are-not-skipped", not bad, bad[0].site if bad else "", "%d PEM iterators, none passed through an error-dropping adaptor" % n if not bad else
               "the PEM items are passed through `%s`, which silently drops blocks that fail to parse: a fullchain.pem caught half written (or with a damaged CA block) is accepted and the new leaf is served "
               "without its chain, while the reload reports success" % bad[0].norm.split("::")[-1])
    writes = []
    nb = 0
    for key, body in ctx.P.scan():
        if not key.startswith("util::cert_reloader::"):
            continue
        nb += 1
        for bi in sorted(body.reachable()):
            for st in body.blocks[bi]["stmts"]:
                if st["s"] == "assign" and any(e["p"] == "field" and e.get("name") in ("cert_path", "key_path", "check_expiry", "expiry_warning_days", "watch_enabled") for e in st["place"]["proj"]) \
                        and st["rv"]["r"] != "aggregate":
                    writes.append((key, st["span"]["line"]))
        for c in body.calls():
            if (c.norm or "").split("::")[-1] in ("canonicalize", "read_link"):
                writes.append((key, c.line))
    if ctx.floor("R18.7", "bodies of util::cert_reloader", nb, 5):
        ctx.ob("R18.7", "reloader:configured-paths-are-never-rewritten", not writes, "src/util/cert_reloader.rs:%s" % writes[0][1] if writes else "",
               "the reloader's configuration (paths, check_expiry, ...) is only ever read" if not writes else
               "%s rewrites a field of the reloader's configuration (line %s) — e.g. resolves the paths, or switches check_expiry off for some value of another option, which silently disables the expired-certificate gate of reload(); with a symlinked layout (certbot live/ -> archive/, Kubernetes ..data) every later reload re-reads the files the links pointed to at "
               "start-up — it reports success and bumps the counters while the old certificate stays in service" % (writes[0][0].split("::{closure")[0], writes[0][1]))


def r9_expired_means_negative(ctx):
    """`is_expired()` is `days_until_expiry < 0`, and that is what the reload gate asks: the value computed for a certificate whose
    notAfter lies in the past must be strictly negative — from the first second, not from the first whole day — and the value
    computed for one that is still valid must not be"""
    from engine.anl.casts import range_of
    body = ctx.body("R18.9", "util::cert_analyzer::CertificateInfo::from_x509")
    ie = ctx.body("R18.9", "util::cert_analyzer::CertificateInfo::is_expired")
    if body is None or ie is None:
        return
    cfg, conds, o = ctx.cfg(body), ctx.conds(body), ctx.origins(body)
    oi = ctx.origins(ie)
    rets = [oi.of_operand(rv["op"]) if rv["r"] == "use" else oi._rvalue(rv, (), bi, 0, frozenset()) for kind, bi, si, rv in ie.defs().get(0, []) if kind == "assign"]
    lt0 = any(isinstance(t, tuple) and t and t[0] == "binop" and t[1] == "Lt" and "days_until_expiry" in fmt(t[2]) and const_value_(t[3]) == 0 for t in rets)
    ctx.ob("R18.9", "is_expired:is-days<0", lt0, "", "is_expired() = days_until_expiry < 0" if lt0 else "is_expired() is not `days_until_expiry < 0` (%s)" % [fmt(t)[:60] for t in rets])
    err_e, ok_e = [], []
    for c in conds.all():
        if c.kind == "variant" and is_call_term(c.term, "SystemTime::duration_since") and "Err" in sum(c.by_succ.values(), []):
            err_e += c.edges_for("Err")
            ok_e += c.edges_for("Ok")
    # the struct field
    val = None
    for bi in sorted(body.reachable()):
        for st in body.blocks[bi]["stmts"]:
            if st["s"] == "assign" and st["rv"]["r"] == "aggregate" and "CertificateInfo" in str(st["rv"]["kind"].get("adt", "")):
                fields = st["rv"]["kind"].get("fields") or []
                for i, f in enumerate(fields):
                    if f == "days_until_expiry" and i < len(st["rv"]["ops"]):
                        val = o.of_operand(st["rv"]["ops"][i])
    if val is None or not err_e:
        ctx.missing("R18.9", "days_until_expiry field of the CertificateInfo literal / match on not_after.duration_since(now)")
        return
    alts = o.phi_sites.get(val, []) if isinstance(val, tuple) and val and val[0] == "phi" else []
    if not alts:
        ctx.missing("R18.9", "the two alternatives (valid / expired) of days_until_expiry")
        return
    for alt, bi in alts:
        used = []
        lo, hi = range_of(body, cfg, conds, o, alt, bi, used)
        if cfg.edges_dominate(err_e, bi):
            ok = hi is not None and hi <= -1
            ctx.ob("R18.9", "from_x509:expired-certificate-gets-a-negative-value", ok, "src/util/cert_analyzer.rs:%s" % body.blocks[bi]["tspan"]["line"],
                   "in the notAfter-is-past branch the value is at most %s" % hi if ok else
                   "in the branch where notAfter lies in the past, days_until_expiry is `%s` with range [%s, %s], not strictly negative: is_expired() is false for such a certificate, so the expiry gate of reload() "
                   "installs an expired certificate (one that expired within the last day, or any expired one if the sign is lost) and counts the reload as a success" % (fmt(alt)[:70], lo, hi))
        elif cfg.edges_dominate(ok_e, bi):
            ok = lo is not None and lo >= 0
            ctx.ob("R18.9", "from_x509:valid-certificate-gets-a-non-negative-value", ok, "src/util/cert_analyzer.rs:%s" % body.blocks[bi]["tspan"]["line"],
                   "in the still-valid branch the value is at least %s" % lo if ok else "a certificate that is still valid can get a negative days_until_expiry (`%s`): it would be refused as expired" % fmt(alt)[:70])


def r10_server_keeps_the_shared_slot(ctx):
    """the server serves from the slot the reloader swaps: `Server::new_with_reloadable_tls` stores the `Arc<RwLock<..>>` it is
    given — the very object, not a fresh slot initialised with a copy of its current content (that server would present the
    start-up certificate for ever, while the reloader's own info and counters report every reload as done)"""
    from .common import param
    b = ctx.body("R18.10", "server::server::Server::new_with_reloadable_tls")
    if b is None:
        return
    o = ctx.origins(b)
    slot = param(b, 1)
    stored = None
    for bi in sorted(b.reachable()):
        for st in b.blocks[bi]["stmts"]:
            if st["s"] == "assign" and st["rv"]["r"] == "aggregate" and str(st["rv"]["kind"].get("adt", "")).endswith("server::Server") and "tls_config" in (st["rv"]["kind"].get("fields") or []):
                stored = o.of_operand(st["rv"]["ops"][st["rv"]["kind"]["fields"].index("tls_config")])
    ok = stored is not None and var_name(stored) == slot
    ctx.ob("R18.10", "Server::new_with_reloadable_tls:stores-the-slot-it-was-given", ok, "src/server/server.rs:%s" % b.span.get("line", "?") if isinstance(b.span, dict) else "",
           "the server's tls_config is the caller's shared slot" if ok else
           "new_with_reloadable_tls does not store the slot it was given (tls_config = %s): the listening server no longer shares the cell CertReloader::reload swaps, so a successful reload is never used by "
           "any later handshake" % (fmt(stored)[:60] if stored is not None else "constructed elsewhere"))


def run(ctx):
    r9_expired_means_negative(ctx)
    from . import C20 as _C20
    _C20.r14_gauges_released_on_every_exit(ctx)     # a reload that fails leaves nothing behind that makes later reloads no-ops
    from . import effects
    effects.check_property(ctx, "C18")    # R18.E: no operation on shared protocol state outside the reviewed table
    r7_strict_parsing_and_fixed_paths(ctx)
    r6_info_is_about_the_leaf(ctx)
    r10_server_keeps_the_shared_slot(ctx)
    r1_r5_reload(ctx)
    r2_writers(ctx)
    r3_snapshot(ctx)
    r4_pair_validation(ctx)
