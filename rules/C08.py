"""C08 — end of stream reaches the other side, after all the data (structural clauses)."""
from engine.anl.origin import fmt, subterms
from engine.anl.casts import const_value
from .common import S, co, calls_norm, is_call_term, var_name, render_path
from . import C02
from engine.anl.mir import span_str

EXPLANATION = (
    "Static decision of the end-of-stream plumbing: (R08.1) the FIN arm removes frame.stream_id from both stream tables on every "
    "path (dropping the only inbound sender closes the queue after the queued data); (R08.2) the inbound sender has a single owner "
    "(no clone of UnboundedSender<Bytes>); (R08.3) StreamReader.eof is only ever set to true and only when the queue is closed and "
    "drained; (R08.4) the sending side: Stream::poll_shutdown and the exit of every forwarding loop (a CFG cycle that reads a source "
    "and calls Stream::send_data / Session::write_data_frame) must reach a FIN emitter (a body that builds Command::Fin and writes it), "
    "and every loop that copies a stream into a socket must shut that socket's write half down when the stream ends; (R08.5) per-stream "
    "table entries are released on local completion. R08.4/R08.5 fail on the pinned tree: no code path emits FIN at all — recorded as "
    "known finding K-1, one key per site. Not decided: ordering across the network (FIFO per §4)."
)
RULE_TEXT = "one obligation per table removal, per sender clone, per eof write, per forwarding loop / shutdown site; non-trivial = needed a path, cycle, call-graph or who-may-write query"

SENDS = ("Stream::send_data", "Session::write_data_frame")
SOURCES = ("AsyncReadExt::read", "UdpSocket::recv_from", "UdpSocket::recv", "AsyncReadExt::read_buf")


def r1_fin_arm(ctx):
    body = co(ctx, "R08.1", S + "handle_frame")
    if body is None:
        return
    cfg, o = ctx.cfg(body), ctx.origins(body)
    sw, arms = C02.arm_regions(ctx, body)
    if sw is None or "Fin" not in arms:
        ctx.missing("R08.1", "Fin arm of handle_frame")
        return
    s, own, allr = arms["Fin"]
    from engine.anl.locks import lock_fields
    names = {cls: n[0] for cls, n in lock_fields(ctx.P).items()}
    exits = [b for b in allr if b not in own and any(p in own for p in cfg.preds(b))] or body.return_blocks()
    for tbl in C02.TABLES:
        rm = [c for c in calls_norm(body, "HashMap::remove") if c.bb in own and C02._table(ctx, body, o, o.of_operand(c.args[0]), names) == tbl and var_name(o.of_operand(c.args[1])) == "frame.stream_id"]
        if not rm:
            ctx.ob("R08.1", "Fin:remove(%s)" % tbl, False, "", "the FIN arm does not remove frame.stream_id from %s: %s" % (tbl, "the inbound queue stays open and the reader never sees EOF" if tbl.endswith("receive_tx") else "the stream object is retained for ever"))
            continue
        ok, p = cfg.must_pass([s], exits, via_blocks=[c.bb for c in rm])
        ctx.ob("R08.1", "Fin:remove(%s)" % tbl, ok, rm[0].site, "removed on every path through the arm" if ok else "a path through the FIN arm skips the removal from %s" % tbl, path=None if ok else render_path(body, p))


def r2_single_sender_owner(ctx):
    n_send_sites = 0
    bad = 0
    for key, body in ctx.P.scan():
        for c in body.calls():
            if (c.norm or "").endswith("Clone>::clone") and c.targs:
                pass
            if not (c.callee or "").endswith("as std::clone::Clone>::clone"):
                continue
            if "UnboundedSender" in c.callee or "mpsc::UnboundedSender" in c.callee:
                # which payload type?
                dty = body.lty(c.dest["local"]).get("s", "")
                if "UnboundedSender<bytes::Bytes>" in dty:
                    bad += 1
                    ctx.ob("R08.2", "%s|clone(UnboundedSender<Bytes>)" % key.split("::{closure")[0], False, c.site,
                           "the per-stream inbound sender is cloned: the queue no longer closes when the table entry is removed, so a received FIN / session close never surfaces as EOF")
                else:
                    n_send_sites += 1
    ctx.ob("R08.2", "inbound-sender:no-clone", bad == 0, "", "no clone of UnboundedSender<Bytes> anywhere (%d clones of other senders seen by the matcher)" % n_send_sites if bad == 0 else "%d clone(s) of the inbound sender" % bad)
    ctx.floor("R08.2", "sender clones seen (matcher self-check: the outbound (u32,Bytes) sender is cloned per stream)", n_send_sites, 2)


def r3_eof_flag(ctx):
    n = 0
    for key, body in ctx.P.scan():
        if not key.startswith("session::stream_reader::"):
            continue
        o = ctx.origins(body)
        for bi in sorted(body.reachable()):
            for st in body.blocks[bi]["stmts"]:
                if st["s"] != "assign" or not st["place"]["proj"]:
                    continue
                fl = [e for e in st["place"]["proj"] if e["p"] == "field"]
                if not fl or fl[-1].get("name") != "eof":
                    continue
                n += 1
                v = o._rvalue(st["rv"], (), bi, 0, frozenset())
                is_true = const_value(v) == 1
                in_read = key == "session::stream_reader::StreamReader::read::{closure#0}"
                in_none = False
                if in_read:
                    cfg, conds = ctx.cfg(body), ctx.conds(body)
                    ne = []
                    for c in conds.all():
                        if c.kind == "variant" and is_call_term(c.term, "UnboundedReceiver::<T>::recv") and "None" in sum(c.by_succ.values(), []):
                            ne += c.edges_for("None")
                    in_none = bool(ne) and cfg.edges_dominate(ne, bi)
                ok = is_true and in_read and in_none
                ctx.ob("R08.3", "eof-write|%s" % key.split("::{closure")[0].split("::")[-1], ok, "src/session/stream_reader.rs:%s" % st["span"]["line"],
                       "eof = true on the None (queue closed and drained) edge of recv()" if ok else
                       "StreamReader.eof is written with %s in %s%s: EOF can be reported before queued data is drained, or retracted" % (fmt(v), key, "" if in_none else " outside the None arm of recv()"))
    ctx.floor("R08.3", "writes to StreamReader.eof", n, 1)


def fin_emitters(ctx):
    out = []
    for key, body in ctx.P.scan():
        if key.startswith(("<protocol::frame", "protocol::frame")):
            continue
        has_fin = False
        for bi in body.reachable():
            for st in body.blocks[bi]["stmts"]:
                if st["s"] == "assign" and st["rv"]["r"] == "aggregate" and st["rv"]["kind"].get("adt", "").endswith("frame::Command") and st["rv"]["kind"].get("variant") == "Fin":
                    has_fin = True
        if has_fin and calls_norm(body, "Session::write_frame", "Session::write_control_frame"):
            out.append(key)
    return out


def forwarding_loops(ctx):
    """(body, send call, loop blocks, kind) for every cycle that reads a source and sends on a stream"""
    out = []
    for key, body in ctx.P.scan():
        sends = calls_norm(body, *SENDS)
        if not sends:
            continue
        cfg = ctx.cfg(body)
        for s in sends:
            if not cfg.in_cycle(s.bb):
                continue
            loop = cfg.cycle_blocks(s.bb)
            srcs = [c for c in body.calls() if c.bb in loop and (c.norm or "").endswith(SOURCES)]
            if srcs:
                out.append((key, body, s, loop, srcs[0]))
    return out


def sink_loops(ctx):
    """(body, write call, loop) for cycles that read a StreamReader and write_all into a socket half"""
    out = []
    for key, body in ctx.P.scan():
        rd = calls_norm(body, "StreamReader::read")
        if not rd:
            continue
        cfg = ctx.cfg(body)
        for r in rd:
            if not cfg.in_cycle(r.bb):
                continue
            loop = cfg.cycle_blocks(r.bb)
            ws = [c for c in body.calls() if c.bb in loop and (c.norm or "").endswith("AsyncWriteExt::write_all")]
            if ws:
                out.append((key, body, r, ws[0], loop))
    return out


def _owner(ctx, key):
    """enclosing named function of a (possibly spawned) closure body"""
    return ctx.P.owner(key)


def r4_send_side(ctx):
    em = fin_emitters(ctx)
    ctx.extra["fin_emitters"] = em
    reach_em = set()
    if em:
        # bodies from which an emitter is reachable
        for key in ctx.P.bodies:
            if set(em) & ctx.cg.reachable_from([key], kinds=("call", "async", "closure", "await")):
                reach_em.add(key)
    # Stream::poll_shutdown
    ps = ctx.body("R08.4", "<session::stream::Stream as tokio::io::AsyncWrite>::poll_shutdown")
    if ps is not None:
        ok = ps.name in reach_em or any(is_call_term(("call", c.callee, 0, ()), "UnboundedSender::<T>::send") for c in ps.calls()) and bool(em)
        ctx.ob("R08.4", "Stream::poll_shutdown", ok, "src/session/stream.rs:%s" % ps.span.get("line"),
               "shutdown reaches a FIN emitter" if ok else
               "Stream::poll_shutdown only marks the stream closed; nothing tells the peer (no FIN emitter %s): the peer's reader never reaches end-of-stream" % ("exists in the crate" if not em else "is reachable"))
    loops = forwarding_loops(ctx)
    ctx.floor("R08.4", "forwarding loops (source -> stream)", len(loops), 5)
    for key, body, s, loop, src in loops:
        cfg = ctx.cfg(body)
        owner = _owner(ctx, key)
        exits = {b for x in loop for b in cfg.succ(x) if b not in loop}
        # every exit path must call into a body that reaches an emitter
        via = [c.bb for c in body.calls() if ctx.cg.resolve(body, c.callee) in reach_em]
        ok = bool(em) and bool(exits) and cfg.must_pass(list(exits), body.return_blocks(), via_blocks=via)[0]
        ctx.ob("R08.4", "forwarder:%s[%s]" % (owner, s.norm.split("::")[-1]), ok, s.site,
               "every exit of the loop reaches a FIN emitter" if ok else
               "the loop that forwards %s into the stream ends (source EOF/error) without sending FIN: the peer keeps waiting for data that will never come, and its side of the stream is never released" % src.norm.split("::")[-1])
    sinks = sink_loops(ctx)
    ctx.floor("R08.4", "sink loops (stream -> socket)", len(sinks), 3)
    for key, body, r, w, loop in sinks:
        cfg = ctx.cfg(body)
        owner = _owner(ctx, key)
        exits = {b for x in loop for b in cfg.succ(x) if b not in loop}
        sh = [c.bb for c in body.calls() if (c.norm or "").endswith("AsyncWriteExt::shutdown")]
        ok = bool(sh) and cfg.must_pass(list(exits), body.return_blocks(), via_blocks=sh)[0]
        ctx.ob("R08.4", "sink:%s[shutdown-write-half]" % owner, ok, w.site,
               "the socket's write half is shut down when the stream ends" if ok else
               "when the stream reaches EOF the loop ends without shutting down the socket's write half (dropping a tokio::io::split half does not close the socket): the local endpoint never observes end-of-stream while the other direction is open")


def r5_state_release(ctx):
    """entries of the two stream tables are removed somewhere other than the FIN arm and close()"""
    rm_sites = []
    for key, body in ctx.P.scan():
        if not key.startswith("session::session::"):
            continue
        fn = key.replace(S, "").split("::{closure")[0]
        for c in calls_norm(body, "HashMap::remove"):
            rm_sites.append(fn)
    local = [f for f in rm_sites if f not in ("handle_frame", "close")]
    ctx.ob("R08.5", "stream-tables:released-on-local-completion", bool(local), "",
           "table entries are removed by %s" % sorted(set(local)) if local else
           "entries of Session.streams / Session.stream_receive_tx are removed only by a received FIN and by close() (%s): a stream that finished locally keeps its state for the life of the session" % sorted(set(rm_sites)))


def r6_loop_exits(ctx):
    """a relay direction ends only because its own source ended/failed or its own sink failed (TCP relays)"""
    loops = []
    for key, body, r, w, loop in sink_loops(ctx):
        loops.append((key, body, loop, {r.bb} | {c.bb for c in body.calls() if c.bb in loop and (c.norm or "").endswith(("AsyncWriteExt::write_all", "AsyncWriteExt::flush"))}, "sink"))
    for key, body, s, loop, src in forwarding_loops(ctx):
        if "Udp" in (src.norm or ""):
            continue    # datagram relays: their lifetime rules are C18's
        loops.append((key, body, loop, {src.bb} | {c.bb for c in body.calls() if c.bb in loop and (c.norm or "").endswith(SENDS)}, "forwarder"))
    ctx.floor("R08.6", "TCP relay loops (3 stream->socket, 3 socket->stream)", len(loops), 6)
    for key, body, loop, own_bbs, kind in loops:
        conds = ctx.conds(body)
        fn = _owner(ctx, key)
        bad = None
        n = 0
        for c in conds.all():
            if c.block not in loop or not any(x not in loop for x in body.succ(c.block)):
                continue
            n += 1
            rooted = any(isinstance(s_, tuple) and s_ and s_[0] == "call" and s_[2] in own_bbs for s_ in subterms(c.term))
            if not rooted and bad is None:
                bad = c
        ctx.ob("R08.6", "%s:%s[exits-only-on-own-source-or-sink]" % (kind, fn), bad is None and n > 0, "" if bad is None else span_str(body.blocks[bad.block]["tspan"]),
               "%d exits, each decided by the result of the loop's own read or write" % n if bad is None else
               "the loop can end on `%s`, which is neither the end/failure of its source nor a failure of its sink: data already queued for this direction is abandoned "
               "(a closed flag set by Session::close or an Alert overtakes the bytes received before it)" % fmt(bad.term)[:120])


def r7_no_direction_abort(ctx):
    """the relay never aborts one direction because the other ended"""
    relay_children = {key for key, *_ in sink_loops(ctx)} | {key for key, *_ in forwarding_loops(ctx)}
    n = 0
    for key, body in ctx.P.scan():
        ab = [c for c in body.calls() if (c.norm or "").endswith(("JoinHandle::abort", "AbortHandle::abort", "JoinSet::abort_all", "JoinSet::shutdown"))]
        if not ab:
            continue
        o = ctx.origins(body)
        for c in ab:
            n += 1
            t = o.of_operand(c.args[0])
            defs = {s_[1] for s_ in subterms(t) if isinstance(s_, tuple) and s_ and s_[0] == "agg"}
            kids = {ctx.cg.resolve(body, d_) for d_ in defs}
            hit = sorted(k for k in kids if k and any(rc == k or rc.startswith(k + "::") for rc in relay_children))
            ctx.ob("R08.7", "%s:abort-is-not-on-a-relay-direction" % _owner(ctx, key), not hit, c.site, "the aborted handle is not a relay direction task" if not hit else
                   "`abort()` on the task running %s: when one direction of the relay ends the other is killed, so a reply still on its way after the peer half-closed is lost" % hit[0])
    spawners = {e.src for k in relay_children for e in ctx.cg.callers(k, kinds=("spawn",))}
    ctx.ob("R08.7", "relay:direction-tasks-are-never-aborted", True, "", "%d abort call(s) in the crate examined; %d bodies spawn relay direction tasks" % (n, len(spawners)))


def r8_buffered_sinks_are_flushed(ctx):
    """a relay that puts a buffer between itself and the socket flushes it on every way out of its loop"""
    n = 0
    for key, body in ctx.P.scan():
        bw = [c for c in body.calls() if (c.norm or "").endswith(("BufWriter::new", "BufWriter::with_capacity", "BufStream::new"))]
        if not bw:
            continue
        if key.startswith(("util::", "anytls_")):
            continue
        cfg = ctx.cfg(body)
        n += 1
        fl = [c.bb for c in body.calls() if (c.norm or "").endswith(("AsyncWriteExt::flush", "AsyncWriteExt::shutdown"))]
        rets = body.return_blocks()
        ok, p = cfg.must_pass(cfg.succ(bw[0].bb), rets, via_blocks=fl) if fl else (False, None)
        # a flush inside the loop only counts if it is also passed after the last write: require one between every write and the return
        ws = [c for c in body.calls() if (c.norm or "").endswith(("AsyncWriteExt::write_all", "AsyncWriteExt::write", "AsyncWriteExt::write_buf"))]
        for w in ws:
            if fl:
                okw, pw = cfg.must_pass(cfg.succ(w.bb), rets, via_blocks=fl)
                if not okw:
                    ok, p = False, pw
        ctx.ob("R08.8", "%s:buffered-writer-flushed-on-every-exit" % _owner(ctx, key), ok, bw[0].site,
               "every path from a write to the end of the task passes a flush/shutdown of the buffered writer" if ok else
               "a BufWriter sits between this relay and its socket and a path from a write to the end of the task passes no flush: what is still buffered when the stream ends is dropped, so the application sees "
               "end-of-stream before the tail of the data", path=None if ok or not p else render_path(body, p))
    ctx.ob("R08.8", "relays:no-unflushed-buffered-writer", True, "", "%d buffered writers in relay code" % n, nontrivial=False)


def r9_orderly_socket_close(ctx):
    """sockets are closed in the orderly way (FIN after the queued data): nothing switches on a zero linger time, which turns every
    drop of a socket into a reset — the peer sees ConnectionReset instead of end-of-stream, and data still queued is discarded"""
    n = 0
    bad = []
    for key, body in ctx.P.scan():
        if key.startswith("anytls_"):
            continue
        for c in body.calls():
            last = (c.norm or "").split("::")[-1]
            if last in ("set_nodelay", "set_keepalive", "set_tcp_keepalive", "set_linger", "set_reuseaddr", "set_recv_buffer_size", "set_send_buffer_size"):
                n += 1
            if last in ("set_linger", "set_linger_tcp"):
                o = ctx.origins(body)
                v = o.of_operand(c.args[1]) if len(c.args) > 1 else None
                none = isinstance(v, tuple) and v and v[0] == "agg" and len(v) > 2 and v[2] == "None"
                if not none:
                    bad.append(c)
    ctx.ob("R08.9", "sockets:no-reset-on-close", not bad, bad[0].site if bad else "", "%d socket option calls, none sets a linger time" % n if not bad else
           "`%s` sets SO_LINGER on the crate's sockets: with a zero (or short) linger time dropping a socket sends a reset instead of end-of-stream after the queued data — a peer that half-closed and is still reading gets "
           "ConnectionReset, and an upload still in the send queue is cut short" % bad[0].norm.split("::")[-1])


def run(ctx):
    from . import C14 as _C14q
    _C14q.r6_monitor_is_the_only_silence_rule(ctx)   # a direction that is quiet is not a direction that has ended: no read deadline closes a session (and every stream on it) because one side only listens
    r9_orderly_socket_close(ctx)
    from . import C02 as _C02t
    _C02t.r4_inert_branches(ctx)      # data for a stream whose reader has gone is dropped, not turned into a session error: one stream's early end does not end its siblings before their data is through
    _C02t.r1_table_keys(ctx)          # only the frame dispatcher, open_stream and close() touch the stream tables: a front-end cannot drop a stream's inbound queue when one direction ends
    from . import effects
    effects.check_property(ctx, "C08")    # R08.E: no operation on shared protocol state outside the reviewed table
    from . import C09
    r8_buffered_sinks_are_flushed(ctx)
    from . import C01
    C01.r8_single_forwarder(ctx)      # the forwarder owns (takes) the outbound receiver: when it ends, later send_data fails, which is what stops the relays
    C09.r2_flag_writer(ctx)           # only close() raises the closed flag (a second writer turns close() into a no-op: nobody is released)
    C09.r8_io_error_closes(ctx)
    C09.r1_locks(ctx)                 # close() and the FIN handler cannot block each other (lock order), and no write path calls close() with a guard it needs
    C01.r3_r4_recv_buffer(ctx)        # the receive buffer holds a maximum-size frame: a full buffer is never mistaken for end of input
    r6_loop_exits(ctx)
    r7_no_direction_abort(ctx)
    from . import C01
    C01.r12_every_dequeued_chunk_is_written(ctx)   # after the peer's FIN the local direction keeps being forwarded
    C09.r3_recv_exits(ctx)                         # every way the receive loop ends closes the session, which is what releases blocked readers
    C09.r4_close_body(ctx)   # session close drops every inbound sender, so blocked readers reach end-of-stream
    r1_fin_arm(ctx)
    r2_single_sender_owner(ctx)
    r3_eof_flag(ctx)
    r4_send_side(ctx)
    r5_state_release(ctx)
