"""C13 — sessions are reused instead of re-dialled (structural clauses)."""
from engine.anl.origin import fmt, subterms
from .common import S, co, calls_norm, is_call_term, var_name, render_path, param

from .common import ok_return_blocks as _okret

EXPLANATION = (
    "Static decision of the reuse plumbing: (R13.1) in Client::create_stream a new session is dialled only on the None edge of "
    "get_idle_session, and the Some edge returns the pooled session; (R13.2) a session taken out of the idle map must be able to come "
    "back: SessionPool::add_idle_session needs a caller on a stream-completion path (anything other than session creation). R13.2 fails "
    "on the pinned tree — the only caller is create_new_session and get_idle_session removes the entry for good, so the third sequential "
    "request dials again although the first session is healthy and idle, and un-pooled sessions accumulate (known finding K-3). "
    "Not decided: the numeric bound on open sessions (history dependent)."
)
RULE_TEXT = "one obligation per dial site and per (re)insertion path; non-trivial = needed a dominance or call-graph query"

CL = "client::client::Client::"


POOL = "client::session_pool::SessionPool::"


def r3_skip_closed(ctx):
    """a closed entry is skipped, not taken as 'the pool is empty': from the closed edge control goes back to the scan"""
    g = co(ctx, "R13.3", POOL + "get_idle_session")
    if g is None:
        return
    cfg, conds = ctx.cfg(g), ctx.conds(g)
    scan = calls_norm(g, "BTreeMap::last_key_value", "BTreeMap::first_key_value", "BTreeMap::pop_last", "BTreeMap::pop_first", "BTreeMap::iter", "BTreeMap::keys", "BTreeMap::values",
                      "BTreeMap::last_entry", "BTreeMap::first_entry", "BTreeMap::range", "BTreeMap::iter_mut", "BTreeMap::into_iter", "BTreeMap::retain")
    te = []
    for c in conds.all():
        if c.kind == "bool" and is_call_term(c.term, "Session::is_closed"):
            te += c.edges_for(True)
    if not scan or not te:
        ctx.missing("R13.3", "scan of the idle map / is_closed() test in get_idle_session")
        return
    ok, p = cfg.must_pass([e[1] for e in te], g.return_blocks(), via_blocks=[c.bb for c in scan])
    ctx.ob("R13.3", "get_idle_session:closed-entry-is-skipped", ok, scan[0].site, "after discarding a closed entry the pool is scanned again before anything is returned" if ok else
           "after finding a closed entry get_idle_session can return (None) without looking at the remaining entries: create_stream then dials a new TLS session although a healthy idle session is still pooled underneath",
           path=None if ok else render_path(g, p))


def r3b_open_entry_is_returned(ctx):
    """an entry that is still open is what get_idle_session returns: nothing but `closed` makes it discard a pooled session
    (the reaper, not the reuse path, decides about age — it keeps the idle minimum beyond idle_timeout on purpose)"""
    g = co(ctx, "R13.3", POOL + "get_idle_session")
    if g is None:
        return
    cfg, conds = ctx.cfg(g), ctx.conds(g)
    scan = calls_norm(g, "BTreeMap::last_key_value", "BTreeMap::first_key_value", "BTreeMap::pop_last", "BTreeMap::pop_first", "BTreeMap::last_entry", "BTreeMap::first_entry")
    fe = []
    for c in conds.all():
        if c.kind == "bool" and is_call_term(c.term, "Session::is_closed"):
            fe += c.edges_for(False)
    if not scan or not fe:
        return      # r3_skip_closed reports the missing anchors
    back = cfg.reach([e[1] for e in fe]) & {c.bb for c in scan}
    nones = [bi for kind, bi, si, rv in g.defs().get(0, []) if kind == "assign" and rv["r"] == "aggregate" and rv["kind"].get("variant") == "None"]
    none_after = cfg.reach([e[1] for e in fe]) & set(nones)
    ok = not back and not none_after
    ctx.ob("R13.3", "get_idle_session:open-entry-is-returned", ok, scan[0].site, "once an entry is found open, every path returns it" if ok else
           "an entry that is open can still be discarded (control goes back to the scan / returns None after the is_closed()==false edge): the session the reaper deliberately kept as idle minimum is dropped "
           "from the map unclosed at the moment it is needed, and the request dials a new TLS connection")


def r4_pool_keys(ctx):
    """every pooled session has its own key: create_new_session gives each session a fresh sequence number before pooling it,
    and the pool keys entries by that number"""
    cn = co(ctx, "R13.4", CL + "create_new_session")
    if cn is not None:
        cfg, o = ctx.cfg(cn), ctx.origins(cn)
        ss = calls_norm(cn, "Session::set_seq")
        add = calls_norm(cn, "SessionPool::add_idle_session")
        if not ss:
            ctx.ob("R13.4", "create_new_session:assigns-unique-seq", False, "", "a new session is pooled without being given a sequence number (Session::set_seq is never called): every session keeps seq 0, so each newly pooled "
                   "session replaces the one already in the idle map; the replaced session is healthy but can never be reused or reaped")
        elif add:
            v = o.of_operand(ss[0].args[1])
            uniq = is_call_term(v, "::fetch_add") and any(isinstance(s_, tuple) and s_[0] == "static" for s_ in subterms(v))
            same = any(is_call_term(s_, "Session::new_client") for s_ in subterms(o.of_operand(ss[0].args[0]))) and any(is_call_term(s_, "Session::new_client") for s_ in subterms(o.of_operand(add[0].args[1])))
            ok = uniq and same and cfg.dominates(ss[0].bb, add[0].bb)
            ctx.ob("R13.4", "create_new_session:assigns-unique-seq", ok, ss[0].site, "set_seq(fetch_add(static counter)) on the new session dominates add_idle_session" if ok else
                   "the session is pooled with a sequence number that is not a fresh fetch_add of the process-wide counter (%s): pool keys can collide and one session silently replaces another" % fmt(v)[:80])
    ad = co(ctx, "R13.4", POOL + "add_idle_session")
    if ad is not None:
        o = ctx.origins(ad)
        ins = calls_norm(ad, "BTreeMap::insert")
        if ins:
            k = o.of_operand(ins[0].args[1])
            ok = is_call_term(k, "Session::seq") and var_name(k[3][0]) == param(ad, 1)
            ctx.ob("R13.4", "add_idle_session:keyed-by-session-seq", ok, ins[0].site, "the idle map is keyed by session.seq()" if ok else "the idle map key is %s" % fmt(k)[:80])
    for fn, kind in (("set_seq", "store"), ("seq", "load")):
        b = ctx.body("R13.4", S + fn)
        if b is None:
            continue
        ob = ctx.origins(b)
        from .common import atomic_method
        cs = [c for c in b.calls() if atomic_method(c) == kind and var_name(ob.of_operand(c.args[0])) == "self.seq"]
        ok = bool(cs) and (kind == "load" or var_name(ob.of_operand(cs[0].args[1])) == param(b, 1))
        ctx.ob("R13.4", "Session::%s:is-the-seq-field" % fn, ok, cs[0].site if cs else "", "Session::%s %ss self.seq" % (fn, kind) if ok else "Session::%s does not %s self.seq" % (fn, kind))


REQUEST_PATH = ("client::client::", "client::socks5::", "client::http_proxy::", "client::udp_client::")


def r6_dialled_session_is_pooled(ctx):
    """a freshly dialled session enters the idle map before anything about its first request can fail"""
    body = co(ctx, "R13.6", CL + "create_new_session")
    if body is None:
        return
    cfg = ctx.cfg(body)
    add = calls_norm(body, "SessionPool::add_idle_session")
    ok_rets = _okret(body, ctx.origins(body))
    if not ok_rets:
        ctx.missing("R13.6", "Ok return of create_new_session")
        return
    if not add:
        ctx.ob("R13.6", "create_new_session:pools-what-it-dialled", False, "", "create_new_session returns a session without putting it into the idle map: when the first request on it fails for a reason that has "
               "nothing to do with the session (destination refused, SYNACK timeout, name too long) the healthy session stays open but unreachable and the next request dials again")
        return
    ok, p = cfg.must_pass([0], ok_rets, via_blocks=[a.bb for a in add])
    ctx.ob("R13.6", "create_new_session:pools-what-it-dialled", ok, add[0].site, "every successful return of create_new_session has passed add_idle_session" if ok else
           "create_new_session can succeed without pooling the session", path=None if ok else render_path(body, p))


def r7_pool_config_is_what_was_given(ctx):
    """the pool runs with the configuration the user passed: Client::with_pool_config hands its parameter to the pool as it is"""
    body = ctx.body("R13.7", CL + "with_pool_config")
    if body is None:
        return
    o = ctx.origins(body)
    wc = calls_norm(body, "SessionPool::with_config")
    if not ctx.floor("R13.7", "SessionPool::with_config call in Client::with_pool_config", len(wc), 1):
        return
    t = o.of_operand(wc[0].args[0])
    pc = param(body, 5)
    direct = var_name(t) == pc
    rebuilt = [s_ for s_ in subterms(t) if isinstance(s_, tuple) and s_ and s_[0] == "agg" and "SessionPoolConfig" in str(s_[1])]
    dflt = [s_ for s_ in subterms(t) if is_call_term(s_, "Default>::default", "SessionPoolConfig::default")]
    ok = direct and not rebuilt and not dflt
    ctx.ob("R13.7", "with_pool_config:passes-the-given-config-on", ok, wc[0].site, "SessionPool::with_config(pool_config) — the parameter itself" if ok else
           "the pool is built from `%s`, not from the configuration that was passed in: fields that are not copied (min_idle_sessions) silently fall back to their defaults, so the configured idle minimum is not kept "
           "(or one session is kept for ever although 0 was configured)" % fmt(t)[:80])


def r5_request_path_never_closes(ctx):
    """a failed request gives up its stream, not the session it ran on"""
    n = 0
    bad = []
    for key, body in ctx.P.scan():
        if not key.startswith(REQUEST_PATH):
            continue
        n += 1
        for c in calls_norm(body, "Session::close"):
            bad.append((key, c))
    ctx.floor("R13.5", "bodies on the client request path", n, 20)
    ctx.ob("R13.5", "request-path:never-closes-a-session", not bad, bad[0][1].site if bad else "",
           "%d request-path bodies examined: Session::close is called only by the session's own tasks and the pool's reaper" % n if not bad else
           "%s calls Session::close: one failing request (unreachable destination, SYNACK timeout) tears down the shared session — the tunnels of the other requests on it die and the next request has to dial" % bad[0][0].split("::{closure")[0])


def r8_none_only_when_the_scan_found_nothing(ctx):
    """`None` means "the pool holds no usable session" and makes create_stream dial: once the scan has seen an entry, the only
    ways on are to return an open session or to scan again.  A look-up that peeks under one guard and takes under another must
    look again when the entry has gone in between, not answer None while healthy sessions are still pooled."""
    g = co(ctx, "R13.8", POOL + "get_idle_session")
    if g is None:
        return
    cfg, conds = ctx.cfg(g), ctx.conds(g)
    SCAN = ("BTreeMap::last_key_value", "BTreeMap::first_key_value", "BTreeMap::pop_last", "BTreeMap::pop_first", "BTreeMap::last_entry", "BTreeMap::first_entry",
            "BTreeMap::keys", "BTreeMap::iter", "BTreeMap::values")
    scan = calls_norm(g, *SCAN)
    some_e, fe = [], []
    for c in conds.all():
        if c.kind == "variant" and any(is_call_term(s_, *SCAN) for s_ in subterms(c.term)) and not any(is_call_term(s_, "BTreeMap::remove") for s_ in subterms(c.term)):
            some_e += c.edges_for("Some")
        if c.kind == "bool" and is_call_term(c.term, "Session::is_closed"):
            fe += c.edges_for(False)
    if not scan or not some_e or not fe:
        return      # other shapes are covered by R13.3 only
    ok, p = cfg.must_pass([e[1] for e in some_e], g.return_blocks(), via_blocks=[c.bb for c in scan], via_edges=fe)
    ctx.ob("R13.8", "get_idle_session:none-only-when-the-scan-found-nothing", ok, scan[0].site, "after the scan has seen an entry the function either returns an open session or scans again" if ok else
           "after the scan has seen an entry get_idle_session can still return without an open session and without scanning again (the entry had been taken by a concurrent look-up between the peek and the removal): "
           "create_stream reads that as an empty pool and dials a new TLS connection while healthy idle sessions stay unused", path=None if ok else render_path(g, p))


def r9_lookup_makes_progress(ctx):
    """the look-up terminates: every turn of its loop takes an entry out of the map (the clean code removes the newest entry and
    only then asks whether it is closed).  A variant that leaves a closed entry in place and "moves on" with an inclusive bound
    meets the same entry again — with the pool lock held, so neither the reaper nor any other request gets past it"""
    g = co(ctx, "R13.9", POOL + "get_idle_session")
    if g is None:
        return
    cfg = ctx.cfg(g)
    scan = calls_norm(g, "BTreeMap::last_key_value", "BTreeMap::first_key_value", "BTreeMap::pop_last", "BTreeMap::pop_first", "BTreeMap::last_entry", "BTreeMap::first_entry",
                      "BTreeMap::keys", "BTreeMap::iter", "BTreeMap::values", "BTreeMap::range", "BTreeMap::range_mut")
    takes = calls_norm(g, "BTreeMap::remove", "BTreeMap::pop_last", "BTreeMap::pop_first", "BTreeMap::remove_entry", "OccupiedEntry::remove", "OccupiedEntry::remove_entry", "BTreeMap::retain")
    loops = [c for c in scan if cfg.in_cycle(c.bb)]
    if not loops:
        ctx.ob("R13.9", "get_idle_session:every-turn-removes-an-entry", True, scan[0].site if scan else "", "the look-up does not loop")
        return
    ok, p = cfg.must_pass(cfg.succ(loops[0].bb), [loops[0].bb], via_blocks=[c.bb for c in takes])
    ctx.ob("R13.9", "get_idle_session:every-turn-removes-an-entry", ok, loops[0].site, "no way round the loop leaves the map as it was" if ok else
           "the look-up can go round its loop without removing anything from the map: it meets the same (closed) entry again and spins, holding the pool lock — the request gets no outcome at all, and every later "
           "request and the reaper park behind it", path=None if ok else render_path(g, p)[:12])


def run(ctx):
    from . import C20 as _C20t
    _C20t.r12_subtractions(ctx, _C20t.input_reachable(ctx))   # no subtraction (sizes, Durations) that can underflow and kill the task that computes it
    from . import effects
    effects.check_property(ctx, "C13")    # R13.E: no operation on shared protocol state outside the reviewed table
    body = co(ctx, "R13.1", CL + "create_stream")
    if body is not None:
        cfg, conds, o = ctx.cfg(body), ctx.conds(body), ctx.origins(body)
        none_e, some_e = [], []
        for c in conds.all():
            if c.kind == "variant" and is_call_term(c.term, "SessionPool::get_idle_session") and "None" in sum(c.by_succ.values(), []):
                none_e += c.edges_for("None")
                some_e += c.edges_for("Some")
        dial = calls_norm(body, "Client::create_new_session")
        if ctx.floor("R13.1", "create_new_session call in create_stream", len(dial), 1) and none_e:
            ok = all(cfg.edges_dominate(none_e, d.bb) for d in dial)
            ctx.ob("R13.1", "create_stream:dial-only-when-pool-empty", ok, dial[0].site, "create_new_session is dominated by the None edge of get_idle_session" if ok else
                   "a new TLS session can be dialled although the pool returned a reusable one")
            rets = [(bi, rv) for kind, bi, si, rv in body.defs().get(0, []) if kind == "assign" and rv["r"] == "aggregate" and rv["kind"].get("variant") == "Ok"]
            reuse = [bi for bi, rv in rets if cfg.edges_dominate(some_e, bi) and any(is_call_term(s, "SessionPool::get_idle_session") for s in subterms(o.of_operand(rv["ops"][0])))]
            ctx.ob("R13.1", "create_stream:pooled-session-returned", bool(reuse), "", "the Some edge returns the session taken from the pool" if reuse else "the session found in the pool is not what create_stream returns")
        elif not none_e:
            ctx.missing("R13.1", "match on get_idle_session in create_stream")
    from . import C01 as _C01n
    _C01n.r3_r4_recv_buffer(ctx)    # a healthy session survives any legal frame: nothing caps the receive buffer below the largest one (a capped read returns 0 bytes, which is read as the peer closing)
    from . import C02 as _C02n, C14 as _C14n
    _C02n.r6_no_alert_for_one_stream(ctx)     # one unanswerable stream does not cost the client its (pooled) session
    _C14n.r5_every_tick_probes(ctx)           # the monitor of a healthy pooled session keeps probing whatever else the session is doing: it is not closed for a stale reference instant
    r3_skip_closed(ctx)
    r3b_open_entry_is_returned(ctx)
    r8_none_only_when_the_scan_found_nothing(ctx)
    r9_lookup_makes_progress(ctx)
    from . import C09 as _C09c
    _C09c.r12_close_is_never_cancelled(ctx)   # a session the pool forgets is really shut down: a cancelled close() leaves its TLS connection open for good, outside every bound
    _C09c.r3_recv_exits(ctx)    # a session whose receive task has ended says so (is_closed): get_idle_session skips it instead of handing a dead session to the next request
    r7_pool_config_is_what_was_given(ctx)
    r6_dialled_session_is_pooled(ctx)
    r4_pool_keys(ctx)
    r5_request_path_never_closes(ctx)
    from . import C12
    C12.r2_to_r6_reapers(ctx, only=("R12.2", "R12.3", "R12.5"))    # the idle minimum keeps *live* sessions: a reaper that counts dead ones closes the healthy session behind them
    # R13.2: who re-inserts
    callers = [e for e in ctx.cg.callers("client::session_pool::SessionPool::add_idle_session") if e.kind in ("call", "spawn")]
    owners = sorted({e.src.split("::{closure")[0] for e in callers})
    ctx.floor("R13.2", "callers of add_idle_session", len(callers), 1)
    other = [o_ for o_ in owners if o_ != CL + "create_new_session"]
    ctx.ob("R13.2", "idle-map:sessions-return-after-use", bool(other), "",
           "add_idle_session is also called from %s" % other if other else
           "the only caller of add_idle_session is create_new_session; get_idle_session removes the entry, so a borrowed session never returns to the idle map: requests 1,2,3 in sequence -> 1 dials S1, "
           "2 borrows S1 for good, 3 dials S2 although S1 is healthy and idle; S1 is never reaped (not in the map) and its heartbeat keeps it alive -> sessions grow without bound")
