"""C13 — sessions are reused instead of re-dialled (structural clauses)."""
from engine.anl.origin import fmt, subterms
from .common import S, co, calls_norm, is_call_term, var_name, render_path

EXPLANATION = (
    "Static decision of the reuse plumbing: (R13.1) in Client::create_stream a new session is dialled only on the None edge of "
    "get_idle_session, and the Some edge returns the pooled session; (R13.2) a session taken out of the idle map must be able to come "
    "back: SessionPool::add_idle_session needs a caller on a stream-completion path (anything other than session creation). R13.2 fails "
    "on the pinned tree — the only caller is create_new_session and get_idle_session removes the entry for good, so the third sequential "
    "request dials again although the first session is healthy and idle, and un-pooled sessions accumulate (known finding K-3). "
    "Not decided: the numeric bound on open sessions (history dependent)."
)
RULE_TEXT = "one obligation per dial site and per (re)insertion path; non-trivial = needed a dominance or call-graph query"

CL = "client::client::Client::"


def run(ctx):
    body = co(ctx, "R13.1", CL + "create_stream")
    if body is not None:
        cfg, conds, o = ctx.cfg(body), ctx.conds(body), ctx.origins(body)
        none_e, some_e = [], []
        for c in conds.all():
            if c.kind == "variant" and is_call_term(c.term, "SessionPool::get_idle_session") and "None" in sum(c.by_succ.values(), []):
                none_e += c.edges_for("None")
                some_e += c.edges_for("Some")
        dial = calls_norm(body, "Client::create_new_session")
        if ctx.floor("R13.1", "create_new_session call in create_stream", len(dial), 1) and none_e:
            ok = all(cfg.edges_dominate(none_e, d.bb) for d in dial)
            ctx.ob("R13.1", "create_stream:dial-only-when-pool-empty", ok, dial[0].site, "create_new_session is dominated by the None edge of get_idle_session" if ok else
                   "a new TLS session can be dialled although the pool returned a reusable one")
            rets = [(bi, rv) for kind, bi, si, rv in body.defs().get(0, []) if kind == "assign" and rv["r"] == "aggregate" and rv["kind"].get("variant") == "Ok"]
            reuse = [bi for bi, rv in rets if cfg.edges_dominate(some_e, bi) and any(is_call_term(s, "SessionPool::get_idle_session") for s in subterms(o.of_operand(rv["ops"][0])))]
            ctx.ob("R13.1", "create_stream:pooled-session-returned", bool(reuse), "", "the Some edge returns the session taken from the pool" if reuse else "the session found in the pool is not what create_stream returns")
        elif not none_e:
            ctx.missing("R13.1", "match on get_idle_session in create_stream")
    # R13.2: who re-inserts
    callers = [e for e in ctx.cg.callers("client::session_pool::SessionPool::add_idle_session") if e.kind in ("call", "spawn")]
    owners = sorted({e.src.split("::{closure")[0] for e in callers})
    ctx.floor("R13.2", "callers of add_idle_session", len(callers), 1)
    other = [o_ for o_ in owners if o_ != CL + "create_new_session"]
    ctx.ob("R13.2", "idle-map:sessions-return-after-use", bool(other), "",
           "add_idle_session is also called from %s" % other if other else
           "the only caller of add_idle_session is create_new_session; get_idle_session removes the entry, so a borrowed session never returns to the idle map: requests 1,2,3 in sequence -> 1 dials S1, "
           "2 borrows S1 for good, 3 dials S2 although S1 is healthy and idle; S1 is never reaped (not in the map) and its heartbeat keeps it alive -> sessions grow without bound")
