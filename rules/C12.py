"""C12 — the pool never hands out or destroys the wrong session (structural clauses)."""
from engine.anl.locks import Held, lock_fields
from engine.anl.origin import fmt, subterms, strip_bb
from .common import S, co, calls_norm, is_call_term, var_name, render_path, upvar_sources, spawned_children

EXPLANATION = (
    "Static decision of the pool's decision structure, for both copies of the reaper (cleanup_expired and the periodic task) and "
    "the two pool entry points: (R12.1) get_idle_session returns a session only on the false edge of its is_closed(), and "
    "add_idle_session inserts only on the false edge; (R12.2) every selection of a live session for removal is dominated by the false "
    "edges of `idle < idle_timeout` and `active_count < min_idle`, the count compared with min_idle is only increased for sessions known "
    "to be open, and every close() operates on the entry just removed from the idle map under a key taken from the removal list; the two "
    "reaper copies have the same decision skeleton; (R12.3) closed sessions are selected for removal; (R12.4) housekeeping closes only "
    "sessions without open streams (fails on the pinned tree: no such check exists — known finding K-2, one key per reaper copy); "
    "(R12.5) interval, timeout and minimum are the configured values; (R12.6) selection, removal and close happen under one uninterrupted "
    "exclusive hold of the idle map, so a session handed out by get_idle_session can never be one the reaper has already selected. "
    "Not decided: 'eventually closes the surplus' as a timing statement."
)
RULE_TEXT = "one obligation per decision edge, per count increment, per close, per configuration operand and per reaper copy; non-trivial = needed a dominance, must-held or origin query"

POOL = "client::session_pool::SessionPool::"


def _reapers(ctx):
    out = []
    b = co(ctx, "R12.2", POOL + "cleanup_expired")
    if b is not None:
        out.append(("cleanup_expired", b))
    kids = [k for k in spawned_children(ctx, POOL + "start_cleanup_task") if calls_norm(k, "Session::close")]
    if not kids:
        ctx.missing("R12.2", "periodic reaper task spawned by SessionPool::start_cleanup_task")
    else:
        out.append(("periodic", kids[0]))
    return out


def _skeleton(ctx, name, body):
    cfg, conds, o = ctx.cfg(body), ctx.conds(body), ctx.origins(body)
    sk = {"closed_T": [], "closed_F": [], "fresh_T": [], "fresh_F": [], "min_T": [], "min_F": [], "min_terms": [], "timeout_terms": []}
    for c in conds.all():
        t = c.term
        if c.kind != "bool":
            continue
        if is_call_term(t, "Session::is_closed") and any(is_call_term(s, "Iterator>::next") for s in subterms(t)):
            sk["closed_T"] += c.edges_for(True)
            sk["closed_F"] += c.edges_for(False)
        elif is_call_term(t, "PartialOrd::lt", "PartialOrd>::lt") and any(is_call_term(s, "Instant::duration_since") for s in subterms(t)):
            sk["fresh_T"] += c.edges_for(True)
            sk["fresh_F"] += c.edges_for(False)
            sk["timeout_terms"].append(t[3][1])
        elif is_call_term(t, "PartialOrd::le", "PartialOrd>::le") and len(t[3]) == 2 and any(is_call_term(s, "Instant::duration_since") for s in subterms(t[3][1])) \
                and not any(is_call_term(s, "Instant::duration_since") for s in subterms(t[3][0])):
            # the same test spelt from the other side: `idle >= timeout` is canonicalised to le(timeout, idle); true = expired
            sk["fresh_T"] += c.edges_for(False)
            sk["fresh_F"] += c.edges_for(True)
            sk["timeout_terms"].append(t[3][0])
        elif isinstance(t, tuple) and t[0] == "binop" and t[1] == "Lt" and var_name(t[2]) and _is_min_operand(ctx, body, t[3]):
            # `<count of kept sessions> < <configured minimum>`: the count variable is whatever is compared with the minimum
            sk["min_T"] += c.edges_for(True)
            sk["min_F"] += c.edges_for(False)
            sk["min_terms"].append(t[3])
            sk["count_var"] = var_name(t[2])
    return sk


def _is_min_operand(ctx, body, t):
    v = var_name(t)
    if not v:
        return False
    if v.endswith(".min_idle_sessions"):
        return True
    ups, parent = upvar_sources(ctx, body)
    src = ups.get(v)
    return src is not None and (var_name(src) or "").endswith(".min_idle_sessions")


def r1_entry_points(ctx):
    g = co(ctx, "R12.1", POOL + "get_idle_session")
    if g is not None:
        cfg, conds, o = ctx.cfg(g), ctx.conds(g), ctx.origins(g)
        fe = []
        for c in conds.all():
            if c.kind == "bool" and is_call_term(c.term, "Session::is_closed"):
                fe += c.edges_for(False)
        rets = []
        for kind, bi, si, rv in g.defs().get(0, []):
            if kind == "assign" and rv["r"] == "aggregate" and rv["kind"].get("variant") == "Some":
                rets.append((bi, rv))
        if ctx.floor("R12.1", "Some(session) returns of get_idle_session", len(rets), 1):
            for bi, rv in rets:
                ok = bool(fe) and cfg.edges_dominate(fe, bi)
                t = o.of_operand(rv["ops"][0])
                same = any(is_call_term(s, "BTreeMap::<K, V, A>::remove", "::remove") for s in subterms(t))
                ctx.ob("R12.1", "get_idle_session:returns-open-session", ok and same, "src/client/session_pool.rs:%s" % g.blocks[bi]["tspan"]["line"],
                       "Some(session) is dominated by the false edge of that session's is_closed(); the session is the entry removed from the map" if ok and same else
                       "get_idle_session can return a session without having seen is_closed() == false for it")
    a = co(ctx, "R12.1", POOL + "add_idle_session")
    if a is not None:
        cfg, conds = ctx.cfg(a), ctx.conds(a)
        fe = []
        for c in conds.all():
            if c.kind == "bool" and is_call_term(c.term, "Session::is_closed"):
                fe += c.edges_for(False)
        ins = calls_norm(a, "BTreeMap::insert")
        if ctx.floor("R12.1", "insert into the idle map in add_idle_session", len(ins), 1):
            # ... and conversely an open session handed to the pool always ends up in the map with its idle clock restarted: the
            # only way through the function that does not insert is the closed edge
            okall, pth = cfg.must_pass([e[1] for e in fe], a.return_blocks(), via_blocks=[c.bb for c in ins]) if fe else (False, None)
            oa = ctx.origins(a)
            fresh = False
            for c in ins:
                v = oa.of_operand(c.args[2]) if len(c.args) > 2 else None
                ts = [v] + [oa.init_of(s_[2]) for s_ in subterms(v) if isinstance(s_, tuple) and s_ and s_[0] == "var" and len(s_) > 2]
                if any(is_call_term(s_, "Instant::now") for t_ in ts for s_ in subterms(t_)):
                    fresh = True
            ctx.ob("R12.1", "add_idle_session:open-session-always-(re)inserted-with-a-fresh-idle-instant", okall and fresh, ins[0].site,
                   "from the open edge every path inserts a PooledSession whose idle_since is Instant::now()" if okall and fresh else
                   "add_idle_session can return without (re)inserting an open session, or inserts it with an idle instant that is not `now` (an 'already in the pool' shortcut): a session handed back keeps the idle "
                   "clock of its first registration, and the reaper closes it as expired although it has been idle for seconds", path=None if okall or not pth else render_path(a, pth))
            ok = bool(fe) and all(cfg.edges_dominate(fe, c.bb) for c in ins)
            ctx.ob("R12.1", "add_idle_session:inserts-open-session", ok, ins[0].site, "the insert is dominated by the false edge of is_closed()" if ok else "a closed session can be inserted into the idle map")


class _Only:
    """view of a Ctx that records only the named rules (another property re-uses part of this module)"""
    def __init__(self, ctx, rules):
        self._c, self._r = ctx, rules

    def __getattr__(self, k):
        return getattr(self._c, k)

    def ob(self, rule, *a, **kw):
        if rule in self._r:
            return self._c.ob(rule, *a, **kw)

    def missing(self, rule, *a, **kw):
        if rule in self._r:
            return self._c.missing(rule, *a, **kw)

    def floor(self, rule, what, n, k):
        if rule in self._r:
            return self._c.floor(rule, what, n, k)
        return n >= k


def r2_to_r6_reapers(ctx, only=None):
    if only:
        ctx = _Only(ctx, only)
    names = {cls: n[0] for cls, n in lock_fields(ctx.P).items()}
    reapers = _reapers(ctx)
    sks = {}
    for name, body in reapers:
        cfg, conds, o = ctx.cfg(body), ctx.conds(body), ctx.origins(body)
        sk = _skeleton(ctx, name, body)
        sks[name] = sk
        for k, label in (("closed_F", "is_closed() test of the scanned session"), ("fresh_F", "`idle < idle_timeout` test"), ("min_F", "`active_count < min_idle` test")):
            if not sk[k]:
                ctx.ob("R12.2", "%s:decision:%s" % (name, k[:-2]), False, "", "the reaper has no %s" % label)
        if not (sk["closed_F"] and sk["fresh_F"] and sk["min_F"]):
            continue
        pushes = calls_norm(body, "Vec::push")
        n_live = n_closed = 0
        for p in pushes:
            if cfg.edges_dominate(sk["closed_T"], p.bb):
                n_closed += 1
                ctx.ob("R12.3", "%s:closed-sessions-selected" % name, True, p.site, "a closed session is put on the removal list")
                continue
            n_live += 1
            ok = cfg.edges_dominate(sk["closed_F"], p.bb) and cfg.edges_dominate(sk["fresh_F"], p.bb) and cfg.edges_dominate(sk["min_F"], p.bb)
            ctx.ob("R12.2", "%s:live-session-selected-only-if-expired-and-surplus" % name, ok, p.site,
                   "the selection is dominated by is_closed()==false, idle>=idle_timeout and active_count>=min_idle" if ok else
                   "a live session can be selected for closing without being both expired and surplus (selection not dominated by the false edges of `idle < idle_timeout` and `active_count < min_idle`)")
        if n_closed == 0:
            ctx.ob("R12.3", "%s:closed-sessions-selected" % name, False, "", "closed sessions are not purged from the idle map by this reaper")
        ctx.floor("R12.2", "%s: selections of live sessions" % name, n_live, 1)
        # the count compared with min_idle: every definition other than the initial constant is an increment on a path where the session is open
        ac = [l for l, nm in body.debug.items() if nm == sk.get("count_var")]
        if not ac:
            ctx.missing("R12.2", "%s: active_count variable" % name)
        else:
            defs = [d for d in body.defs().get(ac[0], []) if d[0] in ("assign", "call")]
            incs = 0
            for kind, bi, si, payload in defs:
                if kind == "assign" and payload["r"] == "use" and payload["op"]["o"] == "const":
                    continue
                t = o._rvalue(payload, (), bi, 0, frozenset()) if kind == "assign" else None
                is_inc = isinstance(t, tuple) and t[0] == "binop" and t[1] == "Add" and var_name(t[2]) == sk.get("count_var")
                guarded = cfg.edges_dominate(sk["closed_F"], bi) and (cfg.edges_dominate(sk["fresh_T"], bi) or cfg.edges_dominate(sk["min_T"], bi))
                incs += 1
                ctx.ob("R12.2", "%s:kept-count-counts-open-sessions#%d" % (name, incs), is_inc and guarded, "src/client/session_pool.rs:%s" % body.blocks[bi]["tspan"]["line"],
                       "active_count is incremented for an open session that is kept (fresh, or kept for min_idle)" if is_inc and guarded else
                       "the count compared with min_idle is not built from open, kept sessions only (definition `%s`%s): dead or to-be-removed entries count towards the minimum, so the reaper can close the last live idle session" %
                       (fmt(t)[:80] if t else body.term_str(bi)[:80], "" if guarded else ", not dominated by is_closed()==false and a keep decision"))
            ctx.floor("R12.2", "%s: increments of active_count" % name, incs, 2)
            # every pass over the map starts its count afresh (the periodic reaper runs one pass per tick, for ever)
            resets = [bi for kind, bi, si, payload in defs if kind == "assign" and payload["r"] == "use" and payload["op"]["o"] == "const"]
            passes = [c for c in calls_norm(body, "BTreeMap::iter", "BTreeMap::keys", "BTreeMap::values", "BTreeMap::iter_mut", "BTreeMap::range")]
            if resets and passes:
                okr = True
                pth = None
                for pc in passes:
                    if cfg.in_cycle(pc.bb):
                        okp, pth_ = cfg.must_pass(cfg.succ(pc.bb), [pc.bb], via_blocks=resets)
                        if not okp:
                            okr, pth = False, pth_
                ctx.ob("R12.2", "%s:kept-count-restarts-with-every-pass" % name, okr, "src/client/session_pool.rs:%s" % body.blocks[resets[0]]["tspan"]["line"],
                       "the count is set to its initial constant before every pass over the idle map" if okr else
                       "the count compared with min_idle is initialised once, outside the per-tick pass: it accumulates over ticks, so after a tick or two `count < min_idle` is never true again and the reaper closes "
                       "the sessions it is meant to keep as idle minimum (a sole pooled session is closed at its first expiry)", path=None if okr else render_path(body, pth))
            else:
                ctx.missing("R12.2", "%s: initialisation of the kept count / pass over the idle map" % name)
        # every close(): on the entry removed from the map under a key from the removal list
        closes = calls_norm(body, "Session::close")
        must = Held(body, must=True)
        scan_next = [c for c in calls_norm(body, "Iterator>::next") if "btree_map::Iter" in (c.callee or "")]
        for i, c in enumerate(closes):
            t = o.of_operand(c.args[0])
            rm = [s for s in subterms(t) if is_call_term(s, "::remove") and "BTreeMap" in s[1]]
            key_ok = bool(rm) and any(is_call_term(s, "Iterator>::next") and "slice::Iter" in s[1] for s in subterms(rm[0][3][1])) if rm else False
            ctx.ob("R12.2", "%s:close-operates-on-removed-entry#%d" % (name, i), bool(rm) and key_ok, c.site,
                   "close() is called on the entry just removed from the idle map under a key of the removal list" if rm and key_ok else
                   "close() is called on %s: not the entry removed from the idle map for a key on the removal list" % fmt(t)[:100])
            # R12.6 one exclusive hold from the scan to the close
            held_close = {(l, m, names.get(cls, cls)) for (l, m, cls) in must.held_at_call(c.bb)}
            held_scan = {(l, m, names.get(cls, cls)) for (l, m, cls) in must.held_at_call(scan_next[0].bb)} if scan_next else set()
            same = {h for h in held_close & held_scan if h[2] == "SessionPool.idle_sessions" and h[1] == "X"}
            ctx.ob("R12.6", "%s:select-remove-close-under-one-hold#%d" % (name, i), bool(same), c.site,
                   "the scan, the removal and close() run under one uninterrupted exclusive hold of the idle map" if same else
                   "the idle map is not held exclusively from the selection scan to close(): get_idle_session can hand out a session the reaper has already selected, which is then closed under its new stream")
            # R12.4 stream-less only
            guards = []
            for cc in conds.all():
                if any(is_call_term(s, "Session::stream_count", "Session::open_stream_count", "Session::active_streams", "Session::has_streams", "Session::num_streams", "Session::streams_len") for s in subterms(cc.term)):
                    guards.append(cc)
            ok4 = any(cfg.edges_dominate(g.edges_for(True) + g.edges_for(False), c.bb) and (cfg.edges_dominate(g.edges_for(True), c.bb) or cfg.edges_dominate(g.edges_for(False), c.bb)) for g in guards)
            if i == 0:
                ctx.ob("R12.4", "%s:closes-only-stream-less-sessions" % name, ok4, c.site,
                       "close() is dominated by a test of the session's open-stream count" if ok4 else
                       "the reaper closes an expired session without looking at its open streams (Session exposes no stream count): a new session sits in the idle map from creation while its creator's stream is "
                       "open; if nobody borrows it, after idle_timeout the reaper closes it under a live long download")
        ctx.floor("R12.2", "%s: close() calls" % name, len(closes), 1)
        # R12.5 configuration identity
        if name == "cleanup_expired":
            okt = all(var_name(t) == "self.config.idle_timeout" for t in sk["timeout_terms"]) and bool(sk["timeout_terms"])
            okm = all(var_name(t) == "self.config.min_idle_sessions" for t in sk["min_terms"]) and bool(sk["min_terms"])
            ctx.ob("R12.5", "cleanup_expired:config-operands", okt and okm, "", "compares with self.config.idle_timeout and self.config.min_idle_sessions" if okt and okm else
                   "cleanup_expired compares with %s / %s" % ([fmt(t) for t in sk["timeout_terms"]], [fmt(t) for t in sk["min_terms"]]))
        else:
            ups, parent = upvar_sources(ctx, body)
            tnames = {var_name(t) for t in sk["timeout_terms"]}
            mnames = {var_name(t) for t in sk["min_terms"]}
            iv = calls_norm(body, "time::interval")
            ivn = var_name(o.of_operand(iv[0].args[0])) if iv else None
            okt = tnames and all(n in ups and var_name(ups[n]) == "self.config.idle_timeout" for n in tnames)
            okm = mnames and all(n in ups and var_name(ups[n]) == "self.config.min_idle_sessions" for n in mnames)
            oki = ivn in ups and var_name(ups[ivn]) == "self.config.check_interval"
            ctx.ob("R12.5", "periodic:config-operands", bool(okt and okm and oki), iv[0].site if iv else "",
                   "interval(check_interval), idle_timeout and min_idle are copies of the three config fields" if okt and okm and oki else
                   "the periodic reaper's interval/timeout/minimum are not the configured values: interval<-%s timeout<-%s min<-%s" % (
                       fmt(ups.get(ivn)) if ivn else None, [fmt(ups.get(n)) for n in tnames], [fmt(ups.get(n)) for n in mnames]))
    # sibling cross-check
    if len(sks) == 2:
        a, b = sks["cleanup_expired"], sks["periodic"]
        shape = lambda s: tuple(len(s[k]) > 0 for k in ("closed_T", "closed_F", "fresh_T", "fresh_F", "min_T", "min_F"))
        ok = shape(a) == shape(b)
        ctx.ob("R12.2", "siblings:same-decision-skeleton", ok, "", "both reaper copies test closed / fresh / below-minimum in the same way" if ok else "the two reaper copies disagree on their decision tests: %s vs %s" % (shape(a), shape(b)))


def r7_reaper_cannot_die(ctx):
    """housekeeping is a single long-lived task: an unchecked `a - b` on unsigned sizes (subtraction with overflow check, or a
    wrapping one feeding an allocation) ends it silently for the life of the pool"""
    n_arith = 0
    for name, body in _reapers(ctx):
        cfg, conds, o = ctx.cfg(body), ctx.conds(body), ctx.origins(body)
        for bi in sorted(body.reachable()):
            for st in body.blocks[bi]["stmts"]:
                if st["s"] != "assign" or st["rv"]["r"] != "binop":
                    continue
                op = st["rv"]["op"]
                if op in ("AddWithOverflow", "Add", "AddUnchecked"):
                    n_arith += 1
                if op not in ("SubWithOverflow", "Sub"):
                    continue
                if st["span"].get("macros"):
                    continue
                n_arith += 1
                a = o.of_operand(st["rv"]["a"])
                b = o.of_operand(st["rv"]["b"])
                # guarded by the false edge of `a < b` (canonical) / true edge of `b <= a`
                guarded = False
                for c in conds.all():
                    t = c.term
                    if c.kind == "bool" and isinstance(t, tuple) and t[0] == "binop":
                        if t[1] == "Lt" and strip_bb(t[2]) == strip_bb(a) and strip_bb(t[3]) == strip_bb(b) and cfg.edges_dominate(c.edges_for(False), bi):
                            guarded = True
                        if t[1] == "Le" and strip_bb(t[2]) == strip_bb(b) and strip_bb(t[3]) == strip_bb(a) and cfg.edges_dominate(c.edges_for(True), bi):
                            guarded = True
                ctx.ob("R12.7", "%s:unsigned-subtraction-guarded" % name, guarded, "src/client/session_pool.rs:%s" % st["span"]["line"],
                       "`%s - %s` is dominated by a comparison that excludes underflow" % (fmt(a)[:30], fmt(b)[:30]) if guarded else
                       "the reaper computes `%s - %s` on unsigned sizes with no dominating guard: when the pool holds fewer sessions than the subtrahend the task panics (or requests an absurd allocation) and the "
                       "periodic reaper is gone for the life of the pool — surplus sessions are never closed and dead ones never purged" % (fmt(a)[:40], fmt(b)[:40]))
    ctx.floor("R12.7", "arithmetic statements seen in the reapers (matcher self-check)", n_arith, 2)


def r8_every_tick_runs_a_pass(ctx):
    """the periodic reaper looks at the pool on every tick: no way from one tick to the next avoids taking the idle map (a skip
    "while the pool is busy" is never lifted under steady traffic: surplus sessions are never closed and dead entries never purged)"""
    kids = [k for k in spawned_children(ctx, POOL + "start_cleanup_task") if calls_norm(k, "Session::close")]
    if not kids:
        return      # R12.2 reports the missing reaper
    body = kids[0]
    cfg, o = ctx.cfg(body), ctx.origins(body)
    ticks = [c for c in body.calls() if (c.norm or "").endswith(("Interval::tick", "time::sleep", "time::sleep_until"))]
    takes = [c for c in calls_norm(body, "RwLock::write", "RwLock::<T>::write", "Mutex::lock", "Mutex::<T>::lock", "RwLock::read", "RwLock::<T>::read") if c.args and "idle_sessions" in fmt(o.of_operand(c.args[0]))]
    if not ticks or not takes:
        ctx.missing("R12.8", "tick / acquisition of the idle map in the periodic reaper")
        return
    ok, p = cfg.must_pass(cfg.succ(ticks[0].bb), [ticks[0].bb], via_blocks=[c.bb for c in takes])
    ctx.ob("R12.8", "periodic:every-tick-takes-the-idle-map", ok, takes[0].site, "no way from a tick back to the tick avoids the scan of the idle map" if ok else
           "the periodic reaper can go from one tick to the next without looking at the pool (a `continue` ahead of the scan): while that condition holds — e.g. a 'pool was touched since the last tick' flag under "
           "steady traffic — expired surplus sessions are never closed and closed ones never leave the map", path=None if ok else render_path(body, p)[:12])


def run(ctx):
    from . import C20 as _C20t
    _C20t.r12_subtractions(ctx, _C20t.input_reachable(ctx))   # no subtraction (sizes, Durations) that can underflow and kill the task that computes it
    from . import effects
    effects.check_property(ctx, "C12")    # R12.E: no operation on shared protocol state outside the reviewed table
    r7_reaper_cannot_die(ctx)
    r1_entry_points(ctx)
    r2_to_r6_reapers(ctx)
    r8_every_tick_runs_a_pass(ctx)
    from . import C13, C09
    C13.r9_lookup_makes_progress(ctx)    # the look-up cannot spin on an entry it does not remove (it holds the pool lock while it looks)
    C09.r12_close_is_never_cancelled(ctx)   # neither close() nor the registration of a new session in the pool is raced against a timer: a session that is not registered is never reaped
    C09.r1_locks(ctx)        # the pool never waits on a lock it holds itself (a request that meets a dead entry still returns)
    C13.r7_pool_config_is_what_was_given(ctx)   # the reaper works with the configured idle minimum / timeout / interval
    C09.r8_io_error_closes(ctx)   # ... whatever kind of I/O error ended it (ETIMEDOUT from TCP keepalive is how a vanished peer shows up)
    C09.r3_recv_exits(ctx)   # every way the receive loop ends closes the session: a pooled session whose connection died reports closed
    C09.r4_close_body(ctx)   # close() raises the closed flag before it starts tearing the session down: is_closed(), which both the reuse path and the reaper rely on, is true for a dying session
    C13.r4_pool_keys(ctx)    # one key per session: a colliding key silently evicts (drops, never closes) a healthy pooled session
