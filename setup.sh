#!/bin/bash
# MANIFEST.setup_cmd: build the exporter and warm the dependency check cache. Offline; files on disk only.
set -e
cd "$(dirname "$0")"
export CARGO_NET_OFFLINE=true
(cd engine/mirdump && cargo +nightly build --release --offline 2>&1 | tail -2)
python3 engine/facts.py >/dev/null
echo "setup ok"
