"""Engine B runner: type-level witnesses (compile_fail doctests with error codes + compiling twins), nightly rustdoc."""
import json
import os
import re
import shutil
import subprocess

VERIF = os.path.dirname(os.path.dirname(os.path.abspath(__file__)))
WDIR = os.path.join(VERIF, "witness")

SUPPORTS = {
    "W1aWriterIsPrivate": ["C09", "C11"],
    "W1bClosedFlagIsPrivate": ["C09"],
    "W1cStreamTablesArePrivate": ["C02", "C08"],
    "W1dWriteStateIsPrivate": ["C05", "C11"],
    "W2StreamIsNotClone": ["C02"],
    "W2bStreamIdIsPrivate": ["C02"],
    "W3OpenCompletesAtMostOnce": ["C10"],
    "W4CommandFromU8IsTotal": ["C03"],
    "W5ReloadStateIsPrivate": ["C18"],
    "W6IdleMapIsPrivate": ["C12", "C13"],
    "W7SchemeIsImmutable": ["C19", "C05"],
    "W7bPushedCellIsPrivate": ["C19"],
    "W8SessionSchemeIsPrivate": ["C19"],
    "W9ReaderStateIsPrivate": ["C01", "C08"],
    "W10CommandCodesAreTheProtocols": ["C03"],
    "W11LivenessStateIsPrivate": ["C14"],
}


def run_witnesses(facts_key, repo="/repo"):
    """{witness name: {"ok": bool, "tests": n, "failed": [...]}}; cached per facts key"""
    import hashlib
    with open(os.path.join(WDIR, "src", "lib.rs"), "rb") as fh:
        wkey = hashlib.sha256(fh.read()).hexdigest()[:10]      # the witnesses themselves are part of the key
    cache = os.path.join(VERIF, ".cache", "witness-%s-%s.json" % (facts_key, wkey))
    if os.path.isfile(cache):
        with open(cache) as fh:
            return json.load(fh)
    shutil.copy(os.path.join(repo, "Cargo.lock"), os.path.join(WDIR, "Cargo.lock"))
    env = dict(os.environ, CARGO_NET_OFFLINE="true", CARGO_TARGET_DIR=os.path.join(VERIF, ".cache", "witness-target"))
    r = subprocess.run(["cargo", "+nightly", "test", "--doc", "--offline"], cwd=WDIR, env=env, capture_output=True, text=True)
    out = r.stdout + r.stderr
    res = {w: {"ok": True, "tests": 0, "failed": []} for w in SUPPORTS}
    seen = 0
    for m in re.finditer(r"test src/lib\.rs - (\w+) \(line (\d+)\) .*\.\.\. (\w+)", out):
        name, line, verdict = m.group(1), m.group(2), m.group(3)
        if name in res:
            seen += 1
            res[name]["tests"] += 1
            if verdict != "ok":
                res[name]["ok"] = False
                res[name]["failed"].append("line %s: %s" % (line, verdict))
    if seen == 0:
        # the harness itself did not run (toolchain problem / dependency does not build): not a verdict
        res = {"_error": out[-1500:]}
    else:
        for w in res:
            if res[w]["tests"] == 0:
                res[w]["ok"] = False
                res[w]["failed"].append("no doctest ran for this witness")
    os.makedirs(os.path.dirname(cache), exist_ok=True)
    with open(cache, "w") as fh:
        json.dump(res, fh)
    return res
