"""Fact pipeline: /repo working tree -> mirdump JSON facts (cached by content hash).

The facts are a pure function of (repo sources + manifest + lockfile, driver binary), so a
cache hit is sound; any edit under /repo/src changes the key and forces a re-export through
cargo with the driver injected as RUSTC_WORKSPACE_WRAPPER.
"""
import fcntl
import hashlib
import json
import os
import shutil
import subprocess
import sys
import time

VERIF = os.path.dirname(os.path.dirname(os.path.abspath(__file__)))
REPO = os.environ.get("VERIF_REPO", "/repo")
CACHE = os.path.join(VERIF, ".cache")
DRIVER_DIR = os.path.join(VERIF, "engine", "mirdump")
DRIVER = os.path.join(DRIVER_DIR, "target", "release", "mirdump")
CRATES = ("anytls_rs", "anytls_client", "anytls_server")


class FactError(Exception):
    pass


def _sysroot_lib():
    out = subprocess.run(["rustc", "+nightly", "--print", "sysroot"], capture_output=True, text=True)
    if out.returncode != 0:
        raise FactError("nightly toolchain not available: " + out.stderr)
    return os.path.join(out.stdout.strip(), "lib")


def repo_inputs(repo=REPO):
    files = []
    for name in ("Cargo.toml", "Cargo.lock", "build.rs"):
        p = os.path.join(repo, name)
        if os.path.isfile(p):
            files.append(p)
    for root, dirs, fs in os.walk(os.path.join(repo, "src")):
        dirs.sort()
        for f in sorted(fs):
            files.append(os.path.join(root, f))
    return files


def repo_key(repo=REPO):
    h = hashlib.sha256()
    for p in repo_inputs(repo):
        h.update(os.path.relpath(p, repo).encode())
        h.update(b"\0")
        with open(p, "rb") as fh:
            h.update(fh.read())
        h.update(b"\0")
    # the driver source is part of the key (a changed exporter invalidates old facts)
    with open(os.path.join(DRIVER_DIR, "src", "main.rs"), "rb") as fh:
        h.update(fh.read())
    return h.hexdigest()[:24]


def build_driver():
    src = os.path.join(DRIVER_DIR, "src", "main.rs")
    if os.path.isfile(DRIVER) and os.path.getmtime(DRIVER) >= os.path.getmtime(src):
        return
    env = dict(os.environ, CARGO_NET_OFFLINE="true")
    r = subprocess.run(["cargo", "+nightly", "build", "--release", "--offline"], cwd=DRIVER_DIR, env=env,
                       capture_output=True, text=True)
    if r.returncode != 0:
        raise FactError("mirdump build failed:\n" + r.stderr[-4000:])


def _run_export(repo, out_dir, target_dir):
    env = dict(os.environ)
    env.update({
        "LD_LIBRARY_PATH": _sysroot_lib() + ":" + env.get("LD_LIBRARY_PATH", ""),
        "RUSTFLAGS": "-Zmir-opt-level=0 -Awarnings",
        "RUSTC_WORKSPACE_WRAPPER": DRIVER,
        "CARGO_TARGET_DIR": target_dir,
        "CARGO_INCREMENTAL": "0",
        "CARGO_NET_OFFLINE": "true",
        "MIRDUMP_OUT": out_dir,
    })
    # cargo's freshness cache would silently skip the wrapper for an unchanged member: drop its fingerprints
    fp = os.path.join(target_dir, "debug", ".fingerprint")
    if os.path.isdir(fp):
        for d in os.listdir(fp):
            if d.startswith("anytls-rs-") or d.startswith("anytls_rs-"):
                shutil.rmtree(os.path.join(fp, d), ignore_errors=True)
    r = subprocess.run(["cargo", "+nightly", "check", "--lib", "--bins", "--offline"], cwd=repo, env=env,
                       capture_output=True, text=True)
    if r.returncode != 0:
        raise FactError("cargo check of %s failed (the tree does not compile?):\n%s" % (repo, r.stderr[-6000:]))
    missing = [c for c in CRATES if not os.path.isfile(os.path.join(out_dir, c + ".json"))]
    if missing:
        raise FactError("driver did not run for crates %s (stale cargo cache?)\n%s" % (missing, r.stderr[-3000:]))


def ensure_facts(repo=REPO, verbose=True):
    """Return the directory holding the three fact files for the current tree of `repo`."""
    os.makedirs(os.path.join(CACHE, "facts"), exist_ok=True)
    key = repo_key(repo)
    final = os.path.join(CACHE, "facts", key)
    if os.path.isfile(os.path.join(final, "OK")):
        try:
            os.utime(final, None)   # keep hot entries away from the pruning below
        except OSError:
            pass
        return final, True
    with open(os.path.join(CACHE, "lock"), "w") as lk:
        fcntl.flock(lk, fcntl.LOCK_EX)
        if os.path.isfile(os.path.join(final, "OK")):
            return final, True
        t0 = time.time()
        build_driver()
        tmp = final + ".tmp"
        shutil.rmtree(tmp, ignore_errors=True)
        os.makedirs(tmp)
        _run_export(repo, tmp, os.path.join(CACHE, "target"))
        with open(os.path.join(tmp, "OK"), "w") as fh:
            json.dump({"key": key, "repo": repo, "export_s": round(time.time() - t0, 2), "at": time.time()}, fh)
        shutil.rmtree(final, ignore_errors=True)
        os.rename(tmp, final)
        # keep the cache small: only the 24 most recent fact sets (about 40 MB each)
        allf = sorted((os.path.getmtime(os.path.join(CACHE, "facts", d)), d)
                      for d in os.listdir(os.path.join(CACHE, "facts")) if not d.endswith(".tmp"))
        for _, d in allf[:-24]:
            shutil.rmtree(os.path.join(CACHE, "facts", d), ignore_errors=True)
        if verbose:
            print("[facts] exported %s in %.1fs" % (key, time.time() - t0), file=sys.stderr)
    return final, False


if __name__ == "__main__":
    try:
        d, hit = ensure_facts(sys.argv[1] if len(sys.argv) > 1 else REPO)
    except FactError as e:
        print("FACT-ERROR:", e, file=sys.stderr)
        sys.exit(2)
    print(d, "hit" if hit else "miss")
