"""Checker validation on scratch copies (thorough tier): the stored seeded changes of a property must still make its
rules fire when applied to a copy of the *current* tree, and the stored behaviour-preserving variants must leave them
silent. Results go into the evidence (`selftest`); they never become VIOLATION lines. Scratch copies live under a
mkdtemp directory outside /repo and /verif and are removed immediately."""
import importlib
import json
import os
import shutil
import subprocess
import tempfile

from . import facts
from .anl import report
from .anl.mir import Program

VERIF = os.path.dirname(os.path.dirname(os.path.abspath(__file__)))


def _copy_repo(dst):
    subprocess.run(["rsync", "-a", "--exclude", "target", "--exclude", ".git", facts.REPO + "/", dst + "/"], check=True)


def _apply(patch, dst):
    r = subprocess.run(["patch", "-p1", "--no-backup-if-mismatch", "-s", "-F3", "-d", dst, "-i", patch], capture_output=True, text=True)
    return r.returncode == 0


def _fires(prop, fdir):
    mod = importlib.import_module("rules." + prop)
    ctx = report.Ctx(prop, fdir, "quick")
    try:
        mod.run(ctx)
    except Exception as e:
        ctx.missing("R-internal", "rule module crashed: %r" % (e,))
    known = {k["key"] for k in report.load_known() if k.get("status") == "known" and k.get("property") == prop}
    bad = [o for o in ctx.obs if o.verdict in ("violation", "anchor-missing") and not (o.verdict == "violation" and o.key in known)]
    return sorted({o.rule + ("!" if o.verdict == "anchor-missing" else "") for o in bad})


def run(prop, max_benign=5):
    out = {"seeded": [], "benign": [], "applied": 0, "fired": 0, "silent": 0, "skipped": 0}
    variants = []
    sd = os.path.join(VERIF, "seeded")
    if os.path.isdir(sd):
        for name in sorted(os.listdir(sd)):
            if name.startswith(prop + "-") and os.path.isfile(os.path.join(sd, name, "patch.diff")):
                variants.append(("seeded", name, os.path.join(sd, name, "patch.diff")))
    bd = os.path.join(VERIF, "benign")
    anchors = set()
    try:
        with open(os.path.join(VERIF, "properties.jsonl")) as fh:
            for line in fh:
                pr = json.loads(line)
                if pr["id"] == prop:
                    anchors = set(pr["anchors"].get("files", []))
    except OSError:
        pass
    if os.path.isdir(bd):
        n = 0
        for name in sorted(os.listdir(bd)):
            p = os.path.join(bd, name, "patch.diff")
            if not os.path.isfile(p) or n >= max_benign:
                continue
            with open(p) as fh:
                touched = {l[6:].strip() for l in fh if l.startswith("+++ b/")}
            if anchors and not (touched & anchors):
                continue
            variants.append(("benign", name, p))
            n += 1
    for kind, name, patch in variants:
        tmp = tempfile.mkdtemp(prefix="verif-scratch-")
        try:
            _copy_repo(tmp)
            if not _apply(patch, tmp):
                out["skipped"] += 1
                out[kind].append({"name": name, "status": "skipped: the stored edit no longer applies to the current tree"})
                continue
            try:
                fdir, _ = facts.ensure_facts(tmp, verbose=False)
            except facts.FactError:
                out["skipped"] += 1
                out[kind].append({"name": name, "status": "skipped: the variant does not compile on the current tree"})
                continue
            rules = _fires(prop, fdir)
            out["applied"] += 1
            if rules:
                out["fired"] += 1
            else:
                out["silent"] += 1
            ok = bool(rules) if kind == "seeded" else not rules
            out[kind].append({"name": name, "status": "as expected" if ok else ("MISSED: no rule of this property fires" if kind == "seeded" else "FALSE ALARM"), "rules": rules})
        finally:
            shutil.rmtree(tmp, ignore_errors=True)
    return out
