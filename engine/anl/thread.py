"""Jump threading on statically known enum variants.

When a block assigns `P = Enum::Variant(..)` (or receives the failure value of a `?` through FromResidual) and control then
reaches, through empty goto blocks only, a block that does nothing but `switchInt(discriminant(P))`, the edge is retargeted
to the arm of that variant. This removes paths that no execution can take (`return None` followed by the caller's
`if let Some(..)`), which matter after helper inlining and for `let x = if c { Some(..) } else { None }; match x` shapes.
Only precision changes: every removed path is infeasible by construction.
"""
from .conds import STD_ENUMS

FAIL_VARIANT = {"std::option::Option": "None", "std::result::Result": "Err", "std::ops::ControlFlow": "Break"}


def _variant_values(program, adt):
    if adt in STD_ENUMS and STD_ENUMS[adt]:
        return {n: i for i, n in enumerate(STD_ENUMS[adt])}
    vs = program.enum_variants(adt) if program is not None else None
    if vs:
        return {n: d for n, d in vs}
    return None


def _only_discr_switch(blk):
    """(place local, switch terminator) if the block is exactly `_d = discriminant(P); switchInt(_d)`"""
    t = blk["term"]
    if t["t"] != "switch":
        return None
    assigns = [st for st in blk["stmts"] if st["s"] == "assign"]
    others = [st for st in blk["stmts"] if st["s"] not in ("assign", "live", "dead")]
    if len(assigns) != 1 or others:
        return None
    st = assigns[0]
    if st["rv"]["r"] != "discr" or st["rv"]["place"]["proj"] or st["place"]["proj"]:
        return None
    d = t["discr"]
    if d["o"] not in ("copy", "move") or d["place"]["proj"] or d["place"]["local"] != st["place"]["local"]:
        return None
    return st["rv"]["place"]["local"], t


def _succs(t):
    k = t["t"]
    if k in ("goto", "false_edge", "false_unwind", "drop", "assert"):
        return [t["target"]]
    if k == "switch":
        return [b for _, b in t["targets"]] + [t["otherwise"]]
    if k == "call":
        return [t["target"]] if t.get("target") is not None else []
    if k == "yield":
        return [t["resume"]]
    return []


TRY_BRANCH = {"Ok": "Continue", "Some": "Continue", "Err": "Break", "None": "Break", "Continue": "Continue", "Break": "Break"}


def _payload_place(place):
    """local L when the place is `(L as Variant).0` / `L.0` (the single payload of an enum value), else None"""
    pr = [e for e in place["proj"] if e["p"] != "downcast"]
    if len(pr) == 1 and pr[0]["p"] == "field" and int(pr[0]["i"]) == 0 and len(place["proj"]) <= 2:
        return place["local"]
    return None


def _track(stmts, known, inner):
    """update {local: (variant, adt)} and {local: (variant, adt) of its single payload} over straight-line statements"""
    for st in stmts:
        if st["s"] != "assign":
            continue
        l = st["place"]["local"]
        if st["place"]["proj"]:
            known.pop(l, None)
            inner.pop(l, None)
            continue
        rv = st["rv"]
        if rv["r"] == "aggregate" and rv["kind"]["a"] == "adt" and rv["kind"].get("variant") and rv["kind"].get("adt"):
            known[l] = (rv["kind"]["variant"], rv["kind"]["adt"])
            inner.pop(l, None)
            ops = rv.get("ops", [])
            if len(ops) == 1 and ops[0]["o"] in ("move", "copy") and not ops[0]["place"]["proj"] and ops[0]["place"]["local"] in known:
                inner[l] = known[ops[0]["place"]["local"]]      # Poll::Ready(r), Some(r): remember what is inside
        elif rv["r"] == "use" and rv["op"]["o"] in ("move", "copy") and not rv["op"]["place"]["proj"] and rv["op"]["place"]["local"] in known:
            src = rv["op"]["place"]["local"]
            known[l] = known[src]
            if src in inner:
                inner[l] = inner[src]
            else:
                inner.pop(l, None)
        elif rv["r"] == "use" and rv["op"]["o"] in ("move", "copy") and _payload_place(rv["op"]["place"]) in inner:
            known[l] = inner[_payload_place(rv["op"]["place"])]
            inner.pop(l, None)
        else:
            known.pop(l, None)
            inner.pop(l, None)


def _track_call(body_j, t, known, inner):
    """effect of a call terminator on the tracked facts: FromResidual yields the failure variant, Try::branch maps
    Ok/Some -> Continue and Err/None -> Break"""
    if t["dest"]["proj"]:
        return
    dl = t["dest"]["local"]
    f = t["func"]
    fn = f["c"].get("fn") if f["o"] == "const" else None
    new = None
    if fn == "std::ops::FromResidual::from_residual":
        ty = body_j["locals"][dl]["ty"]
        if ty.get("adt") in FAIL_VARIANT:
            new = (FAIL_VARIANT[ty["adt"]], ty["adt"])
    elif fn == "std::ops::Try::branch" and t["args"]:
        a = t["args"][0]
        if a["o"] in ("move", "copy") and not a["place"]["proj"] and a["place"]["local"] in known:
            v = known[a["place"]["local"]][0]
            if v in TRY_BRANCH:
                new = (TRY_BRANCH[v], "std::ops::ControlFlow")
    known.pop(dl, None)
    inner.pop(dl, None)
    if new:
        known[dl] = new


def _block_known(body_j, blk):
    """({local: (variant, adt)}, {local: payload facts}) statically known at the end of the block's statements"""
    known, inner = {}, {}
    _track(blk["stmts"], known, inner)
    return known, inner


def thread_body(program, body_j):
    """mutates body_j in place; returns the number of threaded paths"""
    import copy
    blocks = body_j["blocks"]
    switches = {}
    for i, blk in enumerate(blocks):
        r = _only_discr_switch(blk)
        if r:
            switches[i] = r
    if not switches:
        return 0
    n = 0
    nblocks = len(blocks)
    for i in range(nblocks):
        blk = blocks[i]
        if blk["cleanup"] in (True, "true"):
            continue
        t = blk["term"]
        known, inner0 = _block_known(body_j, blk)
        if t["t"] in ("goto", "drop", "false_edge"):
            start = t["target"]
        elif t["t"] == "call" and t.get("target") is not None:
            start = t["target"]
            _track_call(body_j, t, known, inner0)
        else:
            continue
        if not known and not inner0:
            continue
        # walk forward through straight-line blocks, carrying the known variants through moves
        cur = start
        chain = []
        kn = dict(known)
        inn = dict(inner0)
        last = None     # (number of chain blocks to keep, arm to continue at) after the last switch that could be decided
        for _ in range(48):
            if cur is None or cur >= len(blocks) or cur == i or cur in chain:
                break
            if cur in switches:
                local, sw = switches[cur]
                if local not in kn:
                    break
                var, adt = kn[local]
                vals = _variant_values(program, adt)
                if not vals or var not in vals:
                    break
                dv = vals[var]
                arm = None
                for v, tb in sw["targets"]:
                    if int(v) == dv:
                        arm = tb
                if arm is None:
                    arm = sw["otherwise"]
                # the switch block itself (`_d = discriminant(P); switchInt(_d)`) is skipped, not copied: several decided
                # switches in a row are threaded in one go (Err -> Poll::Ready(Err) -> `?` -> Break)
                last = (len(chain), arm)
                cur = arm
                continue
            b2 = blocks[cur]
            k2 = b2["term"]["t"]
            is_try = (k2 == "call" and b2["term"].get("target") is not None and b2["term"]["func"]["o"] == "const"
                      and b2["term"]["func"]["c"].get("fn") in ("std::ops::Try::branch", "std::ops::FromResidual::from_residual"))
            if k2 not in ("goto", "drop", "false_edge") and not is_try:
                break
            _track(b2["stmts"], kn, inn)
            if is_try:
                _track_call(body_j, b2["term"], kn, inn)
            if not kn and not inn:
                break
            chain.append(cur)
            cur = b2["term"]["target"]
        if last is None:
            continue
        keep, tgt = last
        # duplicate the straight-line chain for this path and send it to the arm of the known variant
        prev_term = t
        for cb in chain[:keep]:
            nb = copy.deepcopy(blocks[cb])
            blocks.append(nb)
            prev_term["target"] = len(blocks) - 1
            prev_term = nb["term"]
        prev_term["target"] = tgt
        n += 1
    return n
