"""Jump threading on statically known enum variants.

When a block assigns `P = Enum::Variant(..)` (or receives the failure value of a `?` through FromResidual) and control then
reaches, through empty goto blocks only, a block that does nothing but `switchInt(discriminant(P))`, the edge is retargeted
to the arm of that variant. This removes paths that no execution can take (`return None` followed by the caller's
`if let Some(..)`), which matter after helper inlining and for `let x = if c { Some(..) } else { None }; match x` shapes.
Only precision changes: every removed path is infeasible by construction.
"""
from .conds import STD_ENUMS

FAIL_VARIANT = {"std::option::Option": "None", "std::result::Result": "Err", "std::ops::ControlFlow": "Break"}


def _variant_values(program, adt):
    if adt in STD_ENUMS and STD_ENUMS[adt]:
        return {n: i for i, n in enumerate(STD_ENUMS[adt])}
    vs = program.enum_variants(adt) if program is not None else None
    if vs:
        return {n: d for n, d in vs}
    return None


def _only_discr_switch(blk):
    """(place local, switch terminator) if the block is exactly `_d = discriminant(P); switchInt(_d)`"""
    t = blk["term"]
    if t["t"] != "switch":
        return None
    assigns = [st for st in blk["stmts"] if st["s"] == "assign"]
    others = [st for st in blk["stmts"] if st["s"] not in ("assign", "live", "dead")]
    if len(assigns) != 1 or others:
        return None
    st = assigns[0]
    if st["rv"]["r"] != "discr" or st["rv"]["place"]["proj"] or st["place"]["proj"]:
        return None
    d = t["discr"]
    if d["o"] not in ("copy", "move") or d["place"]["proj"] or d["place"]["local"] != st["place"]["local"]:
        return None
    return st["rv"]["place"]["local"], t


def _succs(t):
    k = t["t"]
    if k in ("goto", "false_edge", "false_unwind", "drop", "assert"):
        return [t["target"]]
    if k == "switch":
        return [b for _, b in t["targets"]] + [t["otherwise"]]
    if k == "call":
        return [t["target"]] if t.get("target") is not None else []
    if k == "yield":
        return [t["resume"]]
    return []


def _block_known(body_j, blk):
    """{local: (variant, adt)} statically known at the end of the block's statements"""
    known = {}
    for st in blk["stmts"]:
        if st["s"] != "assign":
            continue
        l = st["place"]["local"]
        if st["place"]["proj"]:
            known.pop(l, None)
            continue
        rv = st["rv"]
        if rv["r"] == "aggregate" and rv["kind"]["a"] == "adt" and rv["kind"].get("variant") and rv["kind"].get("adt"):
            known[l] = (rv["kind"]["variant"], rv["kind"]["adt"])
        elif rv["r"] == "use" and rv["op"]["o"] in ("move", "copy") and not rv["op"]["place"]["proj"] and rv["op"]["place"]["local"] in known:
            known[l] = known[rv["op"]["place"]["local"]]
        else:
            known.pop(l, None)
    return known


def thread_body(program, body_j):
    """mutates body_j in place; returns the number of threaded paths"""
    import copy
    blocks = body_j["blocks"]
    switches = {}
    for i, blk in enumerate(blocks):
        r = _only_discr_switch(blk)
        if r:
            switches[i] = r
    if not switches:
        return 0
    n = 0
    nblocks = len(blocks)
    for i in range(nblocks):
        blk = blocks[i]
        if blk["cleanup"] in (True, "true"):
            continue
        t = blk["term"]
        known = _block_known(body_j, blk)
        if t["t"] == "goto":
            start = t["target"]
        elif t["t"] == "drop":
            start = t["target"]
        elif t["t"] == "call" and t.get("target") is not None:
            start = t["target"]
            f = t["func"]
            if not t["dest"]["proj"]:
                dl = t["dest"]["local"]
                known.pop(dl, None)
                if f["o"] == "const" and f["c"].get("fn") == "std::ops::FromResidual::from_residual":
                    ty = body_j["locals"][dl]["ty"]
                    if ty.get("adt") in FAIL_VARIANT:
                        known[dl] = (FAIL_VARIANT[ty["adt"]], ty["adt"])
        else:
            continue
        if not known:
            continue
        # walk forward through straight-line blocks, carrying the known variants through moves
        cur = start
        chain = []
        kn = dict(known)
        hit = None
        for _ in range(12):
            if cur is None or cur >= len(blocks) or cur == i or cur in chain:
                break
            if cur in switches:
                local, sw = switches[cur]
                if local in kn:
                    hit = (cur, local, sw)
                break
            b2 = blocks[cur]
            k2 = b2["term"]["t"]
            if k2 not in ("goto", "drop"):
                break
            for st in b2["stmts"]:
                if st["s"] != "assign":
                    continue
                l = st["place"]["local"]
                rv = st["rv"]
                if not st["place"]["proj"] and rv["r"] == "use" and rv["op"]["o"] in ("move", "copy") and not rv["op"]["place"]["proj"] and rv["op"]["place"]["local"] in kn:
                    kn[l] = kn[rv["op"]["place"]["local"]]
                else:
                    kn.pop(l, None)
            chain.append(cur)
            cur = b2["term"]["target"]
        if not hit:
            continue
        sblock, local, sw = hit
        var, adt = kn[local]
        vals = _variant_values(program, adt)
        if not vals or var not in vals:
            continue
        dv = vals[var]
        tgt = None
        for v, tb in sw["targets"]:
            if int(v) == dv:
                tgt = tb
        if tgt is None:
            tgt = sw["otherwise"]
        # duplicate the straight-line chain for this path and send it to the arm of the known variant
        prev_term = t
        for cb in chain:
            nb = copy.deepcopy(blocks[cb])
            blocks.append(nb)
            prev_term["target"] = len(blocks) - 1
            prev_term = nb["term"]
        prev_term["target"] = tgt
        n += 1
    return n
