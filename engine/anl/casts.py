"""A8: narrowing / sign-changing integer casts and the range guards that discharge them."""
from .cfg import CFG
from .conds import Conds, CMP_OPS, SWAP
from .mir import span_is_tracing
from .origin import Origins, strip_bb, subterms, fmt

INT_BITS = {"u8": (8, False), "u16": (16, False), "u32": (32, False), "u64": (64, False), "u128": (128, False), "usize": (64, False),
            "i8": (8, True), "i16": (16, True), "i32": (32, True), "i64": (64, True), "i128": (128, True), "isize": (64, True)}


def int_range(ty):
    if ty not in INT_BITS:
        return None
    bits, signed = INT_BITS[ty]
    if signed:
        return (-(1 << (bits - 1)), (1 << (bits - 1)) - 1)
    return (0, (1 << bits) - 1)


def lossy(frm, to):
    a, b = int_range(frm), int_range(to)
    if a is None or b is None:
        return None
    if a[0] >= b[0] and a[1] <= b[1]:
        return None
    kinds = []
    if a[1] > b[1]:
        kinds.append("truncating")
    if a[0] < b[0]:
        kinds.append("sign-losing")
    return "+".join(kinds)


def narrowing_casts(body, include_macro=False):
    out = []
    for bi in sorted(body.reachable()):
        for si, st in enumerate(body.blocks[bi]["stmts"]):
            if st["s"] != "assign" or st["rv"]["r"] != "cast":
                continue
            rv = st["rv"]
            if "IntToInt" not in rv["kind"]:
                continue
            k = lossy(rv["from"]["s"], rv["to"]["s"])
            if not k:
                continue
            macros = st["span"].get("macros", [])
            if macros and not include_macro:
                continue
            out.append({"bb": bi, "si": si, "from": rv["from"]["s"], "to": rv["to"]["s"], "kind": k, "op": rv["op"],
                        "span": st["span"], "line": st["span"]["line"], "dest": st["place"]})
    return out


def _mutable_locals(term):
    """local ids of mutably-borrowed variables appearing in the term"""
    out = []
    for s in subterms(term):
        if isinstance(s, tuple) and s and s[0] == "var" and len(s) > 2:
            out.append(s[2])
    return out


def _mutation_blocks(body, local):
    """blocks in which the local may be modified: `&mut local` taken, or the local (or a part of it) assigned"""
    out = set()
    for bi in body.reachable():
        blk = body.blocks[bi]
        for st in blk["stmts"]:
            if st["s"] != "assign":
                continue
            if st["place"]["local"] == local:
                out.add(bi)
            rv = st["rv"]
            if rv["r"] in ("ref", "rawptr") and "Mut" in rv.get("kind", "Mut") and rv["place"]["local"] == local \
                    and not (rv["place"]["proj"] and rv["place"]["proj"][0]["p"] == "deref"):
                out.add(bi)
        t = blk["term"]
        if t["t"] == "call" and t["dest"]["local"] == local:
            out.add(bi)
    return out


def _between(cfg, edges, site_bb):
    """blocks on some path from the targets of `edges` to site_bb (inclusive of both ends)"""
    # only the stretch after the *last* crossing of the guarding edges matters (they dominate the site)
    es = set(edges)
    fwd = cfg.reach([e[1] for e in edges], stop_at=[site_bb], avoid_edges=es)
    back = {site_bb}
    st = [site_bb]
    while st:
        x = st.pop()
        for p in cfg.preds(x):
            if (p, x) in es:
                continue
            if p in fwd and p not in back:
                back.add(p)
                st.append(p)
    return fwd & back


def const_value(t, depth=0):
    """value of a constant-foldable term (literal, const item, value-preserving cast, + - * of such), else None"""
    if not isinstance(t, tuple) or not t or depth > 6:
        return None
    if t[0] == "const":
        return t[1]
    if t[0] == "cast":
        v = const_value(t[3], depth + 1)
        to = int_range(t[2])
        if v is not None and to is not None and to[0] <= v <= to[1]:
            return v
        return None
    if t[0] == "binop" and t[1] in ("Add", "Sub", "Mul"):
        a, b = const_value(t[2], depth + 1), const_value(t[3], depth + 1)
        if a is None or b is None:
            return None
        return a + b if t[1] == "Add" else (a - b if t[1] == "Sub" else a * b)
    return None


def guard_bounds(body, cfg, conds, o, term, site_bb):
    """(lo, hi, used) implied for `term` at block site_bb by dominating comparison edges against constants.
    A comparison counts when its non-constant side is the same expression (block ids ignored) and, if the expression
    reads mutable variables, no block between the guarding edge and the site can modify them."""
    lo = hi = None
    key = strip_bb(term)
    muts = _mutable_locals(term)
    mut_blocks = set()
    for l in muts:
        mut_blocks |= _mutation_blocks(body, l)
    used = []
    for c in conds.all():
        if c.kind != "bool":
            continue
        t = c.term
        if not (isinstance(t, tuple) and t and t[0] == "binop" and t[1] in CMP_OPS):
            continue
        op, a, b = t[1], t[2], t[3]
        ca = const_value(a)
        cb = const_value(b)
        if cb is not None and strip_bb(a) == key:
            cval = cb
        elif ca is not None and strip_bb(b) == key:
            cval = ca
            op = SWAP[op]
        else:
            continue
        for val in (True, False):
            edges = c.edges_for(val)
            if not edges or not cfg.edges_dominate(edges, site_bb):
                continue
            if muts:
                mid = _between(cfg, edges, site_bb)
                # the site block itself may mutate *after* the use only if the use is the call consuming it; be strict
                # about every other block on the way
                if (mid - {site_bb}) & mut_blocks:
                    continue
            eff = op if val else {"Lt": "Ge", "Le": "Gt", "Gt": "Le", "Ge": "Lt", "Eq": "Ne", "Ne": "Eq"}[op]
            if eff == "Lt":
                hi = cval - 1 if hi is None else min(hi, cval - 1)
            elif eff == "Le":
                hi = cval if hi is None else min(hi, cval)
            elif eff == "Gt":
                lo = cval + 1 if lo is None else max(lo, cval + 1)
            elif eff == "Ge":
                lo = cval if lo is None else max(lo, cval)
            elif eff == "Eq":
                lo = cval if lo is None else max(lo, cval)
                hi = cval if hi is None else min(hi, cval)
            else:
                continue
            used.append("bb%d `%s %s %s` is %s" % (c.block, fmt(term)[:60], op, cval, val))
    return (lo, hi, used)


def _isect(a, b):
    lo = a[0] if b[0] is None else (b[0] if a[0] is None else max(a[0], b[0]))
    hi = a[1] if b[1] is None else (b[1] if a[1] is None else min(a[1], b[1]))
    return (lo, hi)


def _mn(x, y):
    return None if x is None or y is None else min(x, y)


def _mx(x, y):
    return None if x is None or y is None else max(x, y)


def range_of(body, cfg, conds, o, term, site_bb, used, depth=0):
    """(lo, hi) with None = unbounded: shape of the term intersected with dominating guards on it and its subterms"""
    if not isinstance(term, tuple) or not term or depth > 12:
        return (None, None)
    k = term[0]
    shape = (None, None)
    cv = const_value(term)
    if cv is not None:
        return (cv, cv)
    if k == "cast":
        inner = range_of(body, cfg, conds, o, term[3], site_bb, used, depth + 1)
        fr = int_range(term[1])
        to = int_range(term[2])
        if fr is not None:
            inner = _isect(inner, fr)
        if to is not None and inner[0] is not None and inner[1] is not None and inner[0] >= to[0] and inner[1] <= to[1]:
            shape = inner           # value-preserving cast
        elif to is not None:
            shape = to              # wraps: only the target type's range is known
    elif k == "call":
        name = term[1]
        args = term[3]
        rs = [range_of(body, cfg, conds, o, a, site_bb, used, depth + 1) for a in args]
        if name.endswith(("Ord::min", "cmp::min")) and len(rs) == 2:
            shape = (_mn(rs[0][0], rs[1][0]), rs[0][1] if rs[1][1] is None else (rs[1][1] if rs[0][1] is None else min(rs[0][1], rs[1][1])))
        elif name.endswith(("Ord::max", "cmp::max")) and len(rs) == 2:
            shape = (rs[0][0] if rs[1][0] is None else (rs[1][0] if rs[0][0] is None else max(rs[0][0], rs[1][0])), _mx(rs[0][1], rs[1][1]))
        elif name.endswith("::clamp") and len(rs) == 3:
            shape = (rs[1][0], rs[2][1])
        elif name.endswith("::saturating_sub") and len(rs) == 2:
            shape = (0 if (rs[0][0] is not None and rs[0][0] >= 0) else None, rs[0][1])
        elif name.endswith("random_range") and len(args) == 1:
            shape = rs[0]
        elif name.endswith(("RangeInclusive::<Idx>::new", "RangeInclusive::new")) and len(rs) == 2:
            shape = (rs[0][0], rs[1][1])
        elif name.endswith(("::len", "::count_ones", "::leading_zeros", "Duration::as_millis", "Duration::subsec_nanos")):
            shape = (0, None)
        elif name.endswith("Duration::as_secs"):
            shape = (0, 2 ** 64 - 1)
        elif name.endswith(("::div_ceil", "::div_euclid")) and len(rs) == 2 and rs[0][0] is not None and rs[0][0] >= 0 and rs[1][0] is not None and rs[1][0] >= 1:
            shape = (0, None if rs[0][1] is None else -(-rs[0][1] // rs[1][0]))
        elif name.endswith("::unwrap_or") and len(rs) == 2:
            shape = (_mn(rs[0][0], rs[1][0]), _mx(rs[0][1], rs[1][1]))
    elif k == "len":
        shape = (0, None)
    elif k == "agg" and term[1].endswith("RangeInclusive") and len(term[3]) >= 2:
        a = range_of(body, cfg, conds, o, term[3][0], site_bb, used, depth + 1)
        b = range_of(body, cfg, conds, o, term[3][1], site_bb, used, depth + 1)
        shape = (a[0], b[1])
    elif k == "phi":
        rs = [range_of(body, cfg, conds, o, a, site_bb, used, depth + 1) for a in term[1]]
        lo = None if any(r[0] is None for r in rs) else min(r[0] for r in rs)
        hi = None if any(r[1] is None for r in rs) else max(r[1] for r in rs)
        shape = (lo, hi)
    elif k == "unop" and len(term) > 2 and term[1] == "Neg":
        a = range_of(body, cfg, conds, o, term[2], site_bb, used, depth + 1)
        shape = (None if a[1] is None else -a[1], None if a[0] is None else -a[0])
    elif k == "binop" and term[1] == "Div":
        a = range_of(body, cfg, conds, o, term[2], site_bb, used, depth + 1)
        b = range_of(body, cfg, conds, o, term[3], site_bb, used, depth + 1)
        if a[0] is not None and a[0] >= 0 and b[0] is not None and b[0] >= 1:
            shape = (0, None if a[1] is None else a[1] // b[0])
    elif k == "binop" and term[1] in ("Add", "Sub") :
        a = range_of(body, cfg, conds, o, term[2], site_bb, used, depth + 1)
        b = range_of(body, cfg, conds, o, term[3], site_bb, used, depth + 1)
        if term[1] == "Add":
            shape = (None if a[0] is None or b[0] is None else a[0] + b[0], None if a[1] is None or b[1] is None else a[1] + b[1])
    glo, ghi, u = guard_bounds(body, cfg, conds, o, term, site_bb)
    used.extend(u)
    return _isect(shape, (glo, ghi))


def check_cast(body, cfg, conds, o, cast):
    """returns (ok, detail, term)"""
    term = o.of_operand(cast["op"])
    to = int_range(cast["to"])
    fr = int_range(cast["from"])
    used = []
    lo, hi = _isect(range_of(body, cfg, conds, o, term, cast["bb"], used), fr)
    ok = lo >= to[0] and hi <= to[1]
    detail = "%s as %s of `%s`: value range [%s, %s] %s target [%s, %s]%s" % (
        cast["from"], cast["to"], fmt(term)[:140], lo, hi, "within" if ok else "exceeds", to[0], to[1],
        ("; guards: " + "; ".join(used[:3])) if used else "; no dominating range guard on the same expression")
    return ok, detail, term
