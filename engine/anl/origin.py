"""A2: origin expressions — follow transparent operations back to a defining event.

Terms (nested tuples):
  ("const", int|None, name|None, disp)        evaluated constant (name = const item if unevaluated form known)
  ("static", path)
  ("fn", path)
  ("var", "self.writer")                       parameter / upvar / multiply-assigned variable (+ field path)
  ("call", callee, bb, (arg terms...))          result of a call (an awaited call is one event)
  ("field", term, "name")                       non-transparent field of a term
  ("cast", from, to, term)  ("binop", op, a, b)  ("unop", op, a)  ("len", term)
  ("agg", head, variant, (ops...), bb)  ("discr", term)  ("repeat", term, n)  ("phi", (terms...))
  ("unknown", why)
References, derefs, copies/moves, unsizing, `.await` plumbing, `?` plumbing, Deref/Clone are transparent.
"""

TRANSPARENT_GENERIC = {
    "std::future::IntoFuture::into_future",
    "std::pin::Pin::<Ptr>::new_unchecked",
    "std::pin::Pin::<Ptr>::new",
    "std::pin::Pin::<Ptr>::as_mut",
    "std::future::Future::poll",
    "std::ops::Try::branch",
    "std::ops::Deref::deref",
    "std::ops::DerefMut::deref_mut",
    "std::clone::Clone::clone",
    "std::convert::AsRef::as_ref",
    "std::convert::AsMut::as_mut",
    "std::borrow::Borrow::borrow",
    "std::borrow::BorrowMut::borrow_mut",
    "std::option::Option::<T>::as_ref",
    "std::option::Option::<T>::as_mut",
    "std::option::Option::<&T>::copied",
    "std::option::Option::<&T>::cloned",
    "std::iter::IntoIterator::into_iter",
    "std::boxed::Box::<T>::new",
    "std::boxed::Box::<T>::pin",
    "std::sync::Arc::<T>::new",
    "std::string::String::as_str",
    "std::string::String::as_bytes",
    "core::str::<impl str>::as_bytes",
    "std::vec::Vec::<T, A>::as_slice",
    # value-preserving on the success payload
    "std::result::Result::<T, E>::map_err",
    "std::result::Result::<T, E>::inspect_err",
    "std::result::Result::<T, E>::inspect",
    "std::option::Option::<T>::inspect",
    "std::option::Option::<T>::ok_or",
    "std::option::Option::<T>::ok_or_else",
    "std::hint::must_use",
}

UNWRAP_VARIANTS = {"Some", "Ok", "Ready", "Continue"}
TRANSPARENT_CASTS = ("Unsize", "PtrToPtr", "Transmute", "ReifyFnPointer", "ClosureFnPointer", "MutToConstPointer",
                     "ArrayToPointer", "UnsafeFnPointer", "PointerCoercion", "Subtype")
OVERFLOW_OPS = {"AddWithOverflow": "Add", "SubWithOverflow": "Sub", "MulWithOverflow": "Mul"}


def os_environ_no_alias():
    import os
    return bool(os.environ.get("VERIF_NO_PARAM_ALIAS"))


def _projkey(proj):
    out = []
    for e in proj:
        k = e["p"]
        if k == "deref":
            continue
        if k == "field":
            out.append(("f", e["i"], e.get("name")))
        elif k == "downcast":
            out.append(("d", e.get("variant")))
        elif k == "index":
            out.append(("i", e["local"]))
        elif k == "cindex":
            out.append(("c", e["offset"], str(e["from_end"])))
        else:
            out.append((k,))
    return tuple(out)


_BASELINE_PARAMS = None


def baseline_params():
    """{body def path: [parameter names on the reference tree]} — rules spell parameters as on the reference tree; a
    renamed parameter is translated back by position, so that renaming is not an alarm (rules/baseline_params.json)"""
    global _BASELINE_PARAMS
    if _BASELINE_PARAMS is None:
        import json
        import os
        p = os.path.join(os.path.dirname(os.path.dirname(os.path.dirname(os.path.abspath(__file__)))), "rules", "baseline_params.json")
        try:
            with open(p) as fh:
                _BASELINE_PARAMS = json.load(fh)
        except OSError:
            _BASELINE_PARAMS = {}
    return _BASELINE_PARAMS


def current_params(body):
    if body.is_coroutine:
        n = (max(body.upvars) + 1) if body.upvars else 0
        return [body.upvars.get(i) for i in range(n)]
    return [body.debug.get(i + 1) for i in range(body.arg_count)]


class Origins:
    def __init__(self, body, arg_depth=3):
        self.body = body
        self.memo = {}
        self.arg_depth = arg_depth
        self.phi_sites = {}
        self.mut_locals = self._mut_borrowed()
        self.alias = {}
        base = baseline_params().get(body.name)
        if base and not os_environ_no_alias():
            for cur, ref in zip(current_params(body), base):
                if cur and ref and cur != ref:
                    self.alias[cur] = ref

    def _mut_borrowed(self):
        """user-named locals whose address is taken mutably: their identity is the variable, not its initialiser"""
        b = self.body
        out = set()
        for bi in b.reachable():
            for st in b.blocks[bi]["stmts"]:
                if st["s"] != "assign":
                    continue
                rv = st["rv"]
                if rv["r"] in ("ref", "rawptr") and "Mut" in rv.get("kind", "Mut"):
                    pl = rv["place"]
                    if pl["proj"] and pl["proj"][0]["p"] == "deref":
                        continue
                    nm = b.debug.get(pl["local"])
                    if nm and not nm.startswith("__"):
                        out.add(pl["local"])
        return out

    # --- public ---
    def of_operand(self, op, depth=0, stack=frozenset()):
        if op["o"] == "const":
            return self._const(op["c"])
        if op["o"] in ("copy", "move"):
            p = op["place"]
            return self.of_place(p["local"], _projkey(p["proj"]), depth, stack)
        return ("unknown", "operand")

    def init_of(self, local):
        """origin of a mutable variable's initialiser(s) (bypasses the identity stop for that variable)"""
        saved = self.mut_locals
        self.mut_locals = saved - {local}
        memo = self.memo
        self.memo = {}
        try:
            return self.of_place(local, ())
        finally:
            self.mut_locals = saved
            self.memo = memo

    def of_place_json(self, p):
        return self.of_place(p["local"], _projkey(p["proj"]))

    def _const(self, c):
        if "fn" in c:
            return ("fn", c.get("resolved") or c["fn"])
        if "static" in c:
            return ("static", c["static"])
        iv = c.get("int")
        nm = c.get("uneval")
        return ("const", int(iv) if iv is not None else None, nm.split("::")[-1] if nm else None, c.get("disp"))

    def _var(self, local, rest):
        b = self.body
        name = b.local_name(local)
        parts = list(rest)
        if local == 1 and (b.kind == "Closure" or b.is_coroutine) and parts and parts[0][0] == "f":
            name = b.upvars.get(parts[0][1], "%s.%s" % (name, parts[0][1]))
            parts = parts[1:]
        name = self.alias.get(name, name)
        return ("var", name + self._projstr(parts))

    @staticmethod
    def _projstr(parts):
        s = ""
        for e in parts:
            if e[0] == "f":
                s += "." + (e[2] if e[2] is not None else str(e[1]))
            elif e[0] == "d":
                s += "<%s>" % e[1]
            elif e[0] == "i":
                s += "[_%s]" % e[1]
            elif e[0] == "c":
                s += "[%s]" % e[1]
            else:
                s += "{%s}" % e[0]
        return s

    def _wrap(self, term, rest):
        """apply a remaining projection to a non-place term"""
        for e in rest:
            if e[0] == "d" and e[1] in UNWRAP_VARIANTS:
                continue
            if e[0] == "d":
                term = ("field", term, "<%s>" % e[1])
                continue
            if e[0] == "f":
                # field 0 right after an unwrap-variant downcast is the payload itself
                term = ("field", term, e[2] if e[2] is not None else str(e[1]))
            else:
                term = ("field", term, self._projstr([e]))
        return term

    def _unwrap_rest(self, rest):
        """drop `<Some>.0`-style payload projections from the front of a remaining projection"""
        rest = list(rest)
        out = []
        i = 0
        while i < len(rest):
            e = rest[i]
            if e[0] == "d" and e[1] in UNWRAP_VARIANTS and i + 1 < len(rest) and rest[i + 1][0] == "f" and rest[i + 1][1] == 0:
                i += 2
                continue
            out.append(e)
            i += 1
        return tuple(out)

    def of_place(self, local, rest=(), depth=0, stack=frozenset()):
        key = (local, rest)
        if key in self.memo:
            return self.memo[key]
        if key in stack:
            return ("unknown", "cycle")
        if depth > 120:
            return ("unknown", "deep")
        r = self._of_place(local, rest, depth, stack | {key})
        if not _has_cycle(r):
            self.memo[key] = r
        return r

    def _of_place(self, local, rest, depth, stack):
        b = self.body
        if local in self.mut_locals:
            v = self._var(local, rest)
            return ("var", v[1], local)
        ds = [d for d in b.defs().get(local, []) if d[0] != "partial"]
        partial = [d for d in b.defs().get(local, []) if d[0] == "partial"]
        if not ds:
            # parameter, upvar, or a local only ever written through projections (struct built field by field)
            if partial and rest:
                # aggregate built by partial writes: find the write to this exact field
                hits = []
                for d in partial:
                    st = d[3]
                    plc = st["place"] if d[2] is not None else st["dest"]
                    pk = _projkey(plc["proj"])
                    if pk and pk == rest[:len(pk)]:
                        hits.append((d, pk))
                if len(hits) == 1:
                    d, pk = hits[0]
                    if d[2] is not None:
                        return self._rvalue(d[3]["rv"], rest[len(pk):], d[1], depth, stack)
                    return self._call(d[3], d[1], rest[len(pk):], depth, stack)
            return self._var(local, rest)
        if len(ds) > 1:
            outs = []
            sites = []
            for d in ds:
                o = self._def(d, rest, depth, stack)
                if o == ("unknown", "infeasible"):
                    continue
                outs.append(o)
                sites.append((o, d[1]))
            if not outs:
                return ("unknown", "infeasible")
            if any(_has_cycle(o) for o in outs) or len(outs) > 6:
                return self._var(local, rest)
            uniq = []
            for o in outs:
                if o not in uniq:
                    uniq.append(o)
            if len(uniq) == 1:
                return uniq[0]
            ph = ("phi", tuple(uniq))
            # where each alternative is assigned (block ids), for rules that decide "value v on the edges of condition c"
            lst = self.phi_sites.setdefault(ph, [])
            for x in sites:
                if x not in lst:
                    lst.append(x)
            return ph
        return self._def(ds[0], rest, depth, stack)

    def _def(self, d, rest, depth, stack):
        kind, bi, si, payload = d
        if kind == "assign":
            return self._rvalue(payload, rest, bi, depth, stack)
        return self._call(payload, bi, rest, depth, stack)

    def _rvalue(self, rv, rest, bi, depth, stack):
        r = rv["r"]
        if r == "use":
            op = rv["op"]
            if op["o"] == "const":
                return self._wrap(self._const(op["c"]), rest)
            p = op["place"]
            return self.of_place(p["local"], _projkey(p["proj"]) + rest, depth + 1, stack)
        if r in ("ref", "copyforderef", "rawptr"):
            p = rv["place"]
            return self.of_place(p["local"], _projkey(p["proj"]) + rest, depth + 1, stack)
        if r == "cast":
            k = rv["kind"]
            if any(t in k for t in TRANSPARENT_CASTS):
                op = rv["op"]
                if op["o"] == "const":
                    return self._wrap(self._const(op["c"]), rest)
                p = op["place"]
                return self.of_place(p["local"], _projkey(p["proj"]) + rest, depth + 1, stack)
            return self._wrap(("cast", rv["from"]["s"], rv["to"]["s"], self.of_operand(rv["op"], depth + 1, stack)), rest)
        if r == "binop":
            op = rv["op"]
            a = self.of_operand(rv["a"], depth + 1, stack)
            c = self.of_operand(rv["b"], depth + 1, stack)
            if op in OVERFLOW_OPS:
                if rest and rest[0][0] == "f" and rest[0][1] == 0:
                    return self._wrap(("binop", OVERFLOW_OPS[op], a, c), rest[1:])
                if rest and rest[0][0] == "f" and rest[0][1] == 1:
                    return self._wrap(("overflow", OVERFLOW_OPS[op], a, c), rest[1:])
            return self._wrap(("binop", op, a, c), rest)
        if r == "unop":
            a = self.of_operand(rv["a"], depth + 1, stack)
            if rv["op"] == "PtrMetadata":
                return self._wrap(("len", a), rest)
            return self._wrap(("unop", rv["op"], a), rest)
        if r == "aggregate":
            k = rv["kind"]
            rr = list(rest)
            # a downcast to another variant than the one constructed cannot be taken on this definition
            if rr and rr[0][0] == "d" and k.get("variant") is not None and k["a"] == "adt" and rr[0][1] != k.get("variant"):
                return ("unknown", "infeasible")
            # skip a downcast to the constructed variant
            if rr and rr[0][0] == "d" and (k.get("variant") is None or rr[0][1] == k.get("variant")):
                rr = rr[1:]
            if rr and rr[0][0] == "f" and k["a"] in ("tuple", "adt", "closure", "coroutine") and rr[0][1] < len(rv["ops"]):
                op = rv["ops"][rr[0][1]]
                rem = tuple(rr[1:])
                if op["o"] == "const":
                    return self._wrap(self._const(op["c"]), rem)
                p = op["place"]
                return self.of_place(p["local"], _projkey(p["proj"]) + rem, depth + 1, stack)
            if rr and rr[0][0] == "c" and k["a"] == "array" and int(rr[0][1]) < len(rv["ops"]):
                op = rv["ops"][int(rr[0][1])]
                return self._wrap(self.of_operand(op, depth + 1, stack), tuple(rr[1:]))
            head = k.get("adt") or k.get("def") or k["a"]
            ops = tuple(self.of_operand(x, depth + 1, stack) for x in rv["ops"]) if depth < 40 else ()
            return self._wrap(("agg", head, k.get("variant"), ops, bi), tuple(rr))
        if r == "discr":
            p = rv["place"]
            return ("discr", self.of_place(p["local"], _projkey(p["proj"]), depth + 1, stack))
        if r == "repeat":
            return self._wrap(("repeat", self.of_operand(rv["op"], depth + 1, stack), rv.get("n")), rest)
        return ("unknown", r)

    def _call(self, t, bi, rest, depth, stack):
        f = t["func"]
        gen = res = None
        if f["o"] == "const" and "fn" in f["c"]:
            gen = f["c"]["fn"]
            res = f["c"].get("resolved") or gen
        if gen == "std::ops::FromResidual::from_residual" and rest and rest[0][0] == "d" and rest[0][1] in UNWRAP_VARIANTS:
            # `?` early exit: the value built from a residual is never the success variant
            return ("unknown", "infeasible")
        if gen in TRANSPARENT_GENERIC and t["args"]:
            a = t["args"][0]
            rem = self._unwrap_rest(rest)
            if a["o"] == "const":
                return self._wrap(self._const(a["c"]), rem)
            p = a["place"]
            inner = self.of_place(p["local"], _projkey(p["proj"]) + rem, depth + 1, stack)
            if gen == "std::ops::Try::branch" and rest and rest[0][0] == "d" and rest[0][1] == "Continue":
                # the consumer took the success payload of `x?`: alternatives of x that are failures (the `?` exits and Err/None
                # values of a spliced helper) never get here
                inner = _payload_of_success(_drop_failures(inner))
            return inner
        args = ()
        if depth < 60:
            args = tuple(self.of_operand(a, depth + 1, stack) for a in t["args"])
        m = _INT_FROM.search(res or "") if len(args) == 1 else None
        if m and m.group(1) in _INT_TYPES and m.group(2) in _INT_TYPES:
            # `usize::from(x)` / `u32::from(x)` between integer types: the lossless spelling of `x as usize`
            return self._wrap(("cast", m.group(1), m.group(2), args[0]), self._unwrap_rest(rest))
        return self._wrap(("call", res or "<indirect>", bi, args), self._unwrap_rest(rest))


import re as _re
_INT_FROM = _re.compile(r"From<(\w+)> for (\w+)>::from$")
_INT_TYPES = {"u8", "u16", "u32", "u64", "u128", "usize", "i8", "i16", "i32", "i64", "i128", "isize"}


def _drop_failures(t):
    if isinstance(t, tuple) and t and t[0] == "phi":
        keep = [a for a in t[1] if not _is_failure(a)]
        if len(keep) == 1:
            return keep[0]
        if keep and len(keep) < len(t[1]):
            return ("phi", tuple(keep))
    return t


def _payload_of_success(t):
    """`Ok(x)?` / `Some(x)?` is x (the value was built by a spliced helper, so the wrapper is still visible)"""
    if isinstance(t, tuple) and t and t[0] == "agg" and len(t) > 3 and t[2] in ("Ok", "Some") and len(t[3]) == 1:
        return t[3][0]
    if isinstance(t, tuple) and t and t[0] == "phi":
        alts = tuple(_payload_of_success(a) for a in t[1])
        if all(not (isinstance(a, tuple) and a and a[0] == "agg" and len(a) > 2 and a[2] in ("Ok", "Some")) for a in alts):
            return ("phi", alts) if len(alts) > 1 else alts[0]
    return t


def _is_failure(a):
    if not isinstance(a, tuple) or not a:
        return False
    if a[0] == "call" and str(a[1]).endswith("from_residual"):
        return True
    if a[0] == "agg" and len(a) > 2 and a[2] in ("Err", "None", "Break"):
        return True
    if a[0] == "unknown" and len(a) > 1 and a[1] == "infeasible":
        return True
    return False


def _has_cycle(t):
    if not isinstance(t, tuple):
        return False
    if t and t[0] == "unknown" and len(t) > 1 and t[1] in ("cycle", "deep"):
        return True
    # argument lists are tuples of terms (their first element is a term too, not a tag)
    return any(_has_cycle(x) for x in (t if t and isinstance(t[0], tuple) else t[1:]) if isinstance(x, tuple))


# ---------- helpers over terms ----------
def fmt(t, depth=0):
    if not isinstance(t, tuple) or not t:
        return str(t)
    k = t[0]
    if depth > 8:
        return "…"
    if k == "const":
        if t[2]:
            return "%s=%s" % (t[2], t[1])
        return str(t[1]) if t[1] is not None else str(t[3])
    if k in ("static", "fn"):
        return "%s %s" % (k, t[1])
    if k == "var":
        return t[1]
    if k == "call":
        return "%s(%s)@bb%d" % (short(t[1]), ", ".join(fmt(a, depth + 1) for a in t[3]), t[2])
    if k == "field":
        return "%s.%s" % (fmt(t[1], depth + 1), t[2])
    if k == "cast":
        return "(%s as %s)" % (fmt(t[3], depth + 1), t[2])
    if k in ("binop", "overflow"):
        return "%s%s(%s, %s)" % ("ovf_" if k == "overflow" else "", t[1], fmt(t[2], depth + 1), fmt(t[3], depth + 1))
    if k == "unop":
        return "%s(%s)" % (t[1], fmt(t[2], depth + 1))
    if k == "len":
        return "len(%s)" % fmt(t[1], depth + 1)
    if k == "agg":
        return "%s%s{%s}" % (short(t[1]), ("::" + t[2]) if t[2] else "", ", ".join(fmt(a, depth + 1) for a in t[3]))
    if k == "discr":
        return "discr(%s)" % fmt(t[1], depth + 1)
    if k == "repeat":
        return "[%s; %s]" % (fmt(t[1], depth + 1), t[2])
    if k == "phi":
        return "phi(%s)" % " | ".join(fmt(a, depth + 1) for a in t[1])
    return "%s" % (t,)


def short(path):
    if not path:
        return "?"
    # keep the last two path segments, strip generic noise
    p = path
    if p.startswith("<") and " as " in p:
        return p
    segs = p.split("::")
    return "::".join(segs[-2:]) if len(segs) > 2 else p


def strip_bb(t):
    """structural form of a term with call-site/aggregate block ids removed (for expression identity)"""
    if not isinstance(t, tuple):
        return t
    if t and t[0] == "call":
        return ("call", t[1], tuple(strip_bb(a) for a in t[3]))
    if t and t[0] == "agg":
        return ("agg", t[1], t[2], tuple(strip_bb(a) for a in t[3]))
    return tuple(strip_bb(x) for x in t)


def subterms(t):
    yield t
    if isinstance(t, tuple):
        for x in t[1:]:
            if isinstance(x, tuple):
                if x and isinstance(x[0], str):
                    yield from subterms(x)
                else:
                    for y in x:
                        if isinstance(y, tuple):
                            yield from subterms(y)


def calls_in(t):
    return [s for s in subterms(t) if isinstance(s, tuple) and s and s[0] == "call"]


def vars_in(t):
    return [s[1] for s in subterms(t) if isinstance(s, tuple) and s and s[0] == "var"]


def is_call(t, *suffixes):
    if not (isinstance(t, tuple) and t and t[0] == "call"):
        return False
    return any(t[1] == s or t[1].endswith(s) for s in suffixes)


def const_int(t):
    if isinstance(t, tuple) and t and t[0] == "const":
        return t[1]
    return None
