"""A3: edge conditions — what a switchInt tests, and which successor means what."""
from .origin import Origins

STD_ENUMS = {
    "std::option::Option": ["None", "Some"],
    "std::result::Result": ["Ok", "Err"],
    "std::task::Poll": ["Ready", "Pending"],
    "std::ops::ControlFlow": ["Continue", "Break"],
    "std::net::SocketAddr": ["V4", "V6"],
    "std::net::IpAddr": ["V4", "V6"],
    "std::cmp::Ordering": None,
}

CMP_OPS = {"Lt", "Le", "Gt", "Ge", "Eq", "Ne"}
NEG = {"Lt": "Ge", "Le": "Gt", "Gt": "Le", "Ge": "Lt", "Eq": "Ne", "Ne": "Eq"}
SWAP = {"Lt": "Gt", "Le": "Ge", "Gt": "Lt", "Ge": "Le", "Eq": "Eq", "Ne": "Ne"}


def place_ty(body, place):
    ty = body.lty(place["local"])
    for e in place["proj"]:
        k = e["p"]
        if k == "deref":
            if ty.get("k") in ("ref", "ptr"):
                ty = ty["inner"]
            elif ty.get("k") == "adt" and ty.get("args"):
                ty = ty["args"][0]  # Box<T>/Arc<T>-like
        elif k == "field":
            ty = e.get("ty", {"k": "?", "s": "?"})
        elif k in ("index", "cindex", "subslice"):
            if ty.get("k") in ("array", "slice"):
                ty = ty["inner"]
    return ty


class Cond:
    """kind: 'bool' | 'variant' | 'int'.  by_succ: succ block -> list of values (True/False, variant names, ints,
    'otherwise')."""

    def __init__(self, block, kind, term, by_succ, enum=None, path=()):
        self.block = block
        self.kind = kind
        self.term = term
        self.by_succ = by_succ
        self.enum = enum
        self.path = path

    def succs_for(self, value):
        return [s for s, vs in self.by_succ.items() if value in vs]

    def edges_for(self, value):
        return [(self.block, s) for s in self.succs_for(value)]

    def edges_not(self, value):
        return [(self.block, s) for s, vs in self.by_succ.items() if value not in vs]

    def __repr__(self):
        from .origin import fmt
        return "<cond bb%d %s %s%s %s>" % (self.block, self.kind, fmt(self.term), "/" + ">".join(self.path) if self.path else "", self.by_succ)


class Conds:
    def __init__(self, body, program=None, origins=None):
        self.body = body
        self.program = program
        self.o = origins or Origins(body)
        self._cache = {}

    def at(self, b):
        if b in self._cache:
            return self._cache[b]
        c = self._at(b)
        self._cache[b] = c
        return c

    def all(self):
        out = []
        for b in sorted(self.body.reachable()):
            c = self.at(b)
            if c is not None:
                out.append(c)
        return out

    def _variants(self, adt):
        if adt in STD_ENUMS and STD_ENUMS[adt]:
            return {i: n for i, n in enumerate(STD_ENUMS[adt])}
        if self.program is not None:
            vs = self.program.enum_variants(adt)
            if vs:
                return {d: n for n, d in vs}
        return None

    def _at(self, b):
        body = self.body
        t = body.term(b)
        if t["t"] != "switch":
            return None
        targets = t["targets"]
        otherwise = t["otherwise"]
        d = t["discr"]
        # find a `discr(place)` definition feeding the switch directly
        if d["o"] in ("copy", "move") and not d["place"]["proj"]:
            l = d["place"]["local"]
            ds = [x for x in body.defs().get(l, []) if x[0] == "assign"]
            if len(ds) == 1 and ds[0][3]["r"] == "discr":
                plc = ds[0][3]["place"]
                ty = place_ty(body, plc)
                adt = ty.get("adt") if ty.get("k") == "adt" else None
                names = self._variants(adt) if adt else None
                path = tuple(e.get("variant") for e in plc["proj"] if e["p"] == "downcast")
                base = {"local": plc["local"], "proj": []}
                # base term: origin of the scrutinee without its own downcast chain
                term = self.o.of_place_json({"local": plc["local"], "proj": [e for e in plc["proj"] if e["p"] not in ("downcast",) and not (e["p"] == "field" and False)]}) if not path else self.o.of_place_json(base)
                by = {}
                seen_vals = set()
                for v, tb in targets:
                    nm = names.get(int(v), "variant#%s" % v) if names else "variant#%s" % v
                    by.setdefault(tb, []).append(nm)
                    seen_vals.add(int(v))
                rest = []
                if names:
                    rest = [n for dv, n in names.items() if dv not in seen_vals]
                if body.term(otherwise)["t"] != "unreachable":
                    by.setdefault(otherwise, []).extend(rest if rest else ["otherwise"])
                return Cond(b, "variant", term, by, enum=adt, path=path)
        term = self.o.of_operand(d)
        ty = None
        if d["o"] in ("copy", "move"):
            ty = place_ty(body, d["place"]).get("s")
        elif d["o"] == "const":
            ty = d["c"]["ty"].get("s")
        if ty == "bool":
            pol = True
            while isinstance(term, tuple) and term[0] == "unop" and term[1] == "Not":
                term = term[2]
                pol = not pol
            term = canon_cmp(term)
            by = {}
            for v, tb in targets:
                val = (int(v) != 0)
                by.setdefault(tb, []).append(val if pol else (not val))
            if body.term(otherwise)["t"] != "unreachable":
                vals = {int(v) != 0 for v, _ in targets}
                other = [x for x in (True, False) if x not in vals]
                for x in other:
                    by.setdefault(otherwise, []).append(x if pol else (not x))
            return Cond(b, "bool", term, by)
        by = {}
        for v, tb in targets:
            by.setdefault(tb, []).append(int(v))
        if body.term(otherwise)["t"] != "unreachable":
            by.setdefault(otherwise, []).append("otherwise")
        return Cond(b, "int", term, by)


def cmp_atom(term):
    """normalise a boolean comparison term to (op, lhs, rhs) or None"""
    if isinstance(term, tuple) and term and term[0] == "binop" and term[1] in CMP_OPS:
        return (term[1], term[2], term[3])
    return None


_CALL_CMP = {"lt": "Lt", "le": "Le", "gt": "Gt", "ge": "Ge"}


def _is_const(t):
    return isinstance(t, tuple) and t and t[0] == "const" and t[1] is not None


def canon_cmp(term):
    """canonical spelling of a comparison, so that `a > b` / `b < a` / `PartialOrd::gt(a, b)` are one shape:
    * binop with a constant operand: the constant is on the right (operator swapped when needed);
    * binop without constants: only Lt / Le / Eq / Ne (Gt/Ge are swapped);
    * PartialOrd::gt / ge calls become PartialOrd::lt / le calls with swapped operands (callee text keeps its prefix)."""
    if not isinstance(term, tuple) or not term:
        return term
    if term[0] == "binop" and term[1] in CMP_OPS:
        op, a, b = term[1], term[2], term[3]
        if _is_const(a) and not _is_const(b):
            return ("binop", SWAP[op], b, a)
        if not _is_const(b) and op in ("Gt", "Ge"):
            return ("binop", SWAP[op], b, a)
        return term
    if term[0] == "call" and len(term[3]) == 2:
        name = term[1]
        last = name.split("::")[-1]
        if last in ("gt", "ge") and "PartialOrd" in name:
            new_last = "lt" if last == "gt" else "le"
            return ("call", name[: -len(last)] + new_last, term[2], (term[3][1], term[3][0]))
    return term
