"""Loading of mirdump facts; Body/CFG model; readable rendering.

All analyses run on the non-unwind CFG (cleanup blocks and unwind edges removed; panics are
handled by the explicit-panic rules, not by path rules).
"""
import collections
import json
import os

TRACING_MACROS = {
    "trace", "debug", "info", "warn", "error", "event", "span", "info_span", "debug_span", "trace_span",
    "warn_span", "error_span", "enabled", "callsite", "level_enabled", "valueset", "fieldset", "metadata",
    "callsite2", "__macro_support", "log",
}


def macro_tail(m):
    return m.split("::")[-1]


def span_is_tracing(span):
    return any(macro_tail(m) in TRACING_MACROS for m in span.get("macros", ()))


def span_str(span):
    f = span.get("file", "?")
    i = f.find("src/")
    if i >= 0:
        f = f[i:]
    return "%s:%s" % (f, span.get("line", "?"))


def strip_generics(path):
    """`std::collections::HashMap::<K, V, S, A>::remove` -> `std::collections::HashMap::remove` (turbofish groups only)"""
    if not path or "::<" not in path:
        return path
    out = []
    i = 0
    n = len(path)
    while i < n:
        if path.startswith("::<", i):
            depth = 0
            j = i + 2
            while j < n:
                if path[j] == "<":
                    depth += 1
                elif path[j] == ">":
                    if j > 0 and path[j - 1] == "-":
                        pass
                    else:
                        depth -= 1
                        if depth == 0:
                            break
                j += 1
            i = j + 1
            continue
        out.append(path[i])
        i += 1
    return "".join(out)


class Call:
    __slots__ = ("body", "bb", "term", "callee", "generic", "targs", "args", "dest", "target", "span", "fn_span", "norm")

    def __init__(self, body, bb, term):
        self.body = body
        self.bb = bb
        self.term = term
        f = term["func"]
        self.callee = None
        self.generic = None
        self.targs = ()
        if f["o"] == "const" and "fn" in f["c"]:
            self.generic = f["c"]["fn"]
            self.callee = f["c"].get("resolved") or self.generic
            self.targs = f["c"].get("targs", ())
        self.norm = strip_generics(self.callee) or ""
        self.args = term["args"]
        self.dest = term["dest"]
        self.target = term["target"]
        self.span = body.blocks[bb]["tspan"]
        self.fn_span = term.get("fn_span", self.span)

    @property
    def is_tracing(self):
        return span_is_tracing(self.span)

    @property
    def line(self):
        return self.span.get("line")

    @property
    def site(self):
        return span_str(self.span)

    def name(self):
        return self.callee or "<indirect>"

    def matches(self, *pats):
        """True if the resolved or the generic callee path ends with / equals any pattern."""
        for n in (self.callee, self.generic):
            if not n:
                continue
            for p in pats:
                if n == p or n.endswith("::" + p) or n.endswith(p) and p.startswith("::"):
                    return True
        return False

    def __repr__(self):
        return "<call %s @bb%d %s>" % (self.name(), self.bb, self.site)


class Body:
    def __init__(self, j, crate):
        self.j = j
        self.crate = crate
        self.name = j["def"]
        self.kind = j["kind"]
        self.parent = j.get("parent")
        self.is_coroutine = j.get("coroutine") in (True, "true")
        self.arg_count = int(j.get("arg_count", 0))
        self.blocks = j["blocks"]
        self.locals = j["locals"]
        self.span = j.get("span", {})
        self.debug = {}  # local -> user name (whole-local bindings)
        self.upvars = {}  # field index of _1 -> captured/param name
        self.debug_places = []  # (name, place)
        for d in j["debug"]:
            p = d["place"]
            if not p:
                continue
            self.debug_places.append((d["name"], p))
            if not p["proj"]:
                self.debug.setdefault(p["local"], d["name"])
            elif p["local"] == 1 and p["proj"][0]["p"] == "field":
                # closure / coroutine upvar: (_1.i) or (*(_1.i)) or ((*_1).i)
                self.upvars.setdefault(p["proj"][0]["i"], d["name"])
            elif p["local"] == 1 and len(p["proj"]) >= 2 and p["proj"][0]["p"] == "deref" and p["proj"][1]["p"] == "field":
                self.upvars.setdefault(p["proj"][1]["i"], d["name"])
        self._succ = None
        self._preds = None
        self._defs = None
        self._calls = None
        self._reach = None

    # ----- CFG -----
    def is_cleanup(self, b):
        return self.blocks[b]["cleanup"] in (True, "true")

    def raw_succ(self, b):
        t = self.blocks[b]["term"]
        k = t["t"]
        if k in ("goto", "false_edge", "false_unwind", "drop", "assert"):
            return [t["target"]]
        if k == "switch":
            out = []
            for _, tb in t["targets"]:
                if tb not in out:
                    out.append(tb)
            if t["otherwise"] not in out:
                out.append(t["otherwise"])
            return out
        if k == "call":
            return [t["target"]] if t["target"] is not None else []
        if k == "yield":
            return [t["resume"]]
        return []

    def succ(self, b):
        if self._succ is None:
            # edges into cleanup blocks and into `unreachable` blocks (the otherwise-arm of exhaustive switches) are not real
            dead = {i for i, b in enumerate(self.blocks) if b["term"]["t"] == "unreachable"}
            self._succ = [[s for s in self.raw_succ(i) if not self.is_cleanup(s) and s not in dead] if not self.is_cleanup(i) else []
                          for i in range(len(self.blocks))]
        return self._succ[b]

    def preds(self, b):
        if self._preds is None:
            p = [[] for _ in self.blocks]
            for i in range(len(self.blocks)):
                for s in self.succ(i):
                    p[s].append(i)
            self._preds = p
        return self._preds[b]

    def reachable(self):
        if self._reach is None:
            seen = {0}
            st = [0]
            while st:
                b = st.pop()
                for s in self.succ(b):
                    if s not in seen:
                        seen.add(s)
                        st.append(s)
            self._reach = seen
        return self._reach

    def term(self, b):
        return self.blocks[b]["term"]

    def return_blocks(self):
        return [b for b in self.reachable() if self.term(b)["t"] == "return"]

    # ----- defs -----
    def defs(self):
        """local -> list of ('assign', bb, idx, rvalue) | ('call', bb, None, term) for whole-local definitions;
        partial writes (to a projection of the local) are recorded as ('partial', bb, idx, stmt)."""
        if self._defs is None:
            d = collections.defaultdict(list)
            for bi in sorted(self.reachable()):
                blk = self.blocks[bi]
                for si, st in enumerate(blk["stmts"]):
                    if st["s"] == "assign":
                        if not st["place"]["proj"]:
                            d[st["place"]["local"]].append(("assign", bi, si, st["rv"]))
                        else:
                            d[st["place"]["local"]].append(("partial", bi, si, st))
                t = blk["term"]
                if t["t"] == "call":
                    if not t["dest"]["proj"]:
                        d[t["dest"]["local"]].append(("call", bi, None, t))
                    else:
                        d[t["dest"]["local"]].append(("partial", bi, None, t))
                elif t["t"] == "yield":
                    pass
            self._defs = d
        return self._defs

    def calls(self, include_tracing=False):
        if self._calls is None:
            out = []
            for bi in sorted(self.reachable()):
                t = self.blocks[bi]["term"]
                if t["t"] == "call":
                    out.append(Call(self, bi, t))
            self._calls = out
        if include_tracing:
            return self._calls
        return [c for c in self._calls if not c.is_tracing]

    def calls_to(self, *pats, include_tracing=False):
        return [c for c in self.calls(include_tracing) if c.matches(*pats)]

    def lty(self, l):
        return self.locals[l]["ty"]

    def local_name(self, l):
        return self.debug.get(l, "_%d" % l)

    # ----- rendering -----
    def place_str(self, p):
        s = self.local_name(p["local"])
        proj = p["proj"]
        for i, e in enumerate(proj):
            k = e["p"]
            if k == "deref":
                s = "(*%s)" % s
            elif k == "field":
                nm = e.get("name")
                if p["local"] == 1 and (self.kind == "Closure" or self.is_coroutine):
                    first_field = i == 0 or (i == 1 and proj[0]["p"] == "deref")
                    if first_field and e["i"] in self.upvars:
                        s = self.upvars[e["i"]]
                        continue
                s += "." + (nm if nm is not None else str(e["i"]))
            elif k == "downcast":
                s += "<%s>" % e.get("variant")
            elif k == "index":
                s += "[%s]" % self.local_name(e["local"])
            elif k == "cindex":
                s += "[%s%s]" % ("-" if e["from_end"] in (True, "true") else "", e["offset"])
            elif k == "subslice":
                s += "[%s..%s]" % (e["from"], e["to"])
            else:
                s += "{%s}" % k
        return s

    def operand_str(self, o):
        if o["o"] == "const":
            c = o["c"]
            if "fn" in c:
                return "fn " + (c.get("resolved") or c["fn"])
            if "static" in c:
                return "&static " + c["static"]
            if c.get("int") is not None:
                return "%s%s" % (c["int"], ("/*%s*/" % c["uneval"].split("::")[-1]) if c.get("uneval") else "")
            return c.get("disp", "const?")
        if o["o"] in ("copy", "move"):
            return ("move " if o["o"] == "move" else "") + self.place_str(o["place"])
        return "?"

    def rvalue_str(self, rv):
        r = rv["r"]
        if r == "use":
            return self.operand_str(rv["op"])
        if r == "ref":
            return "&%s %s" % ("mut" if "Mut" in rv["kind"] else "", self.place_str(rv["place"]))
        if r in ("copyforderef", "rawptr"):
            return "%s(%s)" % (r, self.place_str(rv["place"]))
        if r == "cast":
            return "%s as %s [%s]" % (self.operand_str(rv["op"]), rv["to"]["s"], rv["kind"].split("(")[0])
        if r == "binop":
            return "%s(%s, %s)" % (rv["op"], self.operand_str(rv["a"]), self.operand_str(rv["b"]))
        if r == "unop":
            return "%s(%s)" % (rv["op"], self.operand_str(rv["a"]))
        if r == "discr":
            return "discr(%s)" % self.place_str(rv["place"])
        if r == "aggregate":
            k = rv["kind"]
            head = k.get("adt") or k.get("def") or k["a"]
            if k.get("variant"):
                head += "::" + k["variant"]
            return "%s{%s}" % (head, ", ".join(self.operand_str(x) for x in rv["ops"]))
        if r == "repeat":
            return "[%s; %s]" % (self.operand_str(rv["op"]), rv.get("n"))
        return r + ":" + str(rv.get("s", ""))[:60]

    def term_str(self, b):
        t = self.blocks[b]["term"]
        k = t["t"]
        if k == "call":
            f = t["func"]
            fn = self.operand_str(f)
            return "%s = %s(%s) -> bb%s" % (self.place_str(t["dest"]), fn,
                                            ", ".join(self.operand_str(a) for a in t["args"]), t["target"])
        if k == "switch":
            return "switch(%s) [%s, else->bb%s]" % (self.operand_str(t["discr"]),
                                                    ", ".join("%s->bb%s" % (v, tb) for v, tb in t["targets"]), t["otherwise"])
        if k == "drop":
            return "drop(%s) -> bb%s" % (self.place_str(t["place"]), t["target"])
        if k == "assert":
            return "assert(%s == %s, %s) -> bb%s" % (self.operand_str(t["cond"]), t["expected"], t["msg"][:40], t["target"])
        if k == "yield":
            return "yield -> bb%s" % t["resume"]
        if k in ("goto", "false_edge", "false_unwind"):
            return "%s -> bb%s" % (k, t["target"])
        return k

    def render(self, show_tracing=False, show_cleanup=False, storage=False):
        out = ["fn %s  [%s%s, args=%d, %s]" % (self.name, self.kind, " coroutine" if self.is_coroutine else "",
                                              self.arg_count, span_str(self.span))]
        for l in self.locals:
            nm = self.debug.get(l["i"])
            if nm or l["i"] <= self.arg_count:
                out.append("  let _%d%s: %s" % (l["i"], (" /*%s*/" % nm) if nm else "", l["ty"]["s"][:140]))
        if self.upvars:
            out.append("  upvars: " + ", ".join("%d=%s" % kv for kv in sorted(self.upvars.items())))
        for bi in range(len(self.blocks)):
            if bi not in self.reachable():
                continue
            blk = self.blocks[bi]
            if self.is_cleanup(bi) and not show_cleanup:
                continue
            tr = span_is_tracing(blk["tspan"])
            if tr and not show_tracing:
                out.append("  bb%d: [tracing] -> %s" % (bi, self.succ(bi)))
                continue
            out.append("  bb%d:%s" % (bi, " (tracing)" if tr else ""))
            for st in blk["stmts"]:
                if st["s"] == "assign":
                    if span_is_tracing(st["span"]) and not show_tracing:
                        continue
                    out.append("      %s = %s   // L%s" % (self.place_str(st["place"]), self.rvalue_str(st["rv"]), st["span"]["line"]))
                elif st["s"] == "setdiscr":
                    out.append("      setdiscr %s = %s" % (self.place_str(st["place"]), st["vi"]))
                elif storage:
                    out.append("      %s _%d" % (st["s"], st["local"]))
            d = blk["tspan"].get("desugar")
            out.append("      %s   // L%s%s" % (self.term_str(bi), blk["tspan"]["line"], (" " + d) if d else ""))
        return "\n".join(out)


class Program:
    def __init__(self, facts_dir, known_fns_path=None):
        self.facts_dir = facts_dir
        self.bodies = {}
        self.adts = {}
        self.consts = {}
        self.statics = {}
        self.crates = {}
        for fn in sorted(os.listdir(facts_dir)):
            if not fn.endswith(".json"):
                continue
            with open(os.path.join(facts_dir, fn)) as fh:
                d = json.load(fh)
            crate = d["crate"]
            self.crates[crate] = {"bodies": len(d["bodies"]), "skipped": d.get("skipped", []), "argv": d.get("argv", [])}
            for b in d["bodies"]:
                body = Body(b, crate)
                key = body.name if crate == "anytls_rs" else crate + "::" + body.name
                self.bodies[key] = body
            for a in d["adts"]:
                self.adts[a["def"]] = a
            for c in d["consts"]:
                self.consts[c["def"] if crate == "anytls_rs" else crate + "::" + c["def"]] = c
            for s in d["statics"]:
                self.statics[s["def"]] = s

        # helpers outside the rules' vocabulary are spliced into their callers (see inline.py)
        self.inline_report = {"unknown_functions": [], "spliced": []}
        self.inlined_away = set()
        self.spawn_alias = {}
        kp = known_fns_path or os.path.join(os.path.dirname(os.path.dirname(os.path.dirname(os.path.abspath(__file__)))), "rules", "baseline_fns.txt")
        if os.path.isfile(kp) and not os.environ.get("VERIF_NO_INLINE"):
            with open(kp) as fh:
                known = {l.strip() for l in fh if l.strip() and not l.startswith("#")}
            from .inline import inline_unknown_helpers
            self.inline_report = inline_unknown_helpers(self, known)

        # precision: retarget edges whose enum variant is statically known (after inlining, so that a helper's
        # `return None` goes straight to the caller's None arm)
        if not os.environ.get("VERIF_NO_THREAD"):
            from .thread import thread_body
            self.threaded = 0
            for key in list(self.bodies):
                b = self.bodies[key]
                import copy as _copy
                j = b.j
                # cheap pre-test: only bodies that contain an Option/Result-like aggregate and a discriminant switch
                n = thread_body(self, j)
                if n:
                    self.threaded += n
                    self.bodies[key] = Body(j, b.crate)

    def owner(self, key):
        """enclosing named function of a (possibly spawned) body; a helper that only names a task body (11.6) reports as the
        function that starts the task"""
        base = key.split("::{closure")[0]
        for _ in range(4):
            if base in self.spawn_alias:
                base = self.spawn_alias[base]
        return base

    def scan(self):
        """(key, body) of every body a crate-wide rule should look at: helper bodies that were spliced into all of
        their callers are skipped (their code is examined in the callers' context)"""
        return [(k, b) for k, b in self.bodies.items() if k not in self.inlined_away]

    def body(self, name):
        return self.bodies.get(name)

    def find(self, substr):
        return [b for n, b in self.bodies.items() if substr in n]

    def one(self, name):
        """exact match on the def path, or unique suffix match; None when absent/ambiguous"""
        if name in self.bodies:
            return self.bodies[name]
        c = [b for n, b in self.bodies.items() if n.endswith(name)]
        return c[0] if len(c) == 1 else None

    def const_int(self, suffix):
        for n, c in self.consts.items():
            if n == suffix or n.endswith("::" + suffix):
                if c.get("int") is not None:
                    return int(c["int"])
        return None

    def enum_variants(self, adt):
        a = self.adts.get(adt)
        if not a:
            return None
        return [(v["name"], int(v["discr"]) if v.get("discr") is not None else i) for i, v in enumerate(a["variants"])]

    def stats(self):
        nb = len(self.bodies)
        blocks = sum(len(b.reachable()) for b in self.bodies.values())
        calls = sum(len(b.calls(True)) for b in self.bodies.values())
        return {"crates": self.crates and {k: v["bodies"] for k, v in self.crates.items()}, "bodies": nb,
                "basic_blocks": blocks, "call_sites": calls}
