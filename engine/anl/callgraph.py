"""A1: call graph over exported bodies (resolved callees; async, closure and spawn edges)."""
import collections

from .origin import Origins, subterms

SPAWN_FNS = ("tokio::spawn", "tokio::task::spawn", "tokio::task::spawn_blocking", "tokio::task::spawn_local",
             "std::thread::spawn")

EDGE_CALL = "call"      # direct call of a local fn (for an async fn: creates its future)
EDGE_ASYNC = "async"    # body constructs a coroutine/async block whose result the caller's awaiter runs
EDGE_CLOSURE = "closure"  # body constructs a closure (may be invoked in place by the callee it is passed to)
EDGE_SPAWN = "spawn"    # new task root: no lock / dominance context inherited


class Edge:
    __slots__ = ("src", "dst", "kind", "bb", "site")

    def __init__(self, src, dst, kind, bb, site):
        self.src = src
        self.dst = dst
        self.kind = kind
        self.bb = bb
        self.site = site

    def __repr__(self):
        return "<%s %s -> %s @bb%s>" % (self.kind, self.src, self.dst, self.bb)


class CallGraph:
    def __init__(self, program):
        self.p = program
        self.out = collections.defaultdict(list)
        self.inn = collections.defaultdict(list)
        self._origins = {}
        self._build()

    def origins(self, body):
        o = self._origins.get(body.name)
        if o is None:
            o = Origins(body)
            self._origins[body.name] = o
        return o

    def key_of(self, body):
        return body.name if body.crate == "anytls_rs" else body.crate + "::" + body.name

    def resolve(self, body, callee):
        """fact key of a local body for a callee path seen in `body`, or None (external)"""
        if callee is None:
            return None
        if body.crate != "anytls_rs":
            k = body.crate + "::" + callee
            if k in self.p.bodies:
                return k
            # a bin crate calls the library through its extern name
            if callee.startswith("anytls_rs::"):
                k2 = callee[len("anytls_rs::"):]
                if k2 in self.p.bodies:
                    return k2
                # re-exported paths (anytls_rs::client::Client::new -> client::client::Client::new)
                tail = k2.split("::")
                cands = [n for n in self.p.bodies if n.split("::")[-len(tail[-2:]):] == tail[-2:] and not n.startswith(("anytls_client::", "anytls_server::"))]
                if len(cands) == 1:
                    return cands[0]
        if callee in self.p.bodies:
            return callee
        return None

    def _add(self, src, dst, kind, bb, site):
        e = Edge(src, dst, kind, bb, site)
        self.out[src].append(e)
        self.inn[dst].append(e)

    def _build(self):
        for key, body in self.p.bodies.items():
            o = self.origins(body)
            spawned_bbs = set()     # call-site blocks / aggregate blocks whose value flows into a spawn
            spawned_defs = set()
            for c in body.calls(True):
                if c.generic in SPAWN_FNS or (c.callee in SPAWN_FNS):
                    for a in c.args[:1]:
                        t = o.of_operand(a)
                        # the spawned future itself: the top-level call (an `async fn` invoked in the argument position) or
                        # closure/coroutine aggregate, through phis and wrapper aggregates — but not the calls that merely
                        # computed its *arguments* (they ran synchronously in the spawning task)
                        work = [t]
                        seen_ = 0
                        while work and seen_ < 64:
                            s = work.pop()
                            seen_ += 1
                            if not (isinstance(s, tuple) and s):
                                continue
                            if s[0] == "call":
                                spawned_bbs.add(s[2])
                                callee_is_local = self.resolve(body, s[1]) is not None
                                if not callee_is_local:
                                    work.extend(s[3])      # a combinator (timeout(..), instrument(..), Box::pin(..)) wrapping the future
                            elif s[0] == "agg":
                                spawned_defs.add(s[1])
                                if "{closure" not in str(s[1]):
                                    work.extend(s[3])      # a wrapper struct around the future; a closure's captures are plain values
                            elif s[0] == "phi":
                                work.extend(s[1])
            # aggregates: closures / coroutines constructed here
            for bi in sorted(body.reachable()):
                for st in body.blocks[bi]["stmts"]:
                    if st["s"] != "assign" or st["rv"]["r"] != "aggregate":
                        continue
                    k = st["rv"]["kind"]
                    if k["a"] in ("closure", "coroutine", "coroutine_closure"):
                        dst = self.resolve(body, k["def"])
                        if dst is None:
                            continue
                        if k["def"] in spawned_defs:
                            kind = EDGE_SPAWN
                        elif k["a"] == "closure":
                            kind = EDGE_CLOSURE
                        else:
                            kind = EDGE_ASYNC
                        self._add(key, dst, kind, bi, "%s:%s" % (st["span"].get("file", "?").split("/")[-1], st["span"]["line"]))
            for c in body.calls(True):
                dst = self.resolve(body, c.callee)
                if dst is None:
                    continue
                if c.generic == "std::future::Future::poll" or (c.callee and c.callee.endswith("as std::future::Future>::poll")):
                    # awaited future resolved to a local coroutine body: covered by call+async edges; keep as await
                    self._add(key, dst, "await", c.bb, c.site)
                    continue
                kind = EDGE_SPAWN if c.bb in spawned_bbs else EDGE_CALL
                self._add(key, dst, kind, c.bb, c.site)

    def callees(self, key, kinds=(EDGE_CALL, EDGE_ASYNC, EDGE_CLOSURE, "await")):
        return [e for e in self.out.get(key, []) if e.kind in kinds]

    def callers(self, key, kinds=(EDGE_CALL, EDGE_ASYNC, EDGE_CLOSURE, "await", EDGE_SPAWN)):
        return [e for e in self.inn.get(key, []) if e.kind in kinds]

    def reachable_from(self, roots, kinds=(EDGE_CALL, EDGE_ASYNC, EDGE_CLOSURE, "await", EDGE_SPAWN)):
        seen = set()
        st = [r for r in roots if r in self.p.bodies]
        seen.update(st)
        while st:
            k = st.pop()
            for e in self.out.get(k, []):
                if e.kind in kinds and e.dst not in seen:
                    seen.add(e.dst)
                    st.append(e.dst)
        return seen

    def coroutine_of(self, fn_key):
        """the `{closure#0}` coroutine body of an async fn"""
        k = fn_key + "::{closure#0}"
        b = self.p.bodies.get(k)
        return k if b is not None and b.is_coroutine else None
