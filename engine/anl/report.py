"""Check context, obligations, known-findings matching, evidence output."""
import json
import os
import time

from .callgraph import CallGraph
from .cfg import CFG
from .conds import Conds
from .locks import LockAnalysis
from .mir import Program
from .origin import Origins

VERIF = os.path.dirname(os.path.dirname(os.path.dirname(os.path.abspath(__file__))))

ASSUMPTIONS_COMMON = [
    "scope: the local crate as built by `cargo check --lib --bins` (host cfg unix, default features); test modules are not part of the build and are not analysed",
    "dependencies (tokio, bytes, rustls, trust-dns, std) are not analysed; their behaviour is the contract listed in DESIGN.md section 4",
    "path rules run on rustc's mir_built CFG with unwind edges removed; path-insensitive except for the Session role specialisation (is_client/send_padding constants)",
    "interprocedural facts come from call-graph summaries over resolved callees; spawned tasks are separate roots",
    "a passing verdict states the structural (shape) clauses named in the obligations, not the value/time clauses listed as not decided in DESIGN.md section 5",
]


class Ob:
    __slots__ = ("rule", "instance", "site", "verdict", "detail", "key", "nontrivial", "path")

    def __init__(self, rule, instance, site, verdict, detail, key, nontrivial=True, path=None):
        self.rule = rule
        self.instance = instance
        self.site = site
        self.verdict = verdict
        self.detail = detail
        self.key = key
        self.nontrivial = nontrivial
        self.path = path

    def as_json(self):
        d = {"rule": self.rule, "instance": self.instance, "site": self.site, "verdict": self.verdict,
             "detail": self.detail, "key": self.key}
        if self.path:
            d["path"] = self.path
        return d


class Ctx:
    def __init__(self, prop, facts_dir, tier="quick", program=None, callgraph=None):
        self.prop = prop
        self.tier = tier
        self.P = program if program is not None else Program(facts_dir)
        self.obs = []
        self.info = []
        self._cg = callgraph
        self._la = {}
        self._cfg = {}
        self._or = {}
        self._conds = {}
        self.bodies_touched = set()
        self.extra = {}

    # ---- lazily built analyses ----
    @property
    def cg(self):
        if self._cg is None:
            self._cg = CallGraph(self.P)
        return self._cg

    def locks(self, role=None):
        if role not in self._la:
            self._la[role] = LockAnalysis(self.P, self.cg, role)
        return self._la[role]

    def cfg(self, body):
        c = self._cfg.get(body.name)
        if c is None:
            c = CFG(body)
            self._cfg[body.name] = c
        self.bodies_touched.add(body.name)
        return c

    def origins(self, body):
        o = self._or.get(body.name)
        if o is None:
            o = Origins(body)
            self._or[body.name] = o
        self.bodies_touched.add(body.name)
        return o

    def conds(self, body):
        c = self._conds.get(body.name)
        if c is None:
            c = Conds(body, self.P, self.origins(body))
            self._conds[body.name] = c
        return c

    # ---- obligations ----
    def key(self, rule, instance):
        return "%s/%s/%s" % (self.prop, rule, instance)

    def ob(self, rule, instance, ok, site="", detail="", nontrivial=True, path=None):
        v = "pass" if ok else "violation"
        o = Ob(rule, instance, site, v, detail, self.key(rule, instance), nontrivial, path)
        self.obs.append(o)
        return ok

    def missing(self, rule, what, detail=""):
        """fail closed: an anchor the rule is written against was not found in the current tree"""
        o = Ob(rule, "anchor:" + what, "", "anchor-missing",
               detail or ("anchor not found in the current tree: %s (the rule cannot be evaluated; it fails closed)" % what),
               self.key(rule, "anchor:" + what), False)
        self.obs.append(o)
        return None

    def note(self, rule, text):
        self.info.append({"rule": rule, "note": text})

    def body(self, rule, name):
        """exact def-path lookup that fails closed"""
        b = self.P.bodies.get(name)
        if b is None:
            self.missing(rule, name)
            return None
        self.bodies_touched.add(name)
        return b

    def floor(self, rule, what, found, expected_min):
        if found < expected_min:
            self.missing(rule, "%s: found %d, expected at least %d" % (what, found, expected_min))
            return False
        return True


def load_known(path=None):
    path = path or os.path.join(VERIF, "known_findings.jsonl")
    out = []
    if os.path.isfile(path):
        with open(path) as fh:
            for line in fh:
                line = line.strip()
                if not line or line.startswith("#"):
                    continue
                out.append(json.loads(line))
    return out


def finish(ctx, explanation, rule_text, t0, seed=0, assumptions=()):
    """match against known findings, print the verdict lines, write evidence; returns the exit code"""
    known = {k["key"]: k for k in load_known() if k.get("status") == "known" and k.get("property") == ctx.prop}
    viol = [o for o in ctx.obs if o.verdict in ("violation", "anchor-missing")]
    unlisted = []
    listed = []
    for o in viol:
        if o.verdict == "violation" and o.key in known:
            listed.append(o)
        else:
            unlisted.append(o)
    # evidence always describes /repo itself; a run pointed at a scratch copy (VERIF_REPO, used by the sweeps) writes elsewhere
    ev_dir = os.environ.get("VERIF_EVIDENCE_DIR") or os.path.join(VERIF, "evidence")
    os.makedirs(os.path.join(ev_dir, "replay"), exist_ok=True)
    for o in listed:
        print("KNOWN-FINDING: property=%s %s [%s] %s" % (ctx.prop, known[o.key].get("what", o.detail), o.key, o.site))
    n = 0
    for o in unlisted:
        n += 1
        rp = os.path.join(ev_dir, "replay", "%s-%d.json" % (ctx.prop, n))
        with open(rp, "w") as fh:
            json.dump(o.as_json(), fh, indent=1)
        print("  %s %s %s: %s" % (o.verdict.upper(), o.rule, o.site, o.detail))
        if o.path:
            for ln in o.path[:40]:
                print("      " + ln)
        print("VIOLATION property=%s replay=%s" % (ctx.prop, rp))
    passed = [o for o in ctx.obs if o.verdict == "pass"]
    distinct_nontrivial = len({o.key for o in ctx.obs if o.nontrivial})
    samples = [o.as_json() for o in (unlisted + listed + passed)[:12]]
    per_rule = {}
    for o in ctx.obs:
        r = per_rule.setdefault(o.rule, {"pass": 0, "violation": 0, "anchor-missing": 0})
        r[o.verdict] += 1
    st = ctx.P.stats()
    cov = {
        "explanation": explanation,
        "rule": rule_text,
        "evaluations": len(ctx.obs),
        "distinct_nontrivial": distinct_nontrivial,
        "samples": samples,
        "obligations": len(ctx.obs),
        "discharged": len(passed),
        "obligation_list": [{"rule": o.rule, "key": o.key, "site": o.site, "verdict": o.verdict, "what": (o.detail or "")[:220]} for o in ctx.obs],
        "functions_analysed": sorted(ctx.bodies_touched)[:400],
        "known_findings_matched": [o.key for o in listed],
        "unlisted_violations": [o.key for o in unlisted],
        "per_rule": per_rule,
        "bodies_exported": st["bodies"],
        "basic_blocks_exported": st["basic_blocks"],
        "call_sites_exported": st["call_sites"],
        "bodies_analysed_by_this_check": len(ctx.bodies_touched),
        "crates": st["crates"],
        "notes": ctx.info[:40],
        "helpers_inlined": ctx.P.inline_report,
        "exhaustive": True,
    }
    cov.update(ctx.extra)
    ev = {
        "property_id": ctx.prop,
        "tier": ctx.tier,
        "seed": int(seed),
        "level": "other",
        "coverage": cov,
        "assumptions": list(ASSUMPTIONS_COMMON) + list(assumptions),
        "wall_s": round(time.time() - t0, 3),
        "violations": len(unlisted),
    }
    with open(os.path.join(ev_dir, ctx.prop + ".json"), "w") as fh:
        json.dump(ev, fh, indent=1)
    print("[%s] obligations=%d pass=%d known=%d unlisted=%d wall=%.1fs" % (ctx.prop, len(ctx.obs), len(passed), len(listed), len(unlisted), time.time() - t0))
    return 1 if unlisted else 0
