"""python3 -m engine.anl.dump <substr> [--tracing]  : render matching bodies"""
import sys
from engine import facts
from engine.anl.mir import Program

def main():
    d, _ = facts.ensure_facts()
    P = Program(d)
    args = [a for a in sys.argv[1:] if not a.startswith("--")]
    if not args:
        for n in sorted(P.bodies):
            print(n)
        return
    for n, b in sorted(P.bodies.items()):
        if all(a in n for a in args):
            print(b.render(show_tracing="--tracing" in sys.argv, storage="--storage" in sys.argv))
            print()
main()
