"""Summary inlining of helper functions the rules cannot know by name.

The rules are written against the functions that exist on the reference tree (rules/baseline_fns.txt). A function that
is not in that vocabulary (typically a helper extracted by a refactoring) is spliced into each of its callers' CFGs, so
that path, dominance, lock-scope and origin queries see the same program shape as before the extraction:
  * a direct call of a sync helper is replaced by the helper's blocks (parameters bound to the argument operands,
    the helper's return place moved into the call's destination);
  * an awaited call of an async helper is spliced at the `Future::poll` site of its coroutine body (captured variables
    bound to the argument operands of the call that created the future; the coroutine's return value wrapped in Poll::Ready).
Helpers that are spawned, stored or passed as values are left alone (they stay separate bodies / task roots).
Inlining is bounded (depth 4); recursion stops at the bound.
"""
import copy
import json

from .mir import Body
from .origin import Origins

MAX_ROUNDS = 4


def _remap_place(p, lo, upmap=None, self_local=None):
    """shift local ids by lo; rewrite coroutine-self field accesses to the locals bound to the captured variables"""
    local = p["local"]
    proj = p["proj"]
    if upmap is not None and local == self_local:
        # (_1.k ...) or ((*_1).k ...)
        i = 0
        while i < len(proj) and proj[i]["p"] == "deref":
            i += 1
        if i < len(proj) and proj[i]["p"] == "field" and proj[i]["i"] in upmap:
            return {"local": upmap[proj[i]["i"]], "proj": [_remap_elem(e, lo) for e in proj[i + 1:]]}
    return {"local": local + lo, "proj": [_remap_elem(e, lo) for e in proj]}


def _remap_elem(e, lo):
    if e["p"] == "index":
        e = dict(e)
        e["local"] = e["local"] + lo
    return e


def _remap_operand(o, lo, upmap, sl):
    if o["o"] in ("copy", "move"):
        return {"o": o["o"], "place": _remap_place(o["place"], lo, upmap, sl)}
    return o


def _remap_rvalue(rv, lo, upmap, sl):
    rv = dict(rv)
    for k in ("op", "a", "b"):
        if k in rv and isinstance(rv[k], dict) and "o" in rv[k]:
            rv[k] = _remap_operand(rv[k], lo, upmap, sl)
    if "place" in rv:
        rv["place"] = _remap_place(rv["place"], lo, upmap, sl)
    if "ops" in rv:
        rv["ops"] = [_remap_operand(x, lo, upmap, sl) for x in rv["ops"]]
    return rv


def _remap_block(blk, lo, bo, upmap, sl):
    nb = {"stmts": [], "tspan": blk["tspan"], "cleanup": blk["cleanup"]}
    for st in blk["stmts"]:
        st = dict(st)
        if st["s"] == "assign":
            st["place"] = _remap_place(st["place"], lo, upmap, sl)
            st["rv"] = _remap_rvalue(st["rv"], lo, upmap, sl)
        elif st["s"] == "setdiscr":
            st["place"] = _remap_place(st["place"], lo, upmap, sl)
        elif st["s"] in ("dead", "live"):
            st["local"] = st["local"] + lo
        nb["stmts"].append(st)
    t = dict(blk["term"])
    k = t["t"]
    for key in ("target", "unwind", "cdrop", "resume", "imaginary", "otherwise"):
        if key in t and isinstance(t[key], int):
            t[key] = t[key] + bo
    if k == "switch":
        t["discr"] = _remap_operand(t["discr"], lo, upmap, sl)
        t["targets"] = [[v, b + bo] for v, b in t["targets"]]
    elif k == "call":
        t["func"] = _remap_operand(t["func"], lo, upmap, sl)
        t["args"] = [_remap_operand(a, lo, upmap, sl) for a in t["args"]]
        t["dest"] = _remap_place(t["dest"], lo, upmap, sl)
    elif k == "drop":
        t["place"] = _remap_place(t["place"], lo, upmap, sl)
    elif k == "assert":
        t["cond"] = _remap_operand(t["cond"], lo, upmap, sl)
        if "msg" in t:
            # the message is the Debug rendering of rustc's AssertKind and names locals (`index: copy _7`): renumber them too
            import re as _re
            t["msg"] = _re.sub(r"\b_(\d+)\b", lambda m_: "_%d" % (int(m_.group(1)) + lo), t["msg"])
    nb["term"] = t
    return nb


def _assign(place, operand, span):
    return {"s": "assign", "place": place, "rv": {"r": "use", "op": operand}, "span": span}


def _splice(bj, call_bb, callee_j, arg_ops, dest, target, is_poll, upvar_args=None):
    """splice callee_j into the caller JSON bj at block call_bb; returns True when done"""
    lo = len(bj["locals"])
    bo = len(bj["blocks"])
    span = bj["blocks"][call_bb]["tspan"]
    # copy locals
    for l in callee_j["locals"]:
        nl = dict(l)
        nl["i"] = l["i"] + lo
        bj["locals"].append(nl)
    upmap = None
    self_local = None
    pre = []
    if is_poll:
        self_local = 1
        upmap = {}
        for k, op in (upvar_args or {}).items():
            nid = len(bj["locals"])
            # type of the captured variable: first field projection found on _1.k
            ty = {"k": "?", "s": "?"}
            for blk in callee_j["blocks"]:
                for st in blk["stmts"]:
                    if st["s"] == "assign":
                        _op = st["rv"].get("op")      # an operand for use/cast rvalues, the operator's name for unop/binop
                        for pl in (st["place"], st["rv"].get("place"), _op.get("place") if isinstance(_op, dict) else None):
                            if pl and pl["local"] == 1:
                                for e in pl["proj"]:
                                    if e["p"] == "field" and e["i"] == k and "ty" in e:
                                        ty = e["ty"]
            bj["locals"].append({"i": nid, "ty": ty, "user": "true"})
            upmap[k] = nid
            pre.append(_assign({"local": nid, "proj": []}, op, span))
        # names of the captured variables
        names = {}
        for d in callee_j["debug"]:
            p = d["place"]
            if p and p["local"] == 1 and p["proj"]:
                pr = [e for e in p["proj"] if e["p"] != "deref"]
                if pr and pr[0]["p"] == "field" and len(pr) == 1:
                    names.setdefault(pr[0]["i"], d["name"])
        for k, nid in upmap.items():
            bj["debug"].append({"name": names.get(k, "captured%d" % k), "place": {"local": nid, "proj": []}})
        # task context
        if len(arg_ops) > 1:
            pre.append(_assign({"local": 2 + lo, "proj": []}, arg_ops[1], span))
    else:
        for i, op in enumerate(arg_ops):
            pre.append(_assign({"local": 1 + i + lo, "proj": []}, op, span))
    # debug names of the callee's own locals
    for d in callee_j["debug"]:
        p = d["place"]
        if p and not p["proj"] and not (is_poll and p["local"] == 1):
            bj["debug"].append({"name": d["name"], "place": {"local": p["local"] + lo, "proj": []}})
        elif p and p["proj"] and is_poll and p["local"] == 1:
            continue
    # copy blocks
    for blk in callee_j["blocks"]:
        nb = _remap_block(blk, lo, bo, upmap, self_local)
        if nb["term"]["t"] == "return":
            ret_src = {"o": "move", "place": {"local": 0 + lo, "proj": []}}
            if is_poll:
                nb["stmts"].append({"s": "assign", "place": dest, "span": nb["tspan"],
                                    "rv": {"r": "aggregate", "kind": {"a": "adt", "adt": "std::task::Poll", "variant": "Ready", "fields": ["0"]}, "ops": [ret_src]}})
            else:
                nb["stmts"].append(_assign(dest, ret_src, nb["tspan"]))
            nb["term"] = {"t": "goto", "target": target} if target is not None else {"t": "unreachable"}
        bj["blocks"].append(nb)
    cb = bj["blocks"][call_bb]
    cb["stmts"] = cb["stmts"] + pre
    cb["term"] = {"t": "goto", "target": bo}
    return True


def _is_async_fn(program, key):
    """`async fn` (its body only builds the coroutine `{closure#0}`); a sync fn whose first closure happens to be an
    `async move {}` block is not one"""
    f = program.bodies.get(key)
    ck = key + "::{closure#0}"
    b = program.bodies.get(ck)
    return f is not None and f.j.get("is_async_fn") in (True, "true") and b is not None and b.is_coroutine


def _coroutine_param_map(fn_body, co_name):
    """{upvar index: parameter position (0-based)} from the async fn's body, which only builds its coroutine"""
    for bi in sorted(fn_body.reachable()):
        for st in fn_body.blocks[bi]["stmts"]:
            if st["s"] == "assign" and st["rv"]["r"] == "aggregate" and st["rv"]["kind"]["a"] in ("coroutine", "coroutine_closure") and st["rv"]["kind"].get("def") == co_name:
                out = {}
                for k, op in enumerate(st["rv"]["ops"]):
                    if op["o"] in ("copy", "move") and not op["place"]["proj"] and 1 <= op["place"]["local"] <= fn_body.arg_count:
                        out[k] = op["place"]["local"] - 1
                    else:
                        return None
                return out
    return None


def inline_unknown_helpers(program, known_fns):
    """mutates program.bodies: callers of functions outside `known_fns` get them spliced in. Returns a report dict."""
    new_fns = set()
    for key, b in program.bodies.items():
        if b.kind in ("Fn", "AssocFn") and key not in known_fns and not key.startswith(("anytls_client::", "anytls_server::")):
            new_fns.add(key)
    report = {"unknown_functions": sorted(new_fns), "spliced": []}
    program.spawn_alias = {}
    if not new_fns:
        return report
    consumed = set()    # (caller key, block of the call that creates the future) whose await was spliced
    hosts = {}          # helper -> named functions it was spliced into
    for _ in range(MAX_ROUNDS):
        changed = False
        for key in list(program.bodies):
            body = program.bodies[key]
            if key in new_fns and False:
                continue
            sites = []
            for c in body.calls(True):
                tgt = c.callee
                if tgt in new_fns and not _is_async_fn(program, tgt):
                    sites.append(("sync", c, tgt))
                elif tgt and tgt.endswith("::{closure#0}") and tgt[:-len("::{closure#0}")] in new_fns and (c.generic == "std::future::Future::poll" or (c.callee or "").endswith("{closure#0}")):
                    sites.append(("poll", c, tgt[:-len("::{closure#0}")]))
            if not sites:
                continue
            bj = copy.deepcopy(body.j)
            o = Origins(body)
            did = False
            # splice from the highest block id down so that earlier block ids stay valid (new blocks are appended anyway)
            for kind, c, fn in sites:
                if kind == "sync":
                    callee = program.bodies[fn]
                    _splice(bj, c.bb, callee.j, c.args, c.dest, c.target, False)
                    report["spliced"].append("%s <- %s (call at %s)" % (key, fn, c.site))
                    hosts.setdefault(fn, set()).add(key.split("::{closure")[0])
                    did = True
                else:
                    co = program.bodies[fn + "::{closure#0}"]
                    fnb = program.bodies[fn]
                    pm = _coroutine_param_map(fnb, co.name)
                    fut = o.of_operand(c.args[0]) if c.args else None
                    if pm is None or not (isinstance(fut, tuple) and fut[0] == "call" and fut[1] == fn):
                        continue
                    mk = [x for x in body.calls(True) if x.bb == fut[2]]
                    if not mk:
                        continue
                    make = mk[0]
                    upargs = {k: make.args[pi] for k, pi in pm.items() if pi < len(make.args)}
                    _splice(bj, c.bb, co.j, c.args, c.dest, c.target, True, upargs)
                    consumed.add((key, make.bb))
                    report["spliced"].append("%s <- %s (awaited at %s)" % (key, fn, c.site))
                    hosts.setdefault(fn, set()).add(key.split("::{closure")[0])
                    did = True
            if did:
                program.bodies[key] = Body(bj, body.crate)
                changed = True
        if not changed:
            break
    # helpers whose every use was spliced: crate-wide who-may scans skip their standalone bodies
    away = set()
    for fn in new_fns:
        co_key = fn + "::{closure#0}"
        is_async = _is_async_fn(program, fn)
        left = 0
        makers = []
        for key, body in program.bodies.items():
            if key == fn or key.startswith(fn + "::"):
                continue
            for c in body.calls(True):
                if not is_async and c.callee == fn:
                    left += 1
                if is_async and c.callee == co_key:
                    left += 1
                if is_async and c.callee == fn and (key, c.bb) not in consumed:
                    # the future is created here but never awaited in this body (handed to spawn, stored, returned): the
                    # helper stays a body of its own
                    left += 1
                    makers.append(key)
        if is_async and makers and len(set(makers)) == 1:
            # a task body given a name: `tokio::spawn(helper(..))` instead of `tokio::spawn(async move {..})`; reports keep
            # naming the function that starts the task
            program.spawn_alias[fn] = makers[0].split("::{closure")[0]
        if left == 0:
            away.add(fn)
            if is_async:
                away.add(co_key)
            # the closures written inside the helper are bodies of their own (the splice copies the code that *creates* them,
            # not their code): they stay in every crate-wide scan, reported under the function the helper was spliced into
            hs = {h for h in hosts.get(fn, ()) if h != fn}
            if len(hs) == 1:
                program.spawn_alias.setdefault(fn, next(iter(hs)))
    report["inlined_away"] = sorted(away)
    program.inlined_away = away
    return report
