"""A6(i): may-depend provenance — flow-insensitive backward data-dependence closure within one body.

Nodes are locals; for closures/coroutines the captured variables (`_1.N`) are separate nodes ("up", N) so that
parameters of an async fn (which become upvars of its coroutine) can be told apart.
"""
import collections


def _node(body, place):
    l = place["local"]
    if l == 1 and (body.kind == "Closure" or body.is_coroutine):
        for e in place["proj"]:
            if e["p"] == "deref":
                continue
            if e["p"] == "field":
                return ("up", e["i"])
            break
        return ("l", 1)
    return ("l", l)


def _operand_nodes(body, op):
    if op["o"] in ("copy", "move"):
        out = [_node(body, op["place"])]
        for e in op["place"]["proj"]:
            if e["p"] == "index":
                out.append(("l", e["local"]))
        return out
    return []


def _rvalue_nodes(body, rv):
    r = rv["r"]
    if r in ("use", "cast", "unop", "repeat"):
        return _operand_nodes(body, rv.get("op") or rv.get("a"))
    if r in ("ref", "copyforderef", "rawptr", "discr"):
        return [_node(body, rv["place"])] + [("l", e["local"]) for e in rv["place"]["proj"] if e["p"] == "index"]
    if r == "binop":
        return _operand_nodes(body, rv["a"]) + _operand_nodes(body, rv["b"])
    if r == "aggregate":
        out = []
        for o in rv["ops"]:
            out += _operand_nodes(body, o)
        return out
    return []


class MayDepend:
    def __init__(self, body):
        self.body = body
        dep = collections.defaultdict(set)
        alias = collections.defaultdict(set)
        for bi in body.reachable():
            blk = body.blocks[bi]
            for st in blk["stmts"]:
                if st["s"] != "assign":
                    continue
                dst = _node(body, st["place"])
                srcs = _rvalue_nodes(body, st["rv"])
                dep[dst].update(srcs)
                # a write through a projection that contains a deref also reaches what the pointer aliases
                if st["rv"]["r"] in ("ref", "rawptr") and "Mut" in st["rv"].get("kind", "Mut"):
                    alias[dst].add(_node(body, st["rv"]["place"]))
            t = blk["term"]
            if t["t"] == "call":
                dst = _node(body, t["dest"])
                args = []
                for a in t["args"]:
                    args += _operand_nodes(body, a)
                fn = _operand_nodes(body, t["func"])
                dep[dst].update(args + fn)
                # out-parameters: a `&mut` argument may be written from the other arguments
                for a in t["args"]:
                    if a["o"] in ("copy", "move"):
                        ty = body.lty(a["place"]["local"]) if not a["place"]["proj"] else None
                        if ty is not None and ty.get("k") == "ref" and ty.get("mut") in (True, "true"):
                            n = _node(body, a["place"])
                            dep[n].update(x for x in args if x != n)
        self.dep = dep
        self.alias = alias
        # propagate: writes into a &mut alias flow to the aliased local
        changed = True
        while changed:
            changed = False
            for ptr, targets in alias.items():
                for tg in targets:
                    before = len(dep[tg])
                    dep[tg].update(dep[ptr] - {tg})
                    if len(dep[tg]) != before:
                        changed = True

    def closure(self, nodes):
        seen = set(nodes)
        st = list(nodes)
        while st:
            n = st.pop()
            for m in self.dep.get(n, ()):
                if m not in seen:
                    seen.add(m)
                    st.append(m)
            for m in self.alias.get(n, ()):
                if m not in seen:
                    seen.add(m)
                    st.append(m)
        return seen

    def names(self, nodes):
        b = self.body
        from .origin import baseline_params, current_params
        alias = {}
        base = baseline_params().get(b.name)
        if base:
            for cur, ref in zip(current_params(b), base):
                if cur and ref and cur != ref:
                    alias[cur] = ref
        return {alias.get(n, n) for n in self._names(nodes)}

    def _names(self, nodes):
        b = self.body
        out = set()
        for n in nodes:
            if n[0] == "up":
                out.add(b.upvars.get(n[1], "upvar#%d" % n[1]))
            elif n[0] == "l" and 1 <= n[1] <= b.arg_count and not (b.kind == "Closure" or b.is_coroutine):
                out.add(b.local_name(n[1]))
        return out

    def operand_sources(self, op):
        """names of parameters / captured variables the operand may depend on"""
        return self.names(self.closure(_operand_nodes(self.body, op)))

    def place_sources(self, place):
        return self.names(self.closure([_node(self.body, place)]))
