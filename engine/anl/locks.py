"""A5 + A7: role pruning, held-guard dataflow, lock summaries, lock-order edges.

Lock class = the protected type T of Mutex<T>/RwLock<T> (every lock field of this crate protects a distinct
type, checked by `lock_fields`: a class that maps to two fields is reported as ambiguous and named by both).
"""
import collections
import re

from .conds import Conds, place_ty
from .origin import Origins, fmt

GUARD_ADTS = {
    "tokio::sync::MutexGuard": "X",
    "tokio::sync::OwnedMutexGuard": "X",
    "tokio::sync::RwLockReadGuard": "R",
    "tokio::sync::RwLockWriteGuard": "X",
    "tokio::sync::OwnedRwLockReadGuard": "R",
    "tokio::sync::OwnedRwLockWriteGuard": "X",
    "std::sync::MutexGuard": "X",
    "std::sync::RwLockReadGuard": "R",
    "std::sync::RwLockWriteGuard": "X",
}
ACQUIRE = {
    "tokio::sync::Mutex::<T>::lock": ("X", "tokio"),
    "tokio::sync::Mutex::<T>::lock_owned": ("X", "tokio"),
    "tokio::sync::RwLock::<T>::read": ("R", "tokio"),
    "tokio::sync::RwLock::<T>::write": ("X", "tokio"),
    "tokio::sync::RwLock::<T>::read_owned": ("R", "tokio"),
    "tokio::sync::RwLock::<T>::write_owned": ("X", "tokio"),
    "std::sync::Mutex::<T>::lock": ("X", "std"),
    "std::sync::RwLock::<T>::read": ("R", "std"),
    "std::sync::RwLock::<T>::write": ("X", "std"),
}
LOCK_ADTS = ("tokio::sync::Mutex", "tokio::sync::RwLock", "std::sync::Mutex", "std::sync::RwLock")


_LT = re.compile(r"\s*\+\s*'[A-Za-z_{}]+|'[A-Za-z_{}]+\s+|'[A-Za-z_{}]+,\s*")


def norm_class(s):
    """type string with lifetimes removed (a field prints `+ 'static`, a local prints erased regions)"""
    return _LT.sub("", s).replace("(", "").replace(")", "")


def guard_info(ty):
    """(mode, class) if the type is a lock guard"""
    if ty.get("k") == "adt" and ty.get("adt") in GUARD_ADTS:
        cls = norm_class(ty["args"][0]["s"]) if ty.get("args") else "?"
        return GUARD_ADTS[ty["adt"]], cls
    return None


def lock_class_of_arg(body, operand):
    """protected type of the lock a `&Mutex<T>` / `&RwLock<T>` operand refers to"""
    if operand["o"] not in ("copy", "move"):
        if operand["o"] == "const":
            ty = operand["c"]["ty"]
        else:
            return "?"
    else:
        ty = place_ty(body, operand["place"])
    for _ in range(4):
        if ty.get("k") in ("ref", "ptr"):
            ty = ty["inner"]
            continue
        if ty.get("k") == "adt" and ty.get("adt") in LOCK_ADTS:
            return norm_class(ty["args"][0]["s"]) if ty.get("args") else "?"
        if ty.get("k") == "adt" and ty.get("args"):
            ty = ty["args"][0]
            continue
        break
    return "?"


def lock_fields(program):
    """class -> [Struct.field] for every struct field / static that holds (an Arc of) a lock"""
    out = collections.defaultdict(list)

    def scan(ty, label, depth=0):
        if depth > 5 or not isinstance(ty, dict):
            return
        if ty.get("k") == "adt" and ty.get("adt") in LOCK_ADTS and ty.get("args"):
            out[norm_class(ty["args"][0]["s"])].append(label)
            return
        for a in ty.get("args", ()) or ():
            scan(a, label, depth + 1)
        if "inner" in ty:
            scan(ty["inner"], label, depth + 1)

    for name, adt in program.adts.items():
        for v in adt["variants"]:
            for f in v["fields"]:
                scan(f["ty"], "%s.%s" % (name.split("::")[-1], f["name"]))
    for name, st in program.statics.items():
        scan(st["ty"], "static " + name.split("::")[-1])
    return out


# ---------------- role pruning (A5) ----------------
ROLES = {
    "client": {"self.is_client": True, "self.send_padding": True},
    "server": {"self.is_client": False, "self.send_padding": False},
}


def role_pruned_edges(body, program, role, conds=None):
    """edges of `body` that are infeasible when the Session role fields have the role's constant values"""
    if role is None or not body.name.startswith("session::session::Session::"):
        return set()
    vals = ROLES[role]
    conds = conds or Conds(body, program)
    pruned = set()
    for c in conds.all():
        if c.kind != "bool":
            continue
        t = c.term
        if isinstance(t, tuple) and t[0] == "var" and t[1] in vals:
            want = vals[t[1]]
            for s, vs in c.by_succ.items():
                if want not in vs:
                    pruned.add((c.block, s))
    return pruned


# ---------------- held-guard dataflow (A7) ----------------
class Held:
    """forward may-analysis of live lock guards of one body"""

    def __init__(self, body, pruned=(), must=False):
        self.body = body
        self.must = must
        self.pruned = set(pruned)
        self.guards = {}  # local -> (mode, class)
        for l in body.locals:
            gi = guard_info(l["ty"])
            if gi:
                self.guards[l["i"]] = gi
        self.IN = {}
        self.at_term = {}
        self.reached = set()
        if self.guards:
            self._run()
        else:
            self._reach_only()

    def _reach_only(self):
        seen = {0}
        st = [0]
        while st:
            b = st.pop()
            for s in self.body.succ(b):
                if (b, s) in self.pruned or s in seen:
                    continue
                seen.add(s)
                st.append(s)
        self.reached = seen

    def _transfer(self, b, cur):
        body = self.body
        g = self.guards
        blk = body.blocks[b]
        for st in blk["stmts"]:
            if st["s"] == "assign":
                rv = st["rv"]
                if rv["r"] == "use" and rv["op"]["o"] == "move" and not rv["op"]["place"]["proj"]:
                    cur.discard(rv["op"]["place"]["local"])
                if not st["place"]["proj"] and st["place"]["local"] in g:
                    cur.add(st["place"]["local"])
            elif st["s"] == "dead":
                cur.discard(st["local"])
        if self.must:
            self.at_term[b] = frozenset(cur)
        else:
            self.at_term[b] = frozenset(cur) | self.at_term.get(b, frozenset())
        t = blk["term"]
        out = set(cur)
        if t["t"] == "drop" and not t["place"]["proj"]:
            out.discard(t["place"]["local"])
        elif t["t"] == "call":
            for a in t["args"]:
                if a["o"] == "move" and not a["place"]["proj"]:
                    out.discard(a["place"]["local"])
            if not t["dest"]["proj"] and t["dest"]["local"] in g:
                out.add(t["dest"]["local"])
        return out

    def _run(self):
        body = self.body
        IN = {0: set()}
        work = [0]
        while work:
            b = work.pop()
            out = self._transfer(b, set(IN[b]))
            for s in body.succ(b):
                if (b, s) in self.pruned:
                    continue
                if s not in IN:
                    IN[s] = set(out)
                    work.append(s)
                elif self.must:
                    if not IN[s] <= out:
                        IN[s] &= out
                        work.append(s)
                elif not out <= IN[s]:
                    IN[s] |= out
                    work.append(s)
        self.IN = IN
        self.reached = set(IN)

    def held_at_call(self, b):
        """guards (local, mode, class) live when block b's terminator executes"""
        return [(l,) + self.guards[l] for l in sorted(self.at_term.get(b, ()))]


class LockAnalysis:
    """interprocedural: per-role summaries Acq(f) and the list of acquisitions made while a guard is held"""

    def __init__(self, program, callgraph, role=None):
        self.p = program
        self.cg = callgraph
        self.role = role
        self._held = {}
        self._pruned = {}
        self.direct = {}   # key -> list of (bb, mode, class, flavour, site, origin)
        self.summary = {}  # key -> {(class, mode): witness chain}
        self._compute()

    def pruned(self, key):
        if key not in self._pruned:
            self._pruned[key] = role_pruned_edges(self.p.bodies[key], self.p, self.role)
        return self._pruned[key]

    def held(self, key):
        if key not in self._held:
            self._held[key] = Held(self.p.bodies[key], self.pruned(key))
        return self._held[key]

    def _compute(self):
        p = self.p
        for key, body in p.bodies.items():
            h = self.held(key)
            acts = []
            o = None
            for c in body.calls(True):
                if c.bb not in h.reached:
                    continue
                if c.generic in ACQUIRE and c.args:
                    mode, flavour = ACQUIRE[c.generic]
                    cls = lock_class_of_arg(body, c.args[0])
                    if o is None:
                        o = self.cg.origins(body)
                    acts.append((c.bb, mode, cls, flavour, c.site, fmt(o.of_operand(c.args[0]))))
            self.direct[key] = acts
        # fixpoint of summaries over call/async/closure/await edges restricted to role-reachable sites
        summ = {k: {} for k in p.bodies}
        for k, acts in self.direct.items():
            for (bb, mode, cls, flavour, site, org) in acts:
                summ[k].setdefault((cls, mode), ["%s acquires %s(%s) at %s" % (k, "write/lock" if mode == "X" else "read", org, site)])
        changed = True
        while changed:
            changed = False
            for k in p.bodies:
                h = self.held(k)
                for e in self.cg.callees(k):
                    if e.bb not in h.reached:
                        continue
                    for lk, chain in summ[e.dst].items():
                        if lk not in summ[k]:
                            summ[k][lk] = ["%s -> %s at %s" % (k, e.dst, e.site)] + chain
                            changed = True
        self.summary = summ

    def conflicts(self, include_read_read=True):
        """acquisitions (direct or through a callee) of a lock class while a guard of the same class is live"""
        out = []
        p = self.p
        away = getattr(p, "inlined_away", set())
        for key, body in p.bodies.items():
            if key in away:
                continue      # a helper spliced into its only caller is judged there, in the caller's role context
            h = self.held(key)
            if not h.guards:
                continue
            # direct acquires
            for (bb, mode, cls, flavour, site, org) in self.direct[key]:
                for (l, hm, hc) in h.held_at_call(bb):
                    if hc == cls and (include_read_read or "X" in (hm, mode)):
                        out.append({"body": key, "bb": bb, "site": site, "held_local": body.local_name(l), "held_mode": hm,
                                    "class": cls, "acq_mode": mode, "via": ["direct %s" % org], "callee": None})
            for e in self.cg.callees(key):
                if e.bb not in h.reached:
                    continue
                held = h.held_at_call(e.bb) if e.kind != "closure" and e.kind != "async" else h.held_at_call(e.bb)
                if not held:
                    continue
                for (cls, mode), chain in self.summary[e.dst].items():
                    for (l, hm, hc) in held:
                        if hc == cls and (include_read_read or "X" in (hm, mode)):
                            out.append({"body": key, "bb": e.bb, "site": e.site, "held_local": body.local_name(l),
                                        "held_mode": hm, "class": cls, "acq_mode": mode, "via": chain, "callee": e.dst})
        return out

    def order_edges(self):
        """held class -> acquired class edges (different classes) with a witness, for cycle detection"""
        edges = {}
        p = self.p
        away = getattr(p, "inlined_away", set())
        for key, body in p.bodies.items():
            if key in away:
                continue
            h = self.held(key)
            if not h.guards:
                continue
            for (bb, mode, cls, flavour, site, org) in self.direct[key]:
                for (l, hm, hc) in h.held_at_call(bb):
                    if hc != cls:
                        edges.setdefault((hc, cls), "%s holds %s, acquires %s at %s" % (key, body.local_name(l), org, site))
            for e in self.cg.callees(key):
                if e.bb not in h.reached:
                    continue
                held = h.held_at_call(e.bb)
                for (cls, mode), chain in self.summary[e.dst].items():
                    for (l, hm, hc) in held:
                        if hc != cls:
                            edges.setdefault((hc, cls), "%s holds %s at %s; %s" % (key, body.local_name(l), e.site, " ; ".join(chain)))
        return edges


def find_cycles(edges):
    """simple cycles in the lock-order graph given as {(a,b): witness}"""
    g = collections.defaultdict(set)
    for (a, b) in edges:
        g[a].add(b)
    cycles = []
    seen_sets = set()

    def dfs(start, node, path):
        for nx in g.get(node, ()):
            if nx == start:
                key = frozenset(path)
                if key not in seen_sets:
                    seen_sets.add(key)
                    cycles.append(list(path))
            elif nx not in path and len(path) < 6:
                dfs(start, nx, path + [nx])

    for a in list(g):
        dfs(a, a, [a])
    return cycles
