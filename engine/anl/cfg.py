"""A4: dominators, post-dominators, path queries, cycles on a Body's non-unwind CFG."""
import collections


def _rpo(n, entry, succ):
    seen = set()
    order = []
    st = [(entry, iter(succ(entry)))]
    seen.add(entry)
    while st:
        b, it = st[-1]
        adv = False
        for s in it:
            if s not in seen:
                seen.add(s)
                st.append((s, iter(succ(s))))
                adv = True
                break
        if not adv:
            order.append(b)
            st.pop()
    order.reverse()
    return order


def _idoms(entry, succ, preds_of):
    order = _rpo(None, entry, succ)
    idx = {b: i for i, b in enumerate(order)}
    idom = {entry: entry}

    def inter(a, b):
        while a != b:
            while idx[a] > idx[b]:
                a = idom[a]
            while idx[b] > idx[a]:
                b = idom[b]
        return a

    changed = True
    while changed:
        changed = False
        for b in order[1:]:
            ps = [p for p in preds_of(b) if p in idom]
            if not ps:
                continue
            new = ps[0]
            for p in ps[1:]:
                new = inter(new, p)
            if idom.get(b) != new:
                idom[b] = new
                changed = True
    return idom


class CFG:
    def __init__(self, body):
        self.body = body
        self.n = len(body.blocks)
        self._idom = None
        self._ipdom = None
        self._exits = None

    def succ(self, b):
        return self.body.succ(b)

    def preds(self, b):
        return self.body.preds(b)

    # ---------- dominators ----------
    def idom(self):
        if self._idom is None:
            self._idom = _idoms(0, self.succ, self.preds)
        return self._idom

    def dominates(self, a, b):
        """block a dominates block b (reflexive)"""
        idom = self.idom()
        if b not in idom:
            return False
        while True:
            if a == b:
                return True
            nb = idom[b]
            if nb == b:
                return False
            b = nb

    def exits(self):
        if self._exits is None:
            self._exits = [b for b in self.body.reachable() if not self.succ(b)]
        return self._exits

    def ipdom(self):
        """post-dominator tree w.r.t. a virtual exit (-1) joining all blocks without successors"""
        if self._ipdom is None:
            ex = set(self.exits())

            def rsucc(b):
                if b == -1:
                    return list(ex)
                return self.preds(b)

            def rpreds(b):
                out = list(self.succ(b))
                if b in ex:
                    out.append(-1)
                return out

            self._ipdom = _idoms(-1, rsucc, rpreds)
        return self._ipdom

    def postdominates(self, a, b):
        ip = self.ipdom()
        if b not in ip:
            return False
        while True:
            if a == b:
                return True
            nb = ip[b]
            if nb == b:
                return False
            b = nb

    # ---------- path queries ----------
    def reach(self, starts, avoid_blocks=(), avoid_edges=(), stop_at=()):
        """blocks reachable from `starts` (inclusive) without entering avoid_blocks / crossing avoid_edges.
        Blocks in stop_at are reached but not expanded."""
        avoid_blocks = set(avoid_blocks)
        avoid_edges = set(avoid_edges)
        stop_at = set(stop_at)
        seen = set()
        st = []
        for s in starts:
            if s not in avoid_blocks and s not in seen:
                seen.add(s)
                st.append(s)
        while st:
            b = st.pop()
            if b in stop_at:
                continue
            for s in self.succ(b):
                if s in seen or s in avoid_blocks or (b, s) in avoid_edges:
                    continue
                seen.add(s)
                st.append(s)
        return seen

    def reach_after(self, b, **kw):
        """blocks reachable strictly after block b's terminator"""
        ae = set(kw.pop("avoid_edges", ()))
        starts = [s for s in self.succ(b) if (b, s) not in ae]
        return self.reach(starts, avoid_edges=ae, **kw)

    def path(self, starts, goals, avoid_blocks=(), avoid_edges=()):
        """a shortest block path from any start to any goal honouring the avoid sets, or None"""
        avoid_blocks = set(avoid_blocks)
        avoid_edges = set(avoid_edges)
        goals = set(goals)
        prev = {}
        dq = collections.deque()
        for s in starts:
            if s not in avoid_blocks and s not in prev:
                prev[s] = None
                dq.append(s)
        while dq:
            b = dq.popleft()
            if b in goals:
                out = []
                while b is not None:
                    out.append(b)
                    b = prev[b]
                return out[::-1]
            for s in self.succ(b):
                if s in prev or s in avoid_blocks or (b, s) in avoid_edges:
                    continue
                prev[s] = b
                dq.append(s)
        return None

    def edge_dominates(self, edge, block):
        """every entry->block path crosses `edge` (edge = (from,to))"""
        if block not in self.body.reachable():
            return False
        return block not in self.reach([0], avoid_edges=[edge]) or (block == 0 and False)

    def edges_dominate(self, edges, block):
        """every entry->block path crosses at least one of `edges`"""
        if block not in self.body.reachable():
            return False
        return block not in self.reach([0], avoid_edges=edges)

    def must_pass(self, frm_blocks, to_blocks, via_blocks=(), via_edges=()):
        """True iff every path from frm to any of to_blocks passes a via block or via edge.
        Returns (ok, witness_path)"""
        p = self.path(frm_blocks, to_blocks, avoid_blocks=via_blocks, avoid_edges=via_edges)
        return (p is None), p

    def in_cycle(self, b):
        return b in self.reach_after(b)

    def cycle_blocks(self, b):
        """blocks on some cycle through b"""
        fwd = self.reach_after(b)
        if b not in fwd:
            return set()
        # blocks that can reach b
        back = set([b])
        st = [b]
        while st:
            x = st.pop()
            for p in self.preds(x):
                if p not in back:
                    back.add(p)
                    st.append(p)
        return fwd & back

    def sccs(self):
        """Tarjan SCCs (only non-trivial ones, i.e. real cycles)"""
        index = {}
        low = {}
        onst = set()
        st = []
        out = []
        counter = [0]
        for root in sorted(self.body.reachable()):
            if root in index:
                continue
            work = [(root, iter(self.succ(root)))]
            index[root] = low[root] = counter[0]
            counter[0] += 1
            st.append(root)
            onst.add(root)
            while work:
                v, it = work[-1]
                adv = False
                for w in it:
                    if w not in index:
                        index[w] = low[w] = counter[0]
                        counter[0] += 1
                        st.append(w)
                        onst.add(w)
                        work.append((w, iter(self.succ(w))))
                        adv = True
                        break
                    elif w in onst:
                        low[v] = min(low[v], index[w])
                if adv:
                    continue
                work.pop()
                if work:
                    u = work[-1][0]
                    low[u] = min(low[u], low[v])
                if low[v] == index[v]:
                    comp = []
                    while True:
                        w = st.pop()
                        onst.discard(w)
                        comp.append(w)
                        if w == v:
                            break
                    if len(comp) > 1 or v in self.succ(v):
                        out.append(set(comp))
        return out
