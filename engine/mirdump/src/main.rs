#![feature(rustc_private)]
// mirdump: faithful exporter of the type-checked program (rustc `mir_built` bodies with
// resolved callees, ADTs, evaluated consts, statics) of the local crates to JSON facts.
// It judges nothing; every rule lives in /verif/engine/anl and /verif/rules (Python).
extern crate rustc_abi;
extern crate rustc_data_structures;
extern crate rustc_session;
extern crate rustc_driver;
extern crate rustc_hir;
extern crate rustc_interface;
extern crate rustc_middle;
extern crate rustc_span;

use rustc_driver::{Callbacks, Compilation};
use rustc_hir::def::DefKind;
use rustc_hir::def_id::{DefId, LocalDefId, LOCAL_CRATE};
use rustc_interface::interface::Compiler;
use rustc_middle::mir::{
    AggregateKind, BasicBlock, Body, Const, Operand, Place, ProjectionElem, Rvalue, StatementKind,
    TerminatorKind, UnwindAction,
};
use rustc_middle::ty::{self, print::with_no_trimmed_paths, Ty, TyCtxt, TyKind};
use rustc_span::{ExpnKind, Span};
use std::fmt::Write as _;

// ---------- tiny JSON writer ----------
fn esc(s: &str) -> String {
    let mut o = String::with_capacity(s.len() + 2);
    o.push('"');
    for c in s.chars() {
        match c {
            '"' => o.push_str("\\\""),
            '\\' => o.push_str("\\\\"),
            '\n' => o.push_str("\\n"),
            '\r' => o.push_str("\\r"),
            '\t' => o.push_str("\\t"),
            c if (c as u32) < 0x20 => {
                let _ = write!(o, "\\u{:04x}", c as u32);
            }
            c => o.push(c),
        }
    }
    o.push('"');
    o
}
fn arr(items: Vec<String>) -> String {
    format!("[{}]", items.join(","))
}
fn obj(items: Vec<(&str, String)>) -> String {
    let v: Vec<String> = items.into_iter().map(|(k, v)| format!("{}:{}", esc(k), v)).collect();
    format!("{{{}}}", v.join(","))
}
fn opt(s: Option<String>) -> String {
    s.unwrap_or_else(|| "null".to_string())
}

struct Cx<'tcx> {
    tcx: TyCtxt<'tcx>,
}

impl<'tcx> Cx<'tcx> {
    fn path(&self, d: DefId) -> String {
        with_no_trimmed_paths!(self.tcx.def_path_str(d))
    }
    fn span(&self, sp: Span) -> String {
        let sm = self.tcx.sess.source_map();
        let call = sp.source_callsite();
        let lo = sm.lookup_char_pos(call.lo());
        let file = format!("{}", lo.file.name.prefer_local_unconditionally());
        let mut macros = vec![];
        for e in sp.macro_backtrace() {
            if let ExpnKind::Macro(_, name) = e.kind {
                macros.push(esc(name.as_str()));
            }
        }
        let desugar = sp.desugaring_kind().map(|k| esc(&format!("{:?}", k)));
        obj(vec![
            ("file", esc(&file)),
            ("line", lo.line.to_string()),
            ("col", (lo.col.0 + 1).to_string()),
            ("macros", arr(macros)),
            ("desugar", opt(desugar)),
        ])
    }
    fn ty(&self, t: Ty<'tcx>, depth: u32) -> String {
        let s = with_no_trimmed_paths!(t.to_string());
        if depth == 0 {
            return obj(vec![("k", esc("..")), ("s", esc(&s))]);
        }
        let d = depth - 1;
        match t.kind() {
            TyKind::Adt(def, args) => {
                let a: Vec<String> = args.types().map(|x| self.ty(x, d)).collect();
                obj(vec![("k", esc("adt")), ("adt", esc(&self.path(def.did()))), ("args", arr(a)), ("s", esc(&s))])
            }
            TyKind::Ref(_, inner, m) => obj(vec![
                ("k", esc("ref")),
                ("mut", (m.is_mut()).to_string()),
                ("inner", self.ty(*inner, d)),
                ("s", esc(&s)),
            ]),
            TyKind::RawPtr(inner, m) => obj(vec![
                ("k", esc("ptr")),
                ("mut", (m.is_mut()).to_string()),
                ("inner", self.ty(*inner, d)),
                ("s", esc(&s)),
            ]),
            TyKind::Tuple(ts) => {
                let a: Vec<String> = ts.iter().map(|x| self.ty(x, d)).collect();
                obj(vec![("k", esc("tuple")), ("args", arr(a)), ("s", esc(&s))])
            }
            TyKind::Array(inner, len) => {
                let n = len.try_to_target_usize(self.tcx).map(|v| v.to_string());
                obj(vec![("k", esc("array")), ("inner", self.ty(*inner, d)), ("len", opt(n)), ("s", esc(&s))])
            }
            TyKind::Slice(inner) => obj(vec![("k", esc("slice")), ("inner", self.ty(*inner, d)), ("s", esc(&s))]),
            TyKind::Closure(def, _) => obj(vec![("k", esc("closure")), ("def", esc(&self.path(*def))), ("s", esc(&s))]),
            TyKind::Coroutine(def, _) => obj(vec![("k", esc("coroutine")), ("def", esc(&self.path(*def))), ("s", esc(&s))]),
            TyKind::FnDef(def, _) => obj(vec![("k", esc("fndef")), ("def", esc(&self.path(*def))), ("s", esc(&s))]),
            TyKind::Bool | TyKind::Char | TyKind::Int(_) | TyKind::Uint(_) | TyKind::Float(_) | TyKind::Str | TyKind::Never => {
                obj(vec![("k", esc("prim")), ("s", esc(&s))])
            }
            TyKind::Param(_) => obj(vec![("k", esc("param")), ("s", esc(&s))]),
            TyKind::Dynamic(..) => obj(vec![("k", esc("dyn")), ("s", esc(&s))]),
            _ => obj(vec![("k", esc("other")), ("s", esc(&s))]),
        }
    }
    fn place(&self, body: &Body<'tcx>, p: &Place<'tcx>) -> String {
        let mut projs = vec![];
        let mut cur = rustc_middle::mir::PlaceTy::from_ty(body.local_decls[p.local].ty);
        for elem in p.projection.iter() {
            let j = match elem {
                ProjectionElem::Deref => obj(vec![("p", esc("deref"))]),
                ProjectionElem::Field(f, fty) => {
                    let mut name: Option<String> = None;
                    match cur.ty.kind() {
                        TyKind::Adt(def, _) => {
                            let vidx = cur.variant_index.unwrap_or(rustc_abi::FIRST_VARIANT);
                            if (vidx.as_usize()) < def.variants().len() {
                                let v = def.variant(vidx);
                                if f.as_usize() < v.fields.len() {
                                    name = Some(v.fields[f].name.to_string());
                                }
                            }
                        }
                        _ => {}
                    }
                    obj(vec![
                        ("p", esc("field")),
                        ("i", f.as_usize().to_string()),
                        ("name", opt(name.map(|n| esc(&n)))),
                        ("ty", self.ty(fty, 2)),
                    ])
                }
                ProjectionElem::Index(l) => obj(vec![("p", esc("index")), ("local", l.as_usize().to_string())]),
                ProjectionElem::ConstantIndex { offset, from_end, .. } => obj(vec![
                    ("p", esc("cindex")),
                    ("offset", offset.to_string()),
                    ("from_end", from_end.to_string()),
                ]),
                ProjectionElem::Subslice { from, to, from_end } => obj(vec![
                    ("p", esc("subslice")),
                    ("from", from.to_string()),
                    ("to", to.to_string()),
                    ("from_end", from_end.to_string()),
                ]),
                ProjectionElem::Downcast(sym, v) => obj(vec![
                    ("p", esc("downcast")),
                    ("variant", opt(sym.map(|s| esc(s.as_str())))),
                    ("vi", v.as_usize().to_string()),
                ]),
                ProjectionElem::OpaqueCast(_) => obj(vec![("p", esc("opaque"))]),
                ProjectionElem::UnwrapUnsafeBinder(_) => obj(vec![("p", esc("unwrapbinder"))]),
            };
            projs.push(j);
            cur = cur.projection_ty(self.tcx, elem);
        }
        obj(vec![("local", p.local.as_usize().to_string()), ("proj", arr(projs))])
    }
    fn constant(&self, owner: DefId, c: &Const<'tcx>) -> String {
        let t = c.ty();
        let disp = with_no_trimmed_paths!(format!("{}", c));
        let mut items: Vec<(&str, String)> = vec![("ty", self.ty(t, 2)), ("disp", esc(&disp))];
        if let TyKind::FnDef(def, args) = t.kind() {
            items.push(("fn", esc(&self.path(*def))));
            let env = ty::TypingEnv::post_analysis(self.tcx, owner);
            if let Ok(Some(inst)) = ty::Instance::try_resolve(self.tcx, env, *def, args) {
                items.push(("resolved", esc(&self.path(inst.def_id()))));
            }
            let ga: Vec<String> = args.types().map(|x| self.ty(x, 2)).collect();
            items.push(("targs", arr(ga)));
        } else if let Some(st) = self.static_of(c) {
            items.push(("static", esc(&st)));
        } else if t.is_integral() || t.is_bool() || t.is_char() {
            let env = ty::TypingEnv::post_analysis(self.tcx, owner);
            if let Some(si) = c.try_eval_scalar_int(self.tcx, env) {
                let size = si.size();
                let bits = si.to_bits(size);
                let v: i128 = if t.is_signed() { size.sign_extend(bits) as i128 } else { bits as i128 };
                items.push(("int", v.to_string()));
            }
            if let Const::Unevaluated(u, _) = c {
                items.push(("uneval", esc(&self.path(u.def))));
            }
        } else if let Const::Unevaluated(u, _) = c {
            items.push(("uneval", esc(&self.path(u.def))));
        }
        obj(items)
    }
    fn static_of(&self, c: &Const<'tcx>) -> Option<String> {
        use rustc_middle::mir::interpret::{GlobalAlloc, Scalar};
        use rustc_middle::mir::ConstValue;
        if let Const::Val(ConstValue::Scalar(Scalar::Ptr(p, _)), _) = c {
            if let Some(GlobalAlloc::Static(did)) = self.tcx.try_get_global_alloc(p.provenance.alloc_id()) {
                return Some(self.path(did));
            }
        }
        None
    }
    fn operand(&self, owner: DefId, body: &Body<'tcx>, o: &Operand<'tcx>) -> String {
        match o {
            Operand::Copy(p) => obj(vec![("o", esc("copy")), ("place", self.place(body, p))]),
            Operand::Move(p) => obj(vec![("o", esc("move")), ("place", self.place(body, p))]),
            Operand::Constant(c) => obj(vec![("o", esc("const")), ("c", self.constant(owner, &c.const_))]),
            _ => obj(vec![("o", esc("other"))]),
        }
    }
    fn rvalue(&self, owner: DefId, body: &Body<'tcx>, r: &Rvalue<'tcx>) -> String {
        match r {
            Rvalue::Use(o, ..) => obj(vec![("r", esc("use")), ("op", self.operand(owner, body, o))]),
            Rvalue::Repeat(o, n) => obj(vec![
                ("r", esc("repeat")),
                ("op", self.operand(owner, body, o)),
                ("n", opt(n.try_to_target_usize(self.tcx).map(|v| v.to_string()))),
            ]),
            Rvalue::Ref(_, bk, p) => obj(vec![
                ("r", esc("ref")),
                ("kind", esc(&format!("{:?}", bk))),
                ("place", self.place(body, p)),
            ]),
            Rvalue::RawPtr(_, p) => obj(vec![("r", esc("rawptr")), ("place", self.place(body, p))]),
            Rvalue::Cast(kind, o, t) => {
                let from = o.ty(&body.local_decls, self.tcx);
                obj(vec![
                    ("r", esc("cast")),
                    ("kind", esc(&format!("{:?}", kind))),
                    ("op", self.operand(owner, body, o)),
                    ("from", self.ty(from, 2)),
                    ("to", self.ty(*t, 2)),
                ])
            }
            Rvalue::BinaryOp(op, b) => obj(vec![
                ("r", esc("binop")),
                ("op", esc(&format!("{:?}", op))),
                ("a", self.operand(owner, body, &b.0)),
                ("b", self.operand(owner, body, &b.1)),
            ]),
            Rvalue::UnaryOp(op, o) => obj(vec![
                ("r", esc("unop")),
                ("op", esc(&format!("{:?}", op))),
                ("a", self.operand(owner, body, o)),
            ]),
            Rvalue::Discriminant(p) => obj(vec![("r", esc("discr")), ("place", self.place(body, p))]),
            Rvalue::Aggregate(kind, ops) => {
                let k = match &**kind {
                    AggregateKind::Array(_) => obj(vec![("a", esc("array"))]),
                    AggregateKind::Tuple => obj(vec![("a", esc("tuple"))]),
                    AggregateKind::Adt(def, vi, _, _, _) => {
                        let adt = self.tcx.adt_def(*def);
                        let v = adt.variant(*vi);
                        let fields: Vec<String> = v.fields.iter().map(|f| esc(f.name.as_str())).collect();
                        obj(vec![
                            ("a", esc("adt")),
                            ("adt", esc(&self.path(*def))),
                            ("variant", esc(v.name.as_str())),
                            ("fields", arr(fields)),
                        ])
                    }
                    AggregateKind::Closure(def, _) => obj(vec![("a", esc("closure")), ("def", esc(&self.path(*def)))]),
                    AggregateKind::Coroutine(def, _) => obj(vec![("a", esc("coroutine")), ("def", esc(&self.path(*def)))]),
                    AggregateKind::CoroutineClosure(def, _) => {
                        obj(vec![("a", esc("coroutine_closure")), ("def", esc(&self.path(*def)))])
                    }
                    AggregateKind::RawPtr(..) => obj(vec![("a", esc("rawptr"))]),
                };
                let o: Vec<String> = ops.iter().map(|x| self.operand(owner, body, x)).collect();
                obj(vec![("r", esc("aggregate")), ("kind", k), ("ops", arr(o))])
            }
            Rvalue::CopyForDeref(p) => obj(vec![("r", esc("copyforderef")), ("place", self.place(body, p))]),
            Rvalue::ThreadLocalRef(d) => obj(vec![("r", esc("tls")), ("def", esc(&self.path(*d)))]),
            other => obj(vec![("r", esc("other")), ("s", esc(&format!("{:?}", other)))]),
        }
    }
    fn bb(&self, b: BasicBlock) -> String {
        b.as_usize().to_string()
    }
    fn unwind(&self, u: &UnwindAction) -> String {
        match u {
            UnwindAction::Cleanup(b) => self.bb(*b),
            _ => "null".to_string(),
        }
    }
    fn body(&self, did: LocalDefId, body: &Body<'tcx>) -> String {
        let owner = did.to_def_id();
        let tcx = self.tcx;
        let mut locals = vec![];
        for (l, decl) in body.local_decls.iter_enumerated() {
            locals.push(obj(vec![
                ("i", l.as_usize().to_string()),
                ("ty", self.ty(decl.ty, 4)),
                ("user", decl.is_user_variable().to_string()),
            ]));
        }
        let mut dbg = vec![];
        for v in &body.var_debug_info {
            let val = match &v.value {
                rustc_middle::mir::VarDebugInfoContents::Place(p) => self.place(body, p),
                rustc_middle::mir::VarDebugInfoContents::Const(_) => "null".to_string(),
            };
            dbg.push(obj(vec![("name", esc(v.name.as_str())), ("place", val)]));
        }
        let mut blocks = vec![];
        for (_bb, data) in body.basic_blocks.iter_enumerated() {
            let mut stmts = vec![];
            for st in &data.statements {
                let j = match &st.kind {
                    StatementKind::Assign(b) => obj(vec![
                        ("s", esc("assign")),
                        ("place", self.place(body, &b.0)),
                        ("rv", self.rvalue(owner, body, &b.1)),
                        ("span", self.span(st.source_info.span)),
                    ]),
                    StatementKind::SetDiscriminant { place, variant_index } => obj(vec![
                        ("s", esc("setdiscr")),
                        ("place", self.place(body, place)),
                        ("vi", variant_index.as_usize().to_string()),
                        ("span", self.span(st.source_info.span)),
                    ]),
                    StatementKind::StorageDead(l) => obj(vec![("s", esc("dead")), ("local", l.as_usize().to_string())]),
                    StatementKind::StorageLive(l) => obj(vec![("s", esc("live")), ("local", l.as_usize().to_string())]),
                    _ => continue,
                };
                stmts.push(j);
            }
            let term = data.terminator();
            let tspan = self.span(term.source_info.span);
            let t = match &term.kind {
                TerminatorKind::Goto { target } => obj(vec![("t", esc("goto")), ("target", self.bb(*target))]),
                TerminatorKind::SwitchInt { discr, targets } => {
                    let mut ts = vec![];
                    for (v, b) in targets.iter() {
                        ts.push(format!("[{},{}]", v, self.bb(b)));
                    }
                    obj(vec![
                        ("t", esc("switch")),
                        ("discr", self.operand(owner, body, discr)),
                        ("targets", arr(ts)),
                        ("otherwise", self.bb(targets.otherwise())),
                    ])
                }
                TerminatorKind::Return => obj(vec![("t", esc("return"))]),
                TerminatorKind::Unreachable => obj(vec![("t", esc("unreachable"))]),
                TerminatorKind::UnwindResume => obj(vec![("t", esc("resume"))]),
                TerminatorKind::UnwindTerminate(_) => obj(vec![("t", esc("terminate"))]),
                TerminatorKind::CoroutineDrop => obj(vec![("t", esc("coroutine_drop"))]),
                TerminatorKind::Drop { place, target, unwind, drop, .. } => obj(vec![
                    ("t", esc("drop")),
                    ("place", self.place(body, place)),
                    ("target", self.bb(*target)),
                    ("unwind", self.unwind(unwind)),
                    ("cdrop", opt(drop.map(|b| self.bb(b)))),
                ]),
                TerminatorKind::Call { func, args, destination, target, unwind, fn_span, .. } => {
                    let a: Vec<String> = args.iter().map(|x| self.operand(owner, body, &x.node)).collect();
                    obj(vec![
                        ("t", esc("call")),
                        ("func", self.operand(owner, body, func)),
                        ("args", arr(a)),
                        ("dest", self.place(body, destination)),
                        ("target", opt(target.map(|b| self.bb(b)))),
                        ("unwind", self.unwind(unwind)),
                        ("fn_span", self.span(*fn_span)),
                    ])
                }
                TerminatorKind::Assert { cond, expected, msg, target, unwind } => obj(vec![
                    ("t", esc("assert")),
                    ("cond", self.operand(owner, body, cond)),
                    ("expected", expected.to_string()),
                    ("msg", esc(&format!("{:?}", msg).chars().take(80).collect::<String>())),
                    ("target", self.bb(*target)),
                    ("unwind", self.unwind(unwind)),
                ]),
                TerminatorKind::Yield { resume, drop, .. } => obj(vec![
                    ("t", esc("yield")),
                    ("resume", self.bb(*resume)),
                    ("cdrop", opt(drop.map(|b| self.bb(b)))),
                ]),
                TerminatorKind::FalseEdge { real_target, imaginary_target } => obj(vec![
                    ("t", esc("false_edge")),
                    ("target", self.bb(*real_target)),
                    ("imaginary", self.bb(*imaginary_target)),
                ]),
                TerminatorKind::FalseUnwind { real_target, unwind } => obj(vec![
                    ("t", esc("false_unwind")),
                    ("target", self.bb(*real_target)),
                    ("unwind", self.unwind(unwind)),
                ]),
                TerminatorKind::TailCall { .. } => obj(vec![("t", esc("tailcall"))]),
                TerminatorKind::InlineAsm { .. } => obj(vec![("t", esc("asm"))]),
            };
            blocks.push(obj(vec![
                ("stmts", arr(stmts)),
                ("term", t),
                ("tspan", tspan),
                ("cleanup", data.is_cleanup.to_string()),
            ]));
        }
        let kind = tcx.def_kind(did);
        let parent = tcx.opt_local_parent(did).map(|p| esc(&self.path(p.to_def_id())));
        obj(vec![
            ("def", esc(&self.path(owner))),
            ("kind", esc(&format!("{:?}", kind))),
            ("parent", opt(parent)),
            ("coroutine", body.coroutine.is_some().to_string()),
            ("is_async_fn", (matches!(kind, DefKind::Fn | DefKind::AssocFn) && tcx.asyncness(did).is_async()).to_string()),
            ("arg_count", body.arg_count.to_string()),
            ("span", self.span(body.span)),
            ("locals", arr(locals)),
            ("debug", arr(dbg)),
            ("blocks", arr(blocks)),
        ])
    }
}

// Every `mir_built` body is copied the moment it is created: type-checking one function can demand the coroutine witnesses of
// another (`tokio::spawn(helper(..))` needs `helper`'s future to be Send), which builds *and steals* that function's MIR before the
// export loop gets to it. Overriding the provider makes the copy independent of visiting order.
type MirBuiltFn = for<'tcx> fn(TyCtxt<'tcx>, LocalDefId) -> &'tcx rustc_data_structures::steal::Steal<Body<'tcx>>;
static ORIG_MIR_BUILT: std::sync::OnceLock<MirBuiltFn> = std::sync::OnceLock::new();
thread_local! {
    static BUILT: std::cell::RefCell<std::collections::HashMap<LocalDefId, Body<'static>>> = std::cell::RefCell::new(std::collections::HashMap::new());
}

fn capturing_mir_built<'tcx>(tcx: TyCtxt<'tcx>, did: LocalDefId) -> &'tcx rustc_data_structures::steal::Steal<Body<'tcx>> {
    let orig = ORIG_MIR_BUILT.get().expect("original mir_built provider");
    let steal = orig(tcx, did);
    let copy: Body<'tcx> = steal.borrow().clone();
    // lifetime erased for storage only; the copy is handed back under 'tcx while the same TyCtxt is alive (after_expansion)
    let copy: Body<'static> = unsafe { std::mem::transmute(copy) };
    BUILT.with(|b| {
        b.borrow_mut().insert(did, copy);
    });
    steal
}

struct Cb;
impl Callbacks for Cb {
    fn config(&mut self, config: &mut rustc_interface::interface::Config) {
        config.override_queries = Some(|_sess: &rustc_session::Session, providers: &mut rustc_middle::util::Providers| {
            let _ = ORIG_MIR_BUILT.set(providers.queries.mir_built);
            providers.queries.mir_built = capturing_mir_built;
        });
    }

    fn after_expansion<'tcx>(&mut self, _c: &Compiler, tcx: TyCtxt<'tcx>) -> Compilation {
        let krate = tcx.crate_name(LOCAL_CRATE).to_string();
        let wanted = std::env::var("MIRDUMP_CRATES").unwrap_or_else(|_| "anytls_rs,anytls_client,anytls_server".into());
        if !wanted.split(',').any(|w| w == krate) {
            return Compilation::Continue;
        }
        let out_dir = std::env::var("MIRDUMP_OUT").unwrap_or_else(|_| "/tmp/mirdump".into());
        let cx = Cx { tcx };
        let mut bodies = vec![];
        let mut skipped = vec![];
        // Phase 1: clone every mir_built body before any query that could steal one.
        let mut cloned: Vec<(LocalDefId, Body<'tcx>)> = vec![];
        for did in tcx.hir_body_owners() {
            let kind = tcx.def_kind(did);
            if !matches!(kind, DefKind::Fn | DefKind::AssocFn | DefKind::Closure) {
                continue;
            }
            let _ = tcx.mir_built(did); // forces creation (and with it the capture) if nobody asked for it yet
            let captured: Option<Body<'static>> = BUILT.with(|b| b.borrow_mut().remove(&did));
            match captured {
                Some(body) => {
                    let body: Body<'tcx> = unsafe { std::mem::transmute(body) };
                    cloned.push((did, body));
                }
                None => skipped.push(esc(&cx.path(did.to_def_id()))),
            }
        }
        // Phase 2: export (constant evaluation / instance resolution may now steal freely).
        for (did, body) in &cloned {
            bodies.push(cx.body(*did, body));
        }
        // ADTs: fields and discriminants
        let mut adts = vec![];
        let mut consts = vec![];
        let mut statics = vec![];
        for id in tcx.hir_crate_items(()).definitions() {
            let kind = tcx.def_kind(id);
            match kind {
                DefKind::Struct | DefKind::Enum => {
                    let adt = tcx.adt_def(id.to_def_id());
                    let mut vs = vec![];
                    for (vi, v) in adt.variants().iter_enumerated() {
                        let fields: Vec<String> = v
                            .fields
                            .iter()
                            .map(|f| {
                                obj(vec![
                                    ("name", esc(f.name.as_str())),
                                    ("ty", cx.ty(tcx.type_of(f.did).instantiate_identity().skip_norm_wip(), 4)),
                                    ("pub", tcx.visibility(f.did).is_public().to_string()),
                                ])
                            })
                            .collect();
                        let discr = if adt.is_enum() {
                            Some(adt.discriminant_for_variant(tcx, vi).val.to_string())
                        } else {
                            None
                        };
                        vs.push(obj(vec![("name", esc(v.name.as_str())), ("discr", opt(discr)), ("fields", arr(fields))]));
                    }
                    adts.push(obj(vec![("def", esc(&cx.path(id.to_def_id()))), ("variants", arr(vs))]));
                }
                DefKind::Const { .. } => {
                    let t = tcx.type_of(id.to_def_id()).instantiate_identity().skip_norm_wip();
                    let mut val: Option<String> = None;
                    if t.is_integral() || t.is_bool() {
                        if let Ok(cv) = tcx.const_eval_poly(id.to_def_id()) {
                            if let Some(si) = cv.try_to_scalar_int() {
                                let size = si.size();
                                let bits = si.to_bits(size);
                                let v: i128 = if t.is_signed() { size.sign_extend(bits) as i128 } else { bits as i128 };
                                val = Some(v.to_string());
                            }
                        }
                    }
                    let mut sval: Option<String> = None;
                    if let TyKind::Ref(_, inner, _) = t.kind() {
                        if inner.is_str() {
                            if let Ok(rustc_middle::mir::ConstValue::Slice { alloc_id, meta }) = tcx.const_eval_poly(id.to_def_id()) {
                                if let Some(rustc_middle::mir::interpret::GlobalAlloc::Memory(mem)) = tcx.try_get_global_alloc(alloc_id) {
                                    let bytes = mem.inner().inspect_with_uninit_and_ptr_outside_interpreter(0..(meta as usize));
                                    sval = Some(esc(&String::from_utf8_lossy(bytes)));
                                }
                            }
                        }
                    }
                    // constant arrays of integers / field-less enums (lookup tables): the elements as integers
                    let mut aval: Option<String> = None;
                    if let TyKind::Array(elem, len) = t.kind() {
                        let typing_env = ty::TypingEnv::fully_monomorphized();
                        if let (Ok(layout), Some(n)) = (tcx.layout_of(typing_env.as_query_input(*elem)), len.try_to_target_usize(tcx)) {
                            let esz = layout.size.bytes() as usize;
                            if esz > 0 && esz <= 8 && n <= 4096 && (elem.is_integral() || elem.is_enum()) {
                                if let Ok(rustc_middle::mir::ConstValue::Indirect { alloc_id, offset }) = tcx.const_eval_poly(id.to_def_id()) {
                                    if let Some(rustc_middle::mir::interpret::GlobalAlloc::Memory(mem)) = tcx.try_get_global_alloc(alloc_id) {
                                        let start = offset.bytes() as usize;
                                        let total = esz * (n as usize);
                                        if start + total <= mem.inner().len() {
                                            let bytes = mem.inner().inspect_with_uninit_and_ptr_outside_interpreter(start..start + total);
                                            let mut vals = vec![];
                                            for k in 0..(n as usize) {
                                                let mut v: u64 = 0;
                                                for b in 0..esz {
                                                    v |= (bytes[k * esz + b] as u64) << (8 * b);
                                                }
                                                vals.push(v.to_string());
                                            }
                                            aval = Some(arr(vals));
                                        }
                                    }
                                }
                            }
                        }
                    }
                    consts.push(obj(vec![("def", esc(&cx.path(id.to_def_id()))), ("ty", cx.ty(t, 2)), ("int", opt(val)), ("str", opt(sval)), ("array", aval.unwrap_or_else(|| "null".to_string()))]));
                }
                DefKind::Static { .. } => {
                    let t = tcx.type_of(id.to_def_id()).instantiate_identity().skip_norm_wip();
                    statics.push(obj(vec![("def", esc(&cx.path(id.to_def_id()))), ("ty", cx.ty(t, 5))]));
                }
                _ => {}
            }
        }
        let argv: Vec<String> = std::env::args().map(|a| esc(&a)).collect();
        let doc = obj(vec![
            ("crate", esc(&krate)),
            ("argv", arr(argv)),
            ("bodies", arr(bodies)),
            ("skipped", arr(skipped)),
            ("adts", arr(adts)),
            ("consts", arr(consts)),
            ("statics", arr(statics)),
        ]);
        let _ = std::fs::create_dir_all(&out_dir);
        let is_test = std::env::args().any(|a| a == "--test");
        let path = format!("{}/{}{}.json", out_dir, krate, if is_test { ".test" } else { "" });
        std::fs::write(&path, doc).expect("write facts");
        eprintln!("mirdump: wrote {}", path);
        Compilation::Continue
    }
}

fn main() {
    let mut args: Vec<String> = std::env::args().collect();
    if args.len() > 1 && (args[1].ends_with("/rustc") || args[1] == "rustc") {
        args.remove(1);
    }
    rustc_driver::run_compiler(&args, &mut Cb);
}
