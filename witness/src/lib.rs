//! Engine B: type-level witnesses. Each `compile_fail,E0xxx` doctest must fail to compile *with that error code*
//! (nightly rustdoc checks the code) and is paired with a compiling twin that differs only in the offending line,
//! so that a witness whose path is merely wrong cannot pass. They support the who-may-touch rules of the MIR
//! checks: what is private cannot be reached from outside the crate, so scanning the crate is exhaustive.

/// W1a — the transport writer of a session is private (E0616): code outside the crate cannot write to the
/// transport behind the serialising write path (supports C09 R09.1/R09.2, C11 R11.5).
/// ```compile_fail,E0616
/// fn touch(s: &anytls_rs::session::Session) { let _ = &s.writer; }
/// ```
/// twin:
/// ```
/// fn touch(s: &anytls_rs::session::Session) { let _ = s.is_closed(); }
/// ```
pub struct W1aWriterIsPrivate;

/// W1b — the closed flag is private (E0616): only `Session::close` can set it (supports C09 R09.2).
/// ```compile_fail,E0616
/// fn touch(s: &anytls_rs::session::Session) { s.is_closed.store(true, std::sync::atomic::Ordering::Relaxed); }
/// ```
/// twin:
/// ```
/// fn touch(s: &anytls_rs::session::Session) -> bool { s.is_closed() }
/// ```
pub struct W1bClosedFlagIsPrivate;

/// W1c — the stream tables are private (E0616) (supports C02 R02.1, C08 R08.1).
/// ```compile_fail,E0616
/// fn touch(s: &anytls_rs::session::Session) { let _ = &s.streams; }
/// ```
/// ```compile_fail,E0616
/// fn touch(s: &anytls_rs::session::Session) { let _ = &s.stream_receive_tx; }
/// ```
/// twin:
/// ```
/// fn touch(s: &anytls_rs::session::Session) -> u64 { s.id() }
/// ```
pub struct W1cStreamTablesArePrivate;

/// W1d — the pending-frame buffer and the packet counter are private (E0616) (supports C05 R05.4/R05.8, C11 R11.1).
/// ```compile_fail,E0616
/// fn touch(s: &anytls_rs::session::Session) { let _ = &s.buffer; }
/// ```
/// ```compile_fail,E0616
/// fn touch(s: &anytls_rs::session::Session) { let _ = &s.pkt_counter; }
/// ```
/// twin:
/// ```
/// fn touch(s: &anytls_rs::session::Session) { s.disable_buffering(); }
/// ```
pub struct W1dWriteStateIsPrivate;

/// W2 — `Stream` is not `Clone` (E0277): a stream id cannot be duplicated by cloning the stream; sharing goes
/// through `Arc<Stream>` (supports C02 R02.2).
/// ```compile_fail,E0277
/// fn need_clone<T: Clone>(_: &T) {}
/// fn dup(s: &anytls_rs::session::Stream) { need_clone(s) }
/// ```
/// twin:
/// ```
/// fn need_clone<T: Clone>(_: &T) {}
/// fn dup(s: &std::sync::Arc<anytls_rs::session::Stream>) { need_clone(s) }
/// ```
pub struct W2StreamIsNotClone;

/// W2b — the stream id field is private (E0616): nobody outside `session::stream` can restamp a stream.
/// ```compile_fail,E0616
/// fn restamp(s: &mut anytls_rs::session::Stream) { s.id = 7; }
/// ```
/// twin:
/// ```
/// fn read_id(s: &anytls_rs::session::Stream) -> u32 { s.id() }
/// ```
pub struct W2bStreamIdIsPrivate;

/// W3 — the receiver returned by `open_stream` is consumed by awaiting it (E0382 on a second await): an open
/// completes at most once at the type level (supports C10 R10.7).
/// ```compile_fail,E0382
/// async fn twice(s: &anytls_rs::session::Session) {
///     let (_stream, rx) = s.open_stream().await.unwrap();
///     let _ = rx.await;
///     let _ = rx.await;
/// }
/// ```
/// twin:
/// ```
/// async fn once(s: &anytls_rs::session::Session) {
///     let (_stream, rx) = s.open_stream().await.unwrap();
///     let _ = rx.await;
/// }
/// ```
pub struct W3OpenCompletesAtMostOnce;

/// W4 — `Command: From<u8>` is total (a compiling use with an arbitrary byte); there is no fallible conversion to
/// get wrong (supports C03 R03.3). Compiling twin only.
/// ```
/// fn any(b: u8) -> anytls_rs::protocol::Command { anytls_rs::protocol::Command::from(b) }
/// ```
pub struct W4CommandFromU8IsTotal;

/// W5 — the reload state of `CertReloader` is private (E0616): only `reload()` can publish a certificate
/// (supports C18 R18.2).
/// ```compile_fail,E0616
/// fn touch(r: &anytls_rs::util::CertReloader) { let _ = &r.reload_count; }
/// ```
/// twin:
/// ```
/// fn touch(r: &anytls_rs::util::CertReloader) -> u64 { r.get_reload_count() }
/// ```
pub struct W5ReloadStateIsPrivate;

/// W6 — the idle map of the pool is private (E0616): sessions enter and leave only through the pool's methods
/// (supports C12 R12.1/R12.6, C13 R13.4).
/// ```compile_fail,E0616
/// fn touch(p: &anytls_rs::client::SessionPool) { let _ = &p.idle_sessions; }
/// ```
/// twin:
/// ```
/// async fn touch(p: &anytls_rs::client::SessionPool) -> usize { p.idle_count().await }
/// ```
pub struct W6IdleMapIsPrivate;

/// W7 — a parsed padding scheme is immutable from outside (E0616): the md5 that is announced, the raw bytes that are
/// pushed and the parsed lines cannot be made to disagree after `PaddingFactory::new` (supports C19 R19.7, C05 R05.2).
/// ```compile_fail,E0616
/// fn touch(f: &mut anytls_rs::padding::PaddingFactory) { f.stop = 0; }
/// ```
/// twin:
/// ```
/// fn touch(f: &anytls_rs::padding::PaddingFactory) -> u32 { f.stop() }
/// ```
pub struct W7SchemeIsImmutable;

/// W7b — the cell holding the pushed scheme is not nameable outside its module (E0603): `update_default` is the only
/// writer (supports C19 R19.1 and the effect table's `static PUSHED_FACTORY` entries).
/// ```compile_fail,E0603
/// fn touch() { let _ = &anytls_rs::padding::factory::PUSHED_FACTORY; }
/// ```
/// twin:
/// ```
/// fn touch() { let _ = anytls_rs::padding::PaddingFactory::pushed(); }
/// ```
pub struct W7bPushedCellIsPrivate;

/// W8 — the session's current scheme is private (E0616): only the UpdatePaddingScheme arm replaces it (supports C19 R19.4/R19.8).
/// ```compile_fail,E0616
/// fn touch(s: &anytls_rs::session::Session) { let _ = &s.padding; }
/// ```
/// twin:
/// ```
/// fn touch(s: &anytls_rs::session::Session) -> bool { s.is_closed() }
/// ```
pub struct W8SessionSchemeIsPrivate;

/// W9 — the inbound queue end and the leftover buffer of a stream reader are private (E0616): nothing outside
/// `StreamReader::read` can consume, reorder or re-inject stream bytes (supports C01 R01.6/R01.7, C08 R08.3).
/// ```compile_fail,E0616
/// fn touch(r: &mut anytls_rs::session::StreamReader) { r.reader_buffer.clear(); }
/// ```
/// twin:
/// ```
/// fn touch(r: &anytls_rs::session::StreamReader) -> usize { r.buffer_len() }
/// ```
pub struct W9ReaderStateIsPrivate;

/// W10 — the command codes are the protocol's, checked by the compiler's constant evaluator (E0080 on the failing twin):
/// `Command::X as u8` for all eleven commands (supports C03 R03.3 "codes are the protocol's").
/// ```
/// use anytls_rs::protocol::Command as C;
/// const _: () = assert!(C::Waste as u8 == 0 && C::Syn as u8 == 1 && C::Push as u8 == 2 && C::Fin as u8 == 3 && C::Settings as u8 == 4
///     && C::Alert as u8 == 5 && C::UpdatePaddingScheme as u8 == 6 && C::SynAck as u8 == 7 && C::HeartRequest as u8 == 8
///     && C::HeartResponse as u8 == 9 && C::ServerSettings as u8 == 10);
/// ```
/// twin (must fail in constant evaluation):
/// ```compile_fail,E0080
/// use anytls_rs::protocol::Command as C;
/// const _: () = assert!(C::ServerSettings as u8 == 16);
/// ```
pub struct W10CommandCodesAreTheProtocols;

/// W11 — the liveness state of a session is private (E0616): the last-response instant has no writer outside
/// `session.rs`, which is what makes the who-may-write scan of C14 R14.1 exhaustive.
/// ```compile_fail,E0616
/// fn touch(s: &anytls_rs::session::Session) { let _ = &s.heartbeat; }
/// ```
/// twin:
/// ```
/// fn touch(s: &anytls_rs::session::Session) -> bool { s.is_closed() }
/// ```
pub struct W11LivenessStateIsPrivate;
