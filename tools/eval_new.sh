#!/bin/bash
# tools/eval_new.sh <id> <m...> : sweep an agent's fresh patches and queue their confirmation in the background
id=$1; shift
rm -rf /tmp/newm2; mkdir -p /tmp/newm2
for m in "$@"; do mkdir -p /tmp/newm2/$id-$m; cp /tmp/wt/$id-out/$m/patch.diff /tmp/newm2/$id-$m/; done
python3 /verif/tools/sweep.py /tmp/newm2
(for m in "$@"; do /verif/tools/confirm_mutant.sh /tmp/wt/$id-out/$m $id-$m; done >> /tmp/cw/round2.log 2>&1 &)
