#!/bin/bash
# Runs the repository's own test suite (guard off; static analysis needs no hooks) and prints the pass count.
cd /repo || exit 2
out=$(CARGO_NET_OFFLINE=true cargo test --workspace --no-fail-fast --offline 2>&1)
p=$(echo "$out" | grep -E "^test result" | sed -E 's/.* ([0-9]+) passed.*/\1/' | paste -sd+ | bc)
f=$(echo "$out" | grep -E "^test result" | sed -E 's/.* ([0-9]+) failed.*/\1/' | paste -sd+ | bc)
echo "passed=$p failed=$f"
if [ "$f" != "0" ] || [ "$p" -lt 73 ]; then echo "$out" | grep -E "FAILED|panicked|error(\[|:)" | head -20; exit 1; fi
