#!/usr/bin/env python3
"""gen_effects.py — regenerate rules/effects_baseline.json from the current tree of /repo (a reviewed act: read the diff of the table before committing it)."""
import sys, os, json
sys.path.insert(0,'/verif')
from engine import facts
from engine.anl import report
from engine.anl.mir import Program
from engine.anl.callgraph import CallGraph
d,_=facts.ensure_facts()
P=Program(d); cg=CallGraph(P)
ctx=report.Ctx("C01", d, "quick", program=P, callgraph=cg)
from rules import effects
base=[l.strip() for l in open('/verif/rules/baseline_fns.txt') if l.strip()]
owners=[f for f in base if f.startswith(("session::","client::","server::","util::auth","util::dns_cache","padding::factory","protocol::","util::cert_reloader","util::tls::","<session::","<protocol::","<client::","<server::")) and f in P.bodies and "::{closure" not in f]
arms=[n for n,d_ in P.enum_variants("protocol::frame::Command")]
fns=["session::session::Session::close","session::session::Session::handle_io_error","session::stream::Stream::close_with_error","session::stream::Stream::notify_synack",
     "client::session_pool::SessionPool::add_idle_session","client::session_pool::SessionPool::get_idle_session","padding::factory::PaddingFactory::update_default",
     "util::cert_reloader::CertReloader::reload","session::session::Session::open_stream","session::session::Session::start_client","session::session::Session::write_with_padding",
     "session::session::Session::recv_loop","session::session::Session::process_stream_data","session::session::Session::disable_buffering","session::session::Session::enable_buffering",
     "client::client::Client::create_new_session","util::auth::authenticate_client","util::auth::send_authentication","session::session::Session::new_server","session::session::Session::new_client",
     "session::stream_reader::StreamReader::buffer_len","session::stream_reader::StreamReader::is_eof",
     "util::tls::create_server_config","util::tls::create_server_config_from_files"]
fns=[f for f in fns if f in P.bodies]
t=effects.generate(ctx, owners, arms, fns)
json.dump(t, open('/verif/rules/effects_baseline.json','w'), indent=1, sort_keys=True)
n=sum(len(v) for v in t["owners"].values())
print(len(t["owners"]), "owners", n, "effects;", len(t["arms"]), "arms", sum(len(v) for v in t["arms"].values()), ";", len(t["callers"]), "callee tables")
for k in ("session::session::Session::close","session::session::Session::open_stream","client::session_pool::SessionPool::get_idle_session","util::auth::authenticate_client"):
    print(k.split("::")[-1], t["owners"][k])
for a in ("SynAck","Fin","Push","Alert","HeartResponse"):
    print(a, t["arms"][a])
print(t["callers"]["session::session::Session::close"])
