#!/usr/bin/env python3
"""sweep.py <dir-with-subdirs-containing-patch.diff> [--out file.json] [--scratch] : apply each change to /repo, run every check (ALL mode), restore.
With --scratch the change is applied to an rsync copy of /repo in a temporary directory instead (removed afterwards; /repo and
/verif/evidence stay untouched), so that sweeps can run while /repo is in use.
Prints one line per change: which properties raised an unlisted violation and by which rules."""
import json, os, re, shutil, subprocess, sys, tempfile
root = sys.argv[1]
SCRATCH = "--scratch" in sys.argv
# --snapshot: run the checks from a frozen copy of /verif (rules, engine, tables), so that a long sweep is not affected by edits made
# to the rules while it runs; the fact cache of /verif is shared through a symlink
VERIF_DIR = "/verif"
if "--snapshot" in sys.argv:
    VERIF_DIR = tempfile.mkdtemp(prefix="verif-snap-")
    subprocess.run("rsync -a --exclude .cache --exclude .git --exclude seeded --exclude benign --exclude evidence /verif/ %s/ && ln -s /verif/.cache %s/.cache && mkdir -p %s/evidence" % (VERIF_DIR, VERIF_DIR, VERIF_DIR), shell=True, check=True)
    import atexit
    atexit.register(lambda: shutil.rmtree(VERIF_DIR, ignore_errors=True))
out = sys.argv[sys.argv.index("--out") + 1] if "--out" in sys.argv else None
only = [a for a in sys.argv[2:] if not a.startswith("--") and a != out]
def sh(cmd, cwd=None):
    return subprocess.run(cmd, shell=True, cwd=cwd, capture_output=True, text=True)
if not SCRATCH and sh("git status --porcelain --untracked-files=no", "/repo").stdout.strip():
    print("repo dirty"); sys.exit(2)
res = {}


def scratch_run(p):
    tmp = tempfile.mkdtemp(prefix="verif-sweep-")
    ev = tempfile.mkdtemp(prefix="verif-sweep-ev-")
    try:
        sh("rsync -a --exclude target --exclude .git %s/ %s/" % (os.environ.get("SWEEP_BASE", "/repo"), tmp))
        if sh("patch -p1 --no-backup-if-mismatch -s -F3 -i %s" % p, tmp).returncode != 0:
            return None
        return subprocess.run("./check ALL", shell=True, cwd=VERIF_DIR, capture_output=True, text=True,
                              env=dict(os.environ, VERIF_REPO=tmp, VERIF_EVIDENCE_DIR=ev))
    finally:
        shutil.rmtree(tmp, ignore_errors=True)
        shutil.rmtree(ev, ignore_errors=True)


JOBS = int(sys.argv[sys.argv.index("--jobs") + 1]) if "--jobs" in sys.argv else 1
only = [a for a in only if not a.isdigit()]
names = []
for name in sorted(os.listdir(root)):
    p = os.path.join(root, name, "patch.diff")
    if os.path.isfile(p) and not (only and name not in only):
        names.append(name)


def parse(r):
    fired = {}
    cur = None
    if "CHECK-INPUT-ERROR" in r.stdout:
        return {"status": "does-not-compile"}
    for line in r.stdout.splitlines():
        m = re.match(r"\s+(VIOLATION|ANCHOR-MISSING) (\S+) ", line)
        if m:
            cur = (m.group(2), m.group(1))
        m2 = re.match(r"VIOLATION property=(\S+) ", line)
        if m2 and cur:
            fired.setdefault(m2.group(1), []).append(cur[0] + ("!" if cur[1] == "ANCHOR-MISSING" else ""))
    return {"status": "ran", "fired": {k: sorted(set(v)) for k, v in fired.items()}}


def show(name, r):
    if r["status"] != "ran":
        print("%-12s %s" % (name, r["status"].upper()), flush=True)
    else:
        print("%-12s %s" % (name, " ".join("%s[%s]" % (k, ",".join(v)) for k, v in sorted(r["fired"].items())) or "-- silent --"), flush=True)


def one_scratch(name):
    r = scratch_run(os.path.join(root, name, "patch.diff"))
    return name, ({"status": "patch-does-not-apply"} if r is None else parse(r))


if SCRATCH:
    from concurrent.futures import ThreadPoolExecutor
    with ThreadPoolExecutor(max_workers=JOBS) as ex:
        for name, r in ex.map(one_scratch, names):
            res[name] = r
            show(name, r)
else:
    for name in names:
        p = os.path.join(root, name, "patch.diff")
        ok = sh("git apply %s" % p, "/repo").returncode == 0
        if not ok:
            sh("git reset -q --hard HEAD", "/repo")
            ok = sh("git apply --3way %s && git reset -q" % p, "/repo").returncode == 0
        if not ok:
            sh("git reset -q --hard HEAD; git clean -fdq -- src tests", "/repo")
            ok = sh("patch -p1 --no-backup-if-mismatch -F3 < %s" % p, "/repo").returncode == 0
        if not ok:
            sh("git reset -q --hard HEAD; git clean -fdq -- src tests", "/repo")
            res[name] = {"status": "patch-does-not-apply"}
            show(name, res[name])
            continue
        r = sh("./check ALL", "/verif")
        sh("git reset -q --hard HEAD; git clean -fdq -- src tests", "/repo")
        res[name] = parse(r)
        show(name, res[name])
if out:
    if "--merge" in sys.argv and os.path.isfile(out):
        old = json.load(open(out))
        old.update(res)
        res = old
    json.dump(res, open(out, "w"), indent=1, sort_keys=True)
