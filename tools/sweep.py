#!/usr/bin/env python3
"""sweep.py <dir-with-subdirs-containing-patch.diff> [--out file.json] : apply each change to /repo, run every check (ALL mode), restore.
Prints one line per change: which properties raised an unlisted violation and by which rules."""
import json, os, re, subprocess, sys
root = sys.argv[1]
out = sys.argv[sys.argv.index("--out") + 1] if "--out" in sys.argv else None
only = [a for a in sys.argv[2:] if not a.startswith("--") and a != out]
def sh(cmd, cwd=None):
    return subprocess.run(cmd, shell=True, cwd=cwd, capture_output=True, text=True)
if sh("git status --porcelain --untracked-files=no", "/repo").stdout.strip():
    print("repo dirty"); sys.exit(2)
res = {}
for name in sorted(os.listdir(root)):
    d = os.path.join(root, name)
    p = os.path.join(d, "patch.diff")
    if not os.path.isfile(p) or (only and name not in only):
        continue
    ok = sh("git apply %s" % p, "/repo").returncode == 0
    if not ok:
        sh("git reset -q --hard HEAD", "/repo")
        ok = sh("git apply --3way %s && git reset -q" % p, "/repo").returncode == 0
    if not ok:
        sh("git reset -q --hard HEAD; git clean -fdq -- src tests", "/repo")
        ok = sh("patch -p1 --no-backup-if-mismatch -F3 < %s" % p, "/repo").returncode == 0
    if not ok:
        sh("git reset -q --hard HEAD; git clean -fdq -- src tests", "/repo")
        res[name] = {"status": "patch-does-not-apply"}
        print("%-12s PATCH-DOES-NOT-APPLY" % name)
        continue
    r = sh("./check ALL", "/verif")
    sh("git reset -q --hard HEAD; git clean -fdq -- src tests", "/repo")
    fired = {}
    cur = None
    if "CHECK-INPUT-ERROR" in r.stdout:
        res[name] = {"status": "does-not-compile"}
        print("%-12s DOES-NOT-COMPILE" % name)
        continue
    for line in r.stdout.splitlines():
        m = re.match(r"\s+(VIOLATION|ANCHOR-MISSING) (\S+) ", line)
        if m:
            cur = (m.group(2), m.group(1))
        m2 = re.match(r"VIOLATION property=(\S+) ", line)
        if m2 and cur:
            fired.setdefault(m2.group(1), []).append(cur[0] + ("!" if cur[1] == "ANCHOR-MISSING" else ""))
    res[name] = {"status": "ran", "fired": {k: sorted(set(v)) for k, v in fired.items()}}
    print("%-12s %s" % (name, " ".join("%s[%s]" % (k, ",".join(sorted(set(v)))) for k, v in sorted(fired.items())) or "-- silent --"))
if out:
    json.dump(res, open(out, "w"), indent=1)
