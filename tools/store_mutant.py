#!/usr/bin/env python3
"""store_mutant.py <src-dir> <name> : copy a confirmed seeded change into /verif/seeded/<name>/ (patch.diff, demo.diff, meta.json)"""
import json, os, shutil, sys
src, name = sys.argv[1], sys.argv[2]
dst = os.path.join("/verif/seeded", name)
os.makedirs(dst, exist_ok=True)
conf = json.load(open(os.path.join(src, "confirm.json")))
if not conf.get("status", "").startswith("confirmed"):
    print("NOT CONFIRMED", name, conf); sys.exit(1)
meta = json.load(open(os.path.join(src, "meta.json")))
if not os.path.exists(os.path.join(dst, "patch.diff")) or "--keep-patch" not in sys.argv:
    shutil.copy(os.path.join(src, "patch.diff"), os.path.join(dst, "patch.diff"))
shutil.copy(os.path.join(src, "demo.diff"), os.path.join(dst, "demo.diff"))
meta["confirmed_by_me"] = {"how": "tools/confirm_mutant.sh in a scratch worktree of /repo HEAD %s: demo passes on the clean tree (rc %s), fails with the patch (rc %s); the existing suite with the patch: %s passed, %s failed" % (
    conf.get("head"), conf.get("rc_clean"), conf.get("rc_mut"), conf.get("suite_passed"), conf.get("suite_failed")), "demo_cmd": conf.get("demo_cmd")}
json.dump(meta, open(os.path.join(dst, "meta.json"), "w"), indent=1)
print("stored", name)
