#!/usr/bin/env python3
"""matrix_md.py — regenerate the seeded-change table of DESIGN.md (between the MATRIX markers) from seeded/MATRIX.json and the
meta.json of every stored change."""
import json, os, re, sys
HERE = os.path.dirname(os.path.dirname(os.path.abspath(__file__)))
M = json.load(open(os.path.join(HERE, "seeded", "MATRIX.json")))
rows = ["| change | what it does (title given by the seeding agent) | reported by |", "|--------|--------------|-----------|"]
res = M.get("results", M)
n = miss = 0
for name in sorted(k for k in os.listdir(os.path.join(HERE, "seeded")) if os.path.isdir(os.path.join(HERE, "seeded", k))):
    meta = json.load(open(os.path.join(HERE, "seeded", name, "meta.json")))
    title = re.sub(r"\s+", " ", meta.get("title", "")).replace("|", "/")[:150]
    hit = res.get(name, {}).get("fired", {})
    target = name.split("-")[0]
    cells = []
    for prop in sorted(hit, key=lambda p: (p != target, p)):
        rules = hit[prop]
        cells.append("%s %s" % (prop, " ".join(rules)))
    n += 1
    if target not in hit:
        miss += 1
    rows.append("| %s | %s | %s |" % (name, title, "; ".join(cells) if cells else "**not reported**"))
rows.append("")
rows.append("%d stored changes; %d not reported by the check of the property they were written against." % (n, miss))
txt = "\n".join(rows)
p = os.path.join(HERE, "DESIGN.md")
s = open(p).read()
a, b = "<!-- MATRIX:BEGIN -->", "<!-- MATRIX:END -->"
if a in s and b in s:
    s = s[:s.index(a) + len(a)] + "\n" + txt + "\n" + s[s.index(b):]
    open(p, "w").write(s)
    print("DESIGN.md updated: %d rows, %d missed" % (n, miss))
else:
    print(txt)
