#!/usr/bin/env python3
"""misses.py <sweep log or MATRIX.json>... : changes that are not reported by the check of the property they were written against."""
import json, re, sys
rows = {}
for f in sys.argv[1:]:
    if f.endswith(".json"):
        for name, r in json.load(open(f)).items():
            rows[name] = " ".join("%s[%s]" % (k, ",".join(v)) for k, v in sorted(r.get("fired", {}).items())) or r.get("status", "")
    else:
        for l in open(f):
            l = l.rstrip()
            if l and re.match(r"^[A-Z]\d+-", l):
                name = l.split()[0]
                rows[name] = l[len(name):].strip()
miss = [(n, r) for n, r in sorted(rows.items()) if not re.search(r"\b%s\[" % n.split("-")[0], r)]
print("%d swept, %d not reported by their own property, %d silent" % (len(rows), len(miss), sum(1 for n, r in miss if "silent" in r or not r.strip())))
for n, r in miss:
    print("  %-10s %s" % (n, r[:160]))
