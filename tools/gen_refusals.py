#!/usr/bin/env python3
"""gen_refusals.py — regenerate rules/refusals_baseline.json from the current tree of /repo (a reviewed act: read the diff before committing it)."""
import sys, json
sys.path.insert(0, '/verif')
from engine import facts
from engine.anl import report
from engine.anl.mir import Program
from engine.anl.callgraph import CallGraph
d, _ = facts.ensure_facts()
P = Program(d); cg = CallGraph(P)
ctx = report.Ctx("C01", d, "quick", program=P, callgraph=cg)   # runs the inliner exactly as a check does
from rules import refusals
t = refusals.table(ctx.P)
json.dump(t, open('/verif/rules/refusals_baseline.json', 'w'), indent=1, sort_keys=True)
print(len(t), "modules,", sum(sum(r.values()) for r in t.values()), "error constructions")
for m in sorted(t):
    print(" ", m, t[m])
