#!/usr/bin/env python3
"""rename_in_fn.py <file> <fn-name> <old> <new> : rename an identifier inside one function (whole-word), for building benign variants"""
import re, sys
path, fn, old, new = sys.argv[1:5]
s = open(path).read()
m = re.search(r"\n( *)(pub )?(async )?fn %s\b" % re.escape(fn), s)
assert m, "fn not found"
indent = m.group(1)
start = m.start()
end = s.index("\n%s}\n" % indent, start) + len(indent) + 3
seg = s[start:end]
seg2 = re.sub(r"(?<![A-Za-z0-9_\.])%s\b(?!\s*:(?!:)\s*[A-Z&a-z].*,\s*$)" % re.escape(old), new, seg)
# struct-literal shorthand `Frame { data }` would break; handle `name,` inside braces conservatively by leaving as is
s = s[:start] + seg2 + s[end:]
open(path, "w").write(s)
print("renamed %d occurrences" % (len(re.findall(r"(?<![A-Za-z0-9_\.])%s\b" % re.escape(old), seg))))
