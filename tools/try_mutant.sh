#!/bin/bash
# tools/try_mutant.sh <patch.diff> <prop> [<prop>...] : apply a seeded change to /repo, run the checks, restore /repo.
patch="$1"; shift
cd /repo || exit 2
if [ -n "$(git status --porcelain --untracked-files=no)" ]; then echo "repo dirty, refusing"; exit 2; fi
if ! git apply "$patch" 2>/dev/null; then
  if ! git apply --3way "$patch" 2>/dev/null; then
     git reset -q --hard HEAD
     if ! patch -p1 --no-backup-if-mismatch -F3 < "$patch" >/dev/null 2>&1; then echo "PATCH-DOES-NOT-APPLY $patch"; git reset -q --hard HEAD; git clean -fdq -- src tests; exit 3; fi
  fi
  git reset -q
fi
cd /verif
for p in "$@"; do
  out=$(./check "$p" 2>&1)
  rc=$?
  echo "--- $p rc=$rc"
  echo "$out" | grep -E "^  (VIOLATION|ANCHOR)|CHECK-INPUT|^\[" | cut -c1-${W:-260}
done
git -C /repo reset -q --hard HEAD; git -C /repo clean -fdq -- src tests 2>/dev/null
