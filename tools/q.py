#!/usr/bin/env python3
"""q.py <body-substr> [conds|calls] [regex] — concise query tool (lines truncated, await/? plumbing skipped)"""
import re, sys, os
sys.path.insert(0, os.path.dirname(os.path.dirname(os.path.abspath(__file__))))
from engine import facts
from engine.anl.mir import Program, span_is_tracing
from engine.anl.origin import Origins, fmt
from engine.anl.conds import Conds
PLUMB = ("into_future", "new_unchecked", "::poll", "get_context", "Try>::branch", "from_residual", "::{closure#0}", "Deref>::deref", "DerefMut>::deref_mut", "fmt::", "must_use", "Clone>::clone")
d, _ = facts.ensure_facts()
P = Program(d)
sub = sys.argv[1]; what = sys.argv[2] if len(sys.argv) > 2 else "conds"; rx = re.compile(sys.argv[3]) if len(sys.argv) > 3 else None
W = int(os.environ.get("W", "170"))
for n, b in sorted(P.bodies.items()):
    if sub not in n: continue
    _hdr = "== %s %d" % (n, len(b.blocks))
    _printed = [False]
    def out(line):
        if not _printed[0]:
            print(_hdr); _printed[0] = True
        print(line)
    o = Origins(b)
    if what == "conds":
        for c in Conds(b, P, o).all():
            if span_is_tracing(b.blocks[c.block]["tspan"]): continue
            vals = sum(c.by_succ.values(), [])
            if "Pending" in vals or "Continue" in vals and False: continue
            s = "bb%d L%s %s %s%s %s" % (c.block, b.blocks[c.block]["tspan"]["line"], c.kind, fmt(c.term)[:W-50], "/" + ">".join(c.path) if c.path else "", c.by_succ)
            if rx is None or rx.search(s): out("  " + s[:W+40])
    else:
        for c in b.calls():
            nm = c.norm or "?"
            if any(p in (c.callee or "") for p in PLUMB): continue
            s = "bb%d L%s %s(%s)" % (c.bb, c.line, nm.split("::")[-2] + "::" + nm.split("::")[-1] if "::" in nm else nm, ", ".join(fmt(o.of_operand(a))[:60] for a in c.args))
            if rx is None or rx.search(s): out("  " + s[:W])
