#!/bin/bash
# tools/confirm_mutant.sh <mutant-dir (patch.diff demo.diff meta.json)> <name>
# Confirms in a scratch worktree of /repo HEAD: demo passes on clean code, fails with the patch, and the existing suite
# (73 tests) still passes with the patch. Writes <mutant-dir>/confirm.json. Shares one target dir to save build time.
d="$1"; name="$2"
# one confirmation at a time: the target dir is shared, concurrent builds would link each other's libraries
mkdir -p /tmp/cw
exec 9>/tmp/cw/confirm.lock
flock 9
wt=/tmp/cw/$name
export CARGO_TARGET_DIR=/tmp/cw/target CARGO_NET_OFFLINE=true
mkdir -p /tmp/cw
git -C /repo worktree remove --force $wt 2>/dev/null
git -C /repo worktree add -q --detach $wt HEAD || exit 2
cd $wt
res() { python3 - "$d" "$@" <<'PY'
import json,sys
d=sys.argv[1]; kv=dict(a.split("=",1) for a in sys.argv[2:])
json.dump(kv, open(d+"/confirm.json","w"), indent=1)
print(kv)
PY
}
apply() { git apply "$1" 2>/dev/null || git apply --3way "$1" 2>/dev/null || patch -p1 --no-backup-if-mismatch -F3 < "$1" >/dev/null 2>&1; }
if ! apply "$d/demo.diff"; then res status=demo-does-not-apply; git -C /repo worktree remove --force $wt; exit 1; fi
cmd=$(python3 -c "import json;print(json.load(open('$d/meta.json'))['demo_cmd'])")
cmd=$(echo "$cmd" | sed -E 's/^cd [^;&]+(&&|;) *//')
case "$cmd" in *--offline*) ;; *) cmd="$cmd --offline";; esac
timeout 900 bash -c "$cmd" > /tmp/cw/$name.clean.log 2>&1; rc_clean=$?
if ! apply "$d/patch.diff"; then res status=patch-does-not-apply rc_clean=$rc_clean; git -C /repo worktree remove --force $wt; exit 1; fi
timeout 900 bash -c "$cmd" > /tmp/cw/$name.mut.log 2>&1; rc_mut=$?
# existing suite with the mutation: move the demo test files away first (they are expected to fail)
git stash -q 2>/dev/null; git stash pop -q 2>/dev/null
demofiles=$(grep -E '^\+\+\+ b/' "$d/demo.diff" | sed 's#+++ b/##' | grep '^tests/' )
for f in $demofiles; do rm -f "$f"; done
if grep -qE '^\+\+\+ b/src/' "$d/demo.diff"; then git apply -R "$d/demo.diff" 2>/dev/null || true; fi
suite() {
out=$(timeout 1500 cargo test --workspace --no-fail-fast --offline 2>&1)
p=$(echo "$out" | grep -E "^test result" | sed -E 's/.* ([0-9]+) passed.*/\1/' | paste -sd+ | bc)
f=$(echo "$out" | grep -E "^test result" | sed -E 's/.* ([0-9]+) failed.*/\1/' | paste -sd+ | bc)
}
suite
# tests/udp_roundtrip.rs binds fixed ports and collides with other suite runs on this host: retry once before believing a failure
if [ "$f" != "0" ]; then sleep 5; suite; fi
st=confirmed
[ "$rc_clean" != "0" ] && st=demo-fails-on-clean
[ "$rc_mut" == "0" ] && st=demo-passes-on-mutant
[ "$f" != "0" ] && st="$st+suite-fails"
res status=$st rc_clean=$rc_clean rc_mut=$rc_mut suite_passed=$p suite_failed=$f demo_cmd="$cmd" head=$(git -C /repo rev-parse --short HEAD)
cd /; git -C /repo worktree remove --force $wt
