#!/usr/bin/env python3
"""Regenerates MANIFEST.json from rules/*.py (claimed) and tools/manifest_meta.json (texts)."""
import json, os
HERE = os.path.dirname(os.path.dirname(os.path.abspath(__file__)))
meta = json.load(open(os.path.join(HERE, "tools", "manifest_meta.json")))
props = [json.loads(l)["id"] for l in open(os.path.join(HERE, "properties.jsonl"))]
checks, na = [], []
for pid in props:
    m = meta["properties"].get(pid, {})
    if os.path.isfile(os.path.join(HERE, "rules", pid + ".py")) and not m.get("not_applicable"):
        checks.append({
            "property_id": pid,
            "quick_cmd": "./check %s --tier quick" % pid,
            "thorough_cmd": "./check %s --tier thorough" % pid,
            "evidence_file": "/verif/evidence/%s.json" % pid,
            "replay_cmd_template": "./check %s --explain {path}" % pid,
            "engine": "mirdump+anl",
            "level_claimed": {"category": "other", "text": m.get("level_text", meta["default_level_text"]), "design_ref": "DESIGN.md section 5, " + pid},
            "level_note": m.get("level_note", meta["default_level_note"]),
            "technique": m.get("technique", meta["default_technique"]),
        })
    else:
        na.append({"property_id": pid, "reason": m.get("not_applicable") or "rules for this property are not built yet (DESIGN.md section 10 build order); no claim is made until they are"})
man = {
    "version": 1,
    "setup_cmd": "./setup.sh",
    "hooks": {"guard": "anytls_verif", "enable": "none needed: static analysis reads the compiler's MIR of the unmodified sources; no instrumentation is compiled in",
              "baseline_off_cmd": "/verif/tools/baseline.sh", "source_commits": [], "add_only": True},
    "engines": [
        {"name": "mirdump", "path": "engine/mirdump", "serves_properties": [c["property_id"] for c in checks],
         "kind_free_text": "rustc_private driver (nightly) injected via RUSTC_WORKSPACE_WRAPPER under cargo check; exports mir_built bodies with resolved callees, ADTs, consts, statics of the local crates as JSON facts"},
        {"name": "anl", "path": "engine/anl", "serves_properties": [c["property_id"] for c in checks],
         "kind_free_text": "Python analyses over the exported MIR: call graph, origin chains, edge conditions, dominators/path queries, role pruning, held-guard dataflow + lock summaries, provenance, cast bounds, table extraction; repository-specific rules in rules/"},
    ],
    "checks": checks,
    "not_applicable": na,
    "notes": meta.get("notes", ""),
}
json.dump(man, open(os.path.join(HERE, "MANIFEST.json"), "w"), indent=1)
print("claimed", [c["property_id"] for c in checks], "not_applicable", [n["property_id"] for n in na])
